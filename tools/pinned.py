"""Shows that every defect recorded as fixed in known_findings.json is still detected on the pinned tree.

    /venv/bin/python -B tools/pinned.py [Cnn ...]

Extracts the pinned commit (dd1349e) to /var/tmp/akpy-pinned-<pid>, runs ./check Cnn (quick) with
VERIF_REPO pointing at it, and requires a VIOLATION with the recorded signature. Removes the copy.
"""
import json, os, re, shutil, subprocess, sys
VERIF = os.path.dirname(os.path.dirname(os.path.abspath(__file__)))
want = [a.upper() for a in sys.argv[1:]]
kf = json.load(open(os.path.join(VERIF, "known_findings.json")))["findings"]
by_prop = {}
for k in kf:
    if k["status"] == "fixed":
        by_prop.setdefault(k["property"], set()).add(k["signature"])
dst = f"/var/tmp/akpy-pinned-{os.getpid()}"
os.makedirs(dst)
bad = 0
try:
    subprocess.run(f"git -C /repo archive dd1349e | tar -x -C {dst}", shell=True, check=True)
    for prop in sorted(by_prop):
        if want and prop not in want:
            continue
        env = dict(os.environ, VERIF_REPO=dst, VERIF_NO_EVIDENCE="1")
        r = subprocess.run([os.path.join(VERIF, "check"), prop], cwd=VERIF, env=env, capture_output=True, text=True)
        sigs = set(re.findall(r"violation \[([^\]]+)\]", r.stdout))
        ok = r.returncode == 1 and by_prop[prop] <= sigs
        print(f"{prop}: exit={r.returncode} expected={sorted(by_prop[prop])} reported={sorted(sigs)} -> {'detected' if ok else 'NOT DETECTED'}")
        bad += not ok
finally:
    shutil.rmtree(dst, ignore_errors=True)
sys.exit(1 if bad else 0)
