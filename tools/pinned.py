"""Shows that every defect recorded as fixed in known_findings.json is still detected on the tree where it was present.

    /venv/bin/python -B tools/pinned.py [Cnn ...]

For every `fixed` finding the tree is the commit named by its `present_at` field (default: the pinned commit
dd1349e).  Each such tree is extracted to /var/tmp/akpy-pinned-<pid>-<commit>, ./check Cnn (quick) is run with
VERIF_REPO pointing at it, and a VIOLATION with the recorded signature is required.  The copies are removed.
"""
import json, os, re, shutil, subprocess, sys
VERIF = os.path.dirname(os.path.dirname(os.path.abspath(__file__)))
PINNED = "dd1349e"
want = [a.upper() for a in sys.argv[1:]]
kf = json.load(open(os.path.join(VERIF, "known_findings.json")))["findings"]
by = {}
for k in kf:
    if k["status"] == "fixed":
        by.setdefault((k.get("present_at", PINNED), k["property"]), set()).add(k["signature"])
bad = 0
for commit in sorted({c for c, _ in by}):
    dst = f"/var/tmp/akpy-pinned-{os.getpid()}-{commit}"
    os.makedirs(dst)
    try:
        subprocess.run(f"git -C /repo archive {commit} | tar -x -C {dst}", shell=True, check=True)
        for (c, prop), sigs_want in sorted(by.items()):
            if c != commit or (want and prop not in want):
                continue
            env = dict(os.environ, VERIF_REPO=dst, VERIF_NO_EVIDENCE="1")
            r = subprocess.run([os.path.join(VERIF, "check"), prop], cwd=VERIF, env=env, capture_output=True, text=True)
            sigs = set(re.findall(r"violation \[([^\]]+)\]", r.stdout))
            ok = r.returncode == 1 and sigs_want <= sigs
            print(f"{prop}@{commit}: exit={r.returncode} expected={sorted(sigs_want)} reported={sorted(sigs)} -> "
                  f"{'detected' if ok else 'NOT DETECTED'}", flush=True)
            bad += not ok
    finally:
        shutil.rmtree(dst, ignore_errors=True)
sys.exit(1 if bad else 0)
