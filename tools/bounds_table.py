"""Prints the per-check table of DESIGN.md §7.5 from the evidence files (quick) and a thorough log."""
import json, os, re, sys
VERIF = os.path.dirname(os.path.dirname(os.path.abspath(__file__)))
tlog = sys.argv[1] if len(sys.argv) > 1 else None
qlog = sys.argv[2] if len(sys.argv) > 2 else None
th = {}
if tlog and os.path.exists(tlog):
    for l in open(tlog):
        m = re.search(r"(C\d\d) seed=\d+ exit=(\d+)\s+([\d.]+)s .*states=(\d+) transitions=(\d+) validated=(\d+)", l)
        if m:
            th[m.group(1)] = (int(m.group(2)), float(m.group(3)), int(m.group(4)), int(m.group(5)), int(m.group(6)))
qw = {}
if qlog and os.path.exists(qlog):
    for l in open(qlog):
        m = re.search(r"(C\d\d) seed=(\d+) exit=0\s+([\d.]+)s", l)
        if m:
            qw.setdefault(m.group(1), []).append(float(m.group(3)))
man = {c["property_id"]: c for c in json.load(open(os.path.join(VERIF, "MANIFEST.json")))["checks"]}
print("| id | deciding method | quick: states / transitions / validated / non-trivial / outcomes / shards | quick wall, idle box (seeds 0-3) | thorough: states / transitions / wall |")
print("|----|-----------------|---|---|---|")
for cid in sorted(man):
    e = json.load(open(os.path.join(os.environ.get("EV_DIR", os.path.join(VERIF, "evidence")), cid + ".json")))
    c = e["coverage"]
    q = f"{c['states']:,} / {c['transitions']:,} / {c['traces_validated_against_impl']:,} / {c['distinct_nontrivial']:,} / {c['distinct_outcomes']} / {c['shards']}"
    w = qw.get(cid)
    ws = f"{min(w):.0f}-{max(w):.0f} s" if w else f"{e['wall_s']:.0f} s"
    t = th.get(cid)
    ts = f"{t[2]:,} / {t[3]:,} / {t[1]:.0f} s" if t else "-"
    print(f"| {cid} | {man[cid]['technique']} | {q} | {ws} | {ts} |")
