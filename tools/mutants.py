"""Mutation driver (DESIGN.md §1.6).

    /venv/bin/python -B tools/mutants.py [--seeds 0,1,2] [--tier quick] [--base HEAD|pinned] <patch> [<patch> ...]

For each patch (``mutants/Cnn-<name>.patch`` or ``seeded/<id>/patch.diff``; the property id is taken
from the file name / meta.json, or given with --check):
  1. copy the tree (``git archive HEAD`` of /repo, or the pinned tree) to /var/tmp/akpy-mut-<pid>-<n>
  2. apply the patch (``patch -p1``)
  3. run the repository's own test-suite there: it must still pass (otherwise "killed-by-suite")
  4. run ``./check Cnn`` with VERIF_REPO=<copy> for every seed: every run must print a VIOLATION line
  5. remove the copy
Prints one line per patch and appends a record to mutants/results.jsonl.
"""
import argparse
import json
import os
import re
import shutil
import subprocess
import sys
import time

VERIF = os.path.dirname(os.path.dirname(os.path.abspath(__file__)))
PINNED = "dd1349e"


def sh(cmd, cwd=None, env=None, timeout=3600):
    r = subprocess.run(cmd, cwd=cwd, env=env, shell=isinstance(cmd, str), capture_output=True, text=True,
                       timeout=timeout)
    return r.returncode, r.stdout + r.stderr


def make_copy(base, n):
    dst = f"/var/tmp/akpy-mut-{os.getpid()}-{n}"
    shutil.rmtree(dst, ignore_errors=True)
    os.makedirs(dst)
    rev = PINNED if base == "pinned" else "HEAD"
    rc, out = sh(f"git -C /repo archive {rev} | tar -x -C {dst}")
    if rc:
        raise SystemExit(out)
    return dst


def property_of(patch, explicit):
    if explicit:
        return explicit.upper()
    d = os.path.dirname(os.path.abspath(patch))
    meta = os.path.join(d, "meta.json")
    if os.path.exists(meta):
        return json.load(open(meta))["property"].upper()
    m = re.match(r"(C\d\d)", os.path.basename(patch), re.I)
    if not m:
        raise SystemExit(f"cannot tell the property of {patch}; use --check")
    return m.group(1).upper()


def main():
    ap = argparse.ArgumentParser()
    ap.add_argument("patches", nargs="+")
    ap.add_argument("--seeds", default="0,1")
    ap.add_argument("--tier", default="quick")
    ap.add_argument("--base", default="HEAD", choices=["HEAD", "pinned"])
    ap.add_argument("--check", default=None, help="property id (default: from file name / meta.json)")
    ap.add_argument("--also", default="", help="comma separated further checks to run (cross detection)")
    ap.add_argument("--skip-suite", action="store_true")
    args = ap.parse_args()
    seeds = [int(s) for s in args.seeds.split(",") if s != ""]
    worst = 0
    for n, patch in enumerate(args.patches):
        patch = os.path.abspath(patch)
        cid = property_of(patch, args.check)
        copy = make_copy(args.base, n)
        rec = {"patch": os.path.relpath(patch, VERIF), "property": cid, "base": args.base, "tier": args.tier,
               "at": time.strftime("%Y-%m-%d %H:%M:%S")}
        try:
            rc, out = sh(["patch", "-p1", "--no-backup-if-mismatch", "-i", patch], cwd=copy)
            if rc:
                rec["result"] = "patch-does-not-apply"
                rec["detail"] = out[-400:]
            else:
                if args.skip_suite:
                    rec["suite"] = "skipped"
                else:
                    rc, out = sh("/venv/bin/python -B -m pytest -q -p no:cacheprovider --timeout=900 -x 2>&1 | tail -3",
                                 cwd=copy)
                    m = re.search(r"(\d+) passed", out)
                    failed = re.search(r"(\d+) (failed|error)", out)
                    rec["suite"] = out.strip().splitlines()[-1] if out.strip() else "?"
                    if failed or not m:
                        rec["result"] = "killed-by-suite"
                if "result" not in rec:
                    runs = []
                    for cc in [cid] + [c for c in args.also.split(",") if c]:
                        for seed in seeds:
                            env = dict(os.environ, VERIF_REPO=copy, VERIF_SEED=str(seed), VERIF_NO_EVIDENCE="1")
                            rc, out = sh([os.path.join(VERIF, "check"), cc, "--tier", args.tier], cwd=VERIF, env=env)
                            sigs = sorted(set(re.findall(r"violation \[([^\]]+)\]", out)))
                            runs.append({"check": cc, "seed": seed, "exit": rc, "signatures": sigs,
                                         "violation_line": "VIOLATION property=" in out})
                            if rc not in (0, 1):
                                runs[-1]["tail"] = out[-600:]
                    rec["runs"] = runs
                    own = [r for r in runs if r["check"] == cid]
                    if all(r["exit"] == 1 and r["violation_line"] for r in own):
                        rec["result"] = "caught"
                    elif any(r["exit"] not in (0, 1) for r in own):
                        rec["result"] = "harness-error"
                    elif any(r["exit"] == 1 for r in own):
                        rec["result"] = "caught-on-some-seeds"
                    else:
                        rec["result"] = "MISSED"
        finally:
            shutil.rmtree(copy, ignore_errors=True)
        sigs = sorted({s for r in rec.get("runs", []) for s in r["signatures"]})
        print(f"{rec['result']:22s} {cid} {rec['patch']}  suite=[{rec.get('suite', '-')}] signatures={sigs}")
        os.makedirs(os.path.join(VERIF, "mutants"), exist_ok=True)
        with open(os.path.join(VERIF, "mutants", "results.jsonl"), "a") as f:
            f.write(json.dumps(rec, sort_keys=True) + "\n")
        if rec["result"] != "caught":
            worst = 1
    return worst


if __name__ == "__main__":
    sys.exit(main())
