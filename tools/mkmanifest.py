"""Regenerates /verif/MANIFEST.json from the metadata of the check modules (run: /venv/bin/python -B tools/mkmanifest.py)."""
import importlib, json, os, sys
VERIF = os.path.dirname(os.path.dirname(os.path.abspath(__file__)))
sys.path.insert(0, VERIF)
from mc import core
core.bind_repo()

NOT_APPLICABLE = {}   # property id -> reason (kept current by hand)

props = [json.loads(l) for l in open(os.path.join(VERIF, "properties.jsonl"))]
mods = {}
# ids of checks that are finished (reviewed, silent on /repo, detect their mutants); one per line
READY = {l.strip() for l in open(os.path.join(VERIF, "tools", "ready.txt")) if l.strip() and not l.startswith("#")}
for f in sorted(os.listdir(os.path.join(VERIF, "checks"))):
    if f.startswith("c") and f.endswith(".py"):
        m = importlib.import_module("checks." + f[:-3])
        if m.ID in READY:
            mods[m.ID] = m
checks, na = [], []
for p in props:
    m = mods.get(p["id"])
    if m is None or p["id"] in NOT_APPLICABLE:
        na.append({"property_id": p["id"],
                   "reason": NOT_APPLICABLE.get(p["id"], "check not built yet (see DESIGN.md §6 order of work)")})
        continue
    checks.append({
        "property_id": m.ID,
        "quick_cmd": f"./check {m.ID} --tier quick",
        "thorough_cmd": f"./check {m.ID} --tier thorough",
        "evidence_file": f"/verif/evidence/{m.ID}.json",
        "replay_cmd_template": f"./check {m.ID} --replay {{path}}",
        "engine": getattr(m, "ENGINE", "mc"),
        "level_claimed": {"category": "model_checking", "text": m.LEVEL_TEXT, "design_ref": "DESIGN.md " + m.DESIGN_REF},
        "level_note": m.LEVEL_NOTE,
        "technique": m.TECHNIQUE,
    })
man = {
    "version": 1,
    "setup_cmd": "/venv/bin/python -B tools/selfcheck.py",
    "hooks": {"guard": "AK_PY_VERIF", "enable": "no source hook exists: every seam is reached by replacing module attributes from the harness (DESIGN.md §5); the guard name is reserved",
              "baseline_off_cmd": "cd /repo && /venv/bin/python -m pytest -ra -q -p no:cacheprovider --timeout=900 --continue-on-collection-errors",
              "source_commits": [], "add_only": True},
    "engines": [{"name": "mc", "path": "/verif/mc", "serves_properties": sorted(mods),
                 "kind_free_text": "hand-written bounded-exhaustive explorer for Python: sharded input-space enumeration (E1), explicit-state search over operation histories with replay from fresh state (E2), stateless schedule exploration under a baton scheduler driven by sys.monitoring INSTRUCTION events (E3), adversarial environment answers (E4)"}],
    "checks": checks,
    "not_applicable": na,
    "notes": "All checks run the real implementation imported from /repo's working tree (VERIF_REPO overrides); reference models in /verif/models and in the check modules are oracles only. known_findings.json lists genuine defects (fixed by 'fix:' commits in /repo or open).",
}
json.dump(man, open(os.path.join(VERIF, "MANIFEST.json"), "w"), indent=1)
print(f"MANIFEST.json: {len(checks)} checks, {len(na)} not_applicable")
