"""setup_cmd: nothing needs building (pure Python); verify the environment and the framework's own invariants.

 * /repo's ak package is importable by /venv/bin/python and is the one under test
 * MANIFEST.json validates against the schema (when python3-vt/jsonschema is available)
 * every check module exposes the interface the runner needs
 * reference models agree with expectations spelled out in the repository's own tests (each finished check's selftest())
"""
import importlib, json, os, subprocess, sys
VERIF = os.path.dirname(os.path.dirname(os.path.abspath(__file__)))
sys.path.insert(0, VERIF)
from mc import core
core.bind_repo()
bad = 0
READY = {l.strip() for l in open(os.path.join(VERIF, "tools", "ready.txt")) if l.strip() and not l.startswith("#")}
for f in sorted(os.listdir(os.path.join(VERIF, "checks"))):
    if f.startswith("c") and f.endswith(".py"):
        if f[:3].upper() not in READY:
            continue   # not finished yet: not listed in MANIFEST.json either
        m = importlib.import_module("checks." + f[:-3])
        for attr in ("ID", "RULE", "ASSUMPTIONS", "TECHNIQUE", "LEVEL_TEXT", "LEVEL_NOTE", "DESIGN_REF",
                     "bounds", "shards", "run_shard", "replay"):
            if not hasattr(m, attr):
                print(f"selfcheck: {f} lacks {attr}"); bad += 1
        for tier in ("quick", "thorough"):
            if not list(m.shards(tier)):
                print(f"selfcheck: {f} has no shards for {tier}"); bad += 1
        st = getattr(m, "selftest", None)
        if st:
            try:
                st()
            except Exception as e:  # noqa
                print(f"selfcheck: {f} oracle self-test failed: {e!r}"); bad += 1
vt = "/opt/veriftools/pyvenv/bin/python"
if os.path.exists(vt):
    code = ("import json,jsonschema;"
            "jsonschema.validate(json.load(open('%s/MANIFEST.json')),json.load(open('/root/.vp/MANIFEST.schema.json')))" % VERIF)
    if os.path.exists("/root/.vp/MANIFEST.schema.json"):
        r = subprocess.run([vt, "-c", code], capture_output=True, text=True)
        if r.returncode:
            print("selfcheck: MANIFEST.json does not validate:", r.stderr[-500:]); bad += 1
print("selfcheck:", "FAILED" if bad else "ok")
sys.exit(1 if bad else 0)
