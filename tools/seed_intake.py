"""Confirms a property-breaking change written by an independent sub-agent and stores it under /verif/seeded/.

    /venv/bin/python -B tools/seed_intake.py /tmp/seedout/C07/a [...]

Confirmation, all on scratch copies of /repo HEAD under /var/tmp (removed afterwards):
  * patch.diff applies
  * the repository's test-suite passes with the change (208 passed)
  * demo.py exits 0 without the change and non-zero with it
Only then the directory is copied to /verif/seeded/<Cnn>-<k>/ with a meta.json.
"""
import json, os, re, shutil, subprocess, sys, time
VERIF = os.path.dirname(os.path.dirname(os.path.abspath(__file__)))


def sh(cmd, cwd=None, timeout=1800):
    r = subprocess.run(cmd, cwd=cwd, shell=True, capture_output=True, text=True, timeout=timeout)
    return r.returncode, (r.stdout + r.stderr)


def main():
    rc_all = 0
    for src in sys.argv[1:]:
        src = os.path.abspath(src.rstrip("/"))
        k = os.path.basename(src)
        cid = os.path.basename(os.path.dirname(src)).upper()
        name = f"{cid}-{k}"
        patch, demo = os.path.join(src, "patch.diff"), os.path.join(src, "demo.py")
        if not (os.path.exists(patch) and os.path.exists(demo)):
            print(f"{name}: incomplete (patch.diff / demo.py missing)"); rc_all = 1; continue
        clean = f"/var/tmp/akpy-seed-{os.getpid()}-clean"
        mut = f"/var/tmp/akpy-seed-{os.getpid()}-mut"
        res = {}
        try:
            for d in (clean, mut):
                shutil.rmtree(d, ignore_errors=True); os.makedirs(d)
                sh(f"git -C /repo archive HEAD | tar -x -C {d}")
            rc, out = sh(f"patch -p1 --no-backup-if-mismatch -i {patch}", cwd=mut)
            res["applies"] = rc == 0
            if rc:
                res["detail"] = out[-300:]
            else:
                rc, out = sh("/venv/bin/python -B -m pytest -q -p no:cacheprovider --timeout=900 tests 2>&1 | tail -1", cwd=mut)
                res["suite_with_change"] = out.strip()
                res["suite_passes"] = bool(re.search(r"\b208 passed", out)) and "failed" not in out
                rc0, out0 = sh(f"/venv/bin/python -B {demo}", cwd=clean, timeout=600)
                rc1, out1 = sh(f"/venv/bin/python -B {demo}", cwd=mut, timeout=600)
                res["demo_exit_clean"], res["demo_exit_changed"] = rc0, rc1
                res["demo_tail_changed"] = out1.strip()[-300:]
                if rc0:
                    res["demo_tail_clean"] = out0.strip()[-300:]
        finally:
            shutil.rmtree(clean, ignore_errors=True); shutil.rmtree(mut, ignore_errors=True)
        ok = res.get("applies") and res.get("suite_passes") and res.get("demo_exit_clean") == 0 \
            and res.get("demo_exit_changed") not in (0, None)
        print(f"{name}: {'CONFIRMED' if ok else 'REJECTED'} {json.dumps(res)[:500]}")
        if not ok:
            rc_all = 1
            continue
        dst = os.path.join(VERIF, "seeded", name)
        shutil.rmtree(dst, ignore_errors=True)
        os.makedirs(dst)
        for f in ("patch.diff", "demo.py", "notes.md"):
            if os.path.exists(os.path.join(src, f)):
                shutil.copy(os.path.join(src, f), dst)
        notes = open(os.path.join(src, "notes.md")).read() if os.path.exists(os.path.join(src, "notes.md")) else ""
        meta = {"property": cid, "id": name, "origin": "independent sub-agent given only the property text and a scratch worktree",
                "needs_to_manifest": notes[:1500],
                "confirmed": {"at": time.strftime("%Y-%m-%d %H:%M"), "base": sh("git -C /repo rev-parse --short HEAD")[1].strip(),
                              "ran": ["patch -p1 on a scratch copy of /repo HEAD", "pytest tests (must give 208 passed)",
                                      "demo.py on clean copy (exit 0) and on changed copy (exit != 0)"], **res}}
        json.dump(meta, open(os.path.join(dst, "meta.json"), "w"), indent=1)
    return rc_all


if __name__ == "__main__":
    sys.exit(main())
