"""Runs every finished check (tools/ready.txt) and validates the evidence files.

    /venv/bin/python -B tools/run_all.py [--tier quick] [--seeds 0,1,2,3] [Cnn ...]
Prints one line per (check, seed); exit 1 if any check is not silent or any evidence file is invalid.
"""
import argparse, json, os, subprocess, sys, time
VERIF = os.path.dirname(os.path.dirname(os.path.abspath(__file__)))
ap = argparse.ArgumentParser()
ap.add_argument("ids", nargs="*")
ap.add_argument("--tier", default="quick")
ap.add_argument("--seeds", default="0")
a = ap.parse_args()
ready = [l.strip() for l in open(os.path.join(VERIF, "tools", "ready.txt")) if l.strip() and not l.startswith("#")]
ids = [i.upper() for i in a.ids] or sorted(ready)
bad = 0
for cid in ids:
    for seed in a.seeds.split(","):
        ev = os.path.join(VERIF, "evidence", cid + ".json")
        if os.path.exists(ev):
            os.remove(ev)
        t0 = time.time()
        r = subprocess.run([os.path.join(VERIF, "check"), cid, "--tier", a.tier], cwd=VERIF, capture_output=True, text=True,
                           env=dict(os.environ, VERIF_SEED=seed))
        wall = time.time() - t0
        evok = "no-evidence"
        if os.path.exists(ev):
            v = subprocess.run(["/opt/veriftools/pyvenv/bin/python", "-c",
                                "import json,jsonschema,sys;jsonschema.validate(json.load(open(sys.argv[1])),json.load(open('/root/.vp/EVIDENCE.schema.json')))", ev],
                               capture_output=True, text=True)
            evok = "evidence-ok" if v.returncode == 0 else "EVIDENCE-INVALID " + v.stderr[-200:]
        last = r.stdout.strip().splitlines()[-1] if r.stdout.strip() else r.stderr[-200:]
        flag = "ok " if (r.returncode == 0 and evok == "evidence-ok" and "VIOLATION" not in r.stdout) else "BAD"
        bad += flag == "BAD"
        print(f"{flag} {cid} seed={seed} exit={r.returncode} {wall:6.1f}s {evok} | {last[:200]}", flush=True)
sys.exit(1 if bad else 0)
