"""C08 — colored text behaves exactly like the underlying string (DESIGN.md §2 C08).

Explicit-state search over a machine with two registers r0, r1 holding real ``CHText`` objects.

  initial state   r0 = CHText(), r1 = CHText()
  transitions     (public API only; t = target register, s = source register, x = operand from the pool,
                   a register, or a list)
                    new   r_t = CHText(x...)            0-1 parts anywhere; 2-3 parts from the initial state
                    add   r_t = r_s + x                 x: str, chunk, text
                    iadd  r_t += x                      x: str, chunk, text (also r_t itself), list, and
                                                        [r_t], (r_t, x), [r_t, x]; appending a text to itself is
                                                        executed up to length 2L+2 (terminal, not expanded)
                    radd  r_t = x + r_s                 x: str, chunk   (reflected +)
                    join  r_t = sep.join([...])         sep: text or chunk
                    slice r_t = r_s[a:b]                one representative (a, b) per distinct result
                    fixed r_t = r_s.fixed_len(n)        results not already produced by a slice
                    + every index/slice/fixed_len call that returned an object aliasing its receiver
                    + directed family: r1 = <empty slice / fixed_len(0) of r0>; r1 += x; fresh empty slices of
                      r0, r1 and of a new text (on a correct tree the search merges these states with "new
                      empty text", so they are executed separately)
  isolation       class-level data attributes of CHText / chunk / ColorFmt (on-demand caches, shared instances)
                  are restored to their import-time values before every history, so each history is
                  self-contained and replays; a register that holds an object also held by a class attribute
                  is a distinct state
  state           the *complete* concrete state of the two objects: (scrlen, ((prefix, text, suffix)...)) of
                  each register (CHText has exactly these two slots, chunks are frozen) plus "r0 is r1";
                  the operation alphabet is symmetric in the registers, so (x, y) and (y, x) are merged
  bound           visible length <= L (operations whose str result would be longer are disabled), depth <= D
  reference       models/chtext_model.py: a register is an immutable tuple of (char, color); str semantics
  after every transition   both registers are compared with the reference (an operation that silently
                  aliases or changes the other register shows up there)
  in every new state       observers on each register (once per distinct register state): len, plain_text,
                  str() replayed on the SGR emulator (per character colors, default state at the end), == / !=
                  against the text rebuilt character by character in two different ways, against str, against
                  a chunk, against every single-character-recolored / shortened variant; all indexes
                  -(L+1)..L; all slices a,b in {None,-L..L}; fixed_len 0..L; format with all 80 specs
                  [[fill]align][width][s]; and r0 == r1 <=> references equal.
"""

import itertools
import operator
import signal
from collections import deque

from ak import color as impl
from models import chtext_model as M
from models import sgr

ID = "C08"
TITLE = "Colored text behaves exactly like the underlying string"
TECHNIQUE = "explicit-state breadth-first search over operation histories of a 2-register CHText machine"
DESIGN_REF = "§2 C08"
LEVEL_TEXT = ("All histories of public CHText operations up to the depth bound on two registers (length cap L) "
              "are executed on the real objects; states are deduplicated by their complete concrete state; "
              "after every transition and in every state the objects are compared with a tuple-of-(char, "
              "color) reference with str semantics, including every index, slice, fixed_len and 80 format "
              "specs.")
LEVEL_NOTE = ("Bounded: depth D, visible length <= L, 3-4 colors, operand pool of 3 strings and 6-8 chunks "
              "(see bounds). States of depth <= 2 are globally distinct; a deeper state may be visited by "
              "several shards (it is then counted once per shard). Trusted: models/chtext_model.py, "
              "models/sgr.py.")
RULE = ("case = one machine state (complete concrete state of both registers + alias bit, modulo register "
        "swap) first reached by a history; states of depth <= 2 are globally distinct (owner = first "
        "level-1 state reaching them), deeper states are distinct within a shard by its visited set; "
        "non-trivial: some register holds >= 2 chunks or the registers are aliased")
ASSUMPTIONS = [
    "operands are str, chunks produced by ColorFmt, CHText objects and lists/tuples of those (documented "
    "operands); a list may name the target of `+=` only as its first element",
    "format specs follow [[fill]align][width][s]; a leading 0 (zero padding flag) is outside fill/align/width",
    "slices have no step; texts contain no escape characters",
    "colors are those requested from ColorFmt; two different requests rendering alike are not compared",
]
REQUIRED_FEATURES = ["op:new", "op:add", "op:iadd", "op:radd", "op:join", "op:slice", "op:fixed",
                     "op:iadd-self", "op:iadd-list", "obs:index", "obs:slice", "obs:slice-negative",
                     "obs:slice-out-of-range", "obs:fixed_len", "obs:format", "obs:eq-str", "obs:eq-chunk",
                     "obs:eq-rebuilt", "obs:ne-variant", "state:multi-chunk", "state:merged-neighbours",
                     "state:empty-chunk-dropped", "index:IndexError",
                     "iadd-after-observation:merges-into-last-chunk", "iadd-after-observation:starts-new-chunk",
                     "iadd-after-observation:operand-str", "iadd-after-observation:operand-chunk",
                     "iadd-after-observation:operand-text", "iadd-after-observation:operand-list",
                     "iadd-on-result-of-empty-slice", "empty-slice-after-iadd-on-result-of-empty-slice",
                     "self-append:direct", "self-append:in-list", "self-append:in-tuple",
                     "self-append:three-chunks-same-end-colours",
                     "self-append:three-chunks-same-end-colours:direct",
                     "self-append:three-chunks-same-end-colours:in-list",
                     "self-append:three-chunks-same-end-colours:in-tuple"]

CHText = impl.CHText
Chunk = impl.CHText.Chunk

# ------------------------------------------------------------------------------------------------ colors
FMT = {0: impl.ColorFmt(None), 1: impl.ColorFmt("RED"), 2: impl.ColorFmt("BLUE"), 3: impl.ColorFmt(None, bold=True)}
PREFIX = {c: f("").c_prefix for c, f in FMT.items()}
SUFFIX = {c: f("").c_suffix for c, f in FMT.items()}
COLOR_OF_PREFIX = {p: c for c, p in PREFIX.items()}
assert len(COLOR_OF_PREFIX) == 4 and PREFIX[0] == ""
SGR_STATE = {c: (sgr.run(str(f("x")))[0][0][1]) for c, f in FMT.items()}
assert len(set(SGR_STATE.values())) == 4 and SGR_STATE[0] == sgr.DEFAULT


class Diverged(Exception):
    pass


class Runaway(Exception):
    pass


class GuardList(list):
    """Watchdog for `t += t`: a plain list that refuses to grow without bound."""
    LIMIT = 96

    def append(self, x):
        if len(self) >= self.LIMIT:
            raise Runaway()
        list.append(self, x)


def _alarm(signum, frame):
    raise Diverged()


# ------------------------------------------------------------------------------------------------ tiers
CONFIGS = {
    "q":    {"L": 5, "D": 3, "colors": 3, "ctor_parts": 3, "nshards": 96, "nprefix": 16},
    "deep": {"L": 5, "D": 4, "colors": 3, "ctor_parts": 3, "nshards": 320, "nprefix": 16},
    "wide": {"L": 7, "D": 3, "colors": 4, "ctor_parts": 3, "nshards": 160, "nprefix": 32},
}
REPLAY_CONFIG = "wide"          # widest observer ranges / all colors; replays execute the recorded history only


def configs(tier):
    return ["deep", "wide"] if tier == "thorough" else ["q"]


def params(cfg):
    return CONFIGS[cfg]


def pool(p):
    strs = [["s", ""], ["s", "a"], ["s", "bc"]]
    chunks = [["c", 1, ""], ["c", 1, "d"], ["c", 1, "ef"], ["c", 2, "g"], ["c", 0, ""], ["c", 0, "h"]]
    if p["colors"] >= 4:
        chunks += [["c", 3, "i"], ["c", 2, ""]]
    return strs, chunks


def bounds(tier):
    out = {}
    for cfg in configs(tier):
        p = params(cfg)
        strs, chunks = pool(p)
        out[cfg] = {"max_visible_len": p["L"], "depth": p["D"], "colors": p["colors"],
                    "pool_strings": [x[1] for x in strs], "pool_chunks": [[x[1], x[2]] for x in chunks],
                    "constructor_parts_from_initial_state": p["ctor_parts"],
                    "index_range": f"-{p['L'] + 1}..{p['L']}", "slice_bounds": f"None, -{p['L']}..{p['L']}",
                    "fixed_len": f"0..{p['L']}", "format_specs": len(M.SPECS)}
    return out


def shards(tier):
    out = [("chunks", configs(tier)[-1]), ("empty", configs(tier)[-1])]
    for cfg in configs(tier):
        p = params(cfg)
        out += [("prefix", cfg, k, p["nprefix"]) for k in range(p["nprefix"])]
        out += [("bfs", cfg, k, p["nshards"]) for k in range(p["nshards"])]
    return out


# ------------------------------------------------------------------------------------------------ real side
def real_operand(x, regs):
    k = x[0]
    if k == "s":
        return x[1]
    if k == "c":
        return FMT[x[1]](x[2])
    if k == "r":
        return regs[x[1]]
    if k == "l":
        return [real_operand(y, regs) for y in x[1]]
    if k == "t":
        return tuple(real_operand(y, regs) for y in x[1])
    raise ValueError(x)


def _mentions(x, t):
    return x == ["r", t] or (x[0] in ("l", "t") and any(_mentions(y, t) for y in x[1]))


def _other_slots():
    """Slots of CHText besides scrlen/chunks (none on the pinned tree; a tree that adds e.g. a render cache
    gets it into the state key, so 'same chunks, different cache' are different states)."""
    names = []
    for k in CHText.__mro__:
        sl = k.__dict__.get("__slots__", ())
        for n in ((sl,) if isinstance(sl, str) else sl):
            if n not in ("scrlen", "chunks", "__dict__", "__weakref__") and n not in names:
                names.append(n)
    return tuple(names)


OTHER_SLOTS = _other_slots()
HAS_DICT = hasattr(CHText(), "__dict__")


def _data_attrs(cls):
    """Class-level data attributes (on-demand caches, shared instances): name -> value at import time."""
    import types
    out = {}
    for n, v in vars(cls).items():
        if n.startswith("__") or isinstance(v, (type, types.FunctionType, classmethod, staticmethod, property,
                                                 types.MemberDescriptorType, types.GetSetDescriptorType)):
            continue
        out[n] = v
    return out


# snapshot of the pristine class state; restored before every history so that each history is self-contained
CLASS_STATE = {cls: _data_attrs(cls) for cls in (CHText, Chunk, impl.ColorFmt)}
CHTEXT_DATA_ATTRS = tuple(CLASS_STATE[CHText])


def reset_class_state():
    for cls, snap in CLASS_STATE.items():
        d = vars(cls)
        for n, v in snap.items():
            if d.get(n) is not v:
                setattr(cls, n, v)


def capture_class_state():
    return {cls: {n: vars(cls).get(n) for n in snap} for cls, snap in CLASS_STATE.items()}


def restore_class_state(state):
    for cls, snap in state.items():
        d = vars(cls)
        for n, v in snap.items():
            if d.get(n) is not v:
                setattr(cls, n, v)


def class_shared(o):
    """Names of CHText class attributes that hold this very object (a register may hold a class-wide shared
    instance; that is part of the state although no slot of the object shows it)."""
    d = vars(CHText)
    return tuple(n for n in CHTEXT_DATA_ATTRS if d.get(n) is o)


def _plain(x):
    return x if isinstance(x, (str, int, float, type(None), bool)) else repr(x)


def bkey(o):
    """The chunk structure of one register object."""
    if type(o) is not CHText:
        return ("not-a-CHText", type(o).__name__, str(o))
    return (o.scrlen, tuple((c.c_prefix, c.text, c.c_suffix) for c in o.chunks))


def okey(o):
    """Complete concrete state of one register object: every slot (and __dict__ if there is one)."""
    k = bkey(o)
    if CHTEXT_DATA_ATTRS:
        sh = class_shared(o)
        if sh:
            return k + ((("held-by-class-attribute", sh),),)
    if (OTHER_SLOTS or HAS_DICT) and type(o) is CHText:
        ex = tuple((n, _plain(getattr(o, n, "<unset>"))) for n in OTHER_SLOTS)
        if HAS_DICT:
            ex += (("__dict__", repr(sorted(o.__dict__.items()))),)
        return k + (ex,)
    return k


def ekey(v):
    return (len(v), tuple((PREFIX[c], t, SUFFIX[c]) for c, t in M.canon(v)))


def read(o):
    """Real object -> reference-like tuple of (char, color id); unknown colors get id -1."""
    out = []
    for c in o.chunks:
        col = COLOR_OF_PREFIX.get(c.c_prefix, -1)
        out.extend((ch, col) for ch in c.text)
    return tuple(out)


def show(v):
    return [[col, t] for col, t in M.canon(v)]


def as_text(res):
    """Results are CHText objects; a chunk is accepted in its place (it behaves the same)."""
    if type(res) is CHText:
        return res
    if isinstance(res, Chunk):
        return CHText(res)
    return res


def apply_real(op, regs):
    """-> new register list (the old list is not modified). May raise whatever the operation raises."""
    kind = op[0]
    t = op[1]
    if kind == "new":
        res = CHText(*[real_operand(x, regs) for x in op[2]])
    elif kind == "add":
        res = regs[op[2]] + real_operand(op[3], regs)
    elif kind == "iadd":
        obj = regs[t]
        other = real_operand(op[2], regs)
        guarded = _mentions(op[2], t) or (regs[0] is regs[1])
        if guarded:
            obj.chunks = GuardList(obj.chunks)
        try:
            res = operator.iadd(obj, other)
        finally:
            if guarded and isinstance(obj.chunks, GuardList):
                obj.chunks = list(obj.chunks)
    elif kind == "radd":
        res = real_operand(op[2], regs) + regs[op[3]]
    elif kind == "join":
        res = real_operand(op[2], regs).join([real_operand(i, regs) for i in op[3]])
    elif kind == "slice":
        res = regs[op[2]][op[3]:op[4]]
    elif kind == "index":
        res = regs[op[2]][op[3]]
    elif kind == "fixed":
        res = regs[op[2]].fixed_len(op[3])
    else:
        raise ValueError(op)
    out = list(regs)
    out[t] = as_text(res)
    return out


def apply_ref(op, refs):
    """-> new reference pair; raises IndexError where str would."""
    kind = op[0]
    t = op[1]
    if kind == "new":
        res = M.operand_value(["l", op[2]], refs)
    elif kind == "add":
        res = refs[op[2]] + M.operand_value(op[3], refs)
    elif kind == "iadd":
        res = refs[t] + M.operand_value(op[2], refs)
    elif kind == "radd":
        res = M.operand_value(op[2], refs) + refs[op[3]]
    elif kind == "join":
        res = M.m_join(M.operand_value(op[2], refs), [M.operand_value(i, refs) for i in op[3]])
    elif kind == "slice":
        res = M.m_slice(refs[op[2]], op[3], op[4])
    elif kind == "index":
        res = M.m_index(refs[op[2]], op[3])
    elif kind == "fixed":
        res = M.m_fixed(refs[op[2]], op[3])
    else:
        raise ValueError(op)
    out = list(refs)
    out[t] = res
    return out


def state_key(regs):
    k0, k1 = okey(regs[0]), okey(regs[1])
    al = regs[0] is regs[1] or (type(regs[0]) is CHText and type(regs[1]) is CHText
                                and regs[0].chunks is regs[1].chunks)
    try:
        swap = k1 < k0
    except TypeError:
        swap = repr(k1) < repr(k0)
    return (k1, k0, al) if swap else (k0, k1, al)


# ------------------------------------------------------------------------------------------------ operations
def slice_bounds(L):
    return [None] + list(range(0, L + 1)) + list(range(-1, -L - 1, -1))


def gen_ops(refs, p, first, alias_ops):
    """All enabled operations of a state, in a fixed order. alias_ops: per register, unary calls observed
    to return an object aliasing their receiver (they are kept as separate transitions)."""
    L = p["L"]
    strs, chunks = pool(p)
    P = strs + chunks
    X = P + [["r", 0], ["r", 1]]
    lists0 = [["l", [["s", "a"], ["c", 1, "d"]]]]
    for t in (0, 1):
        yield ["new", t, []]
        for x in X:
            yield ["new", t, [x]]
    if first:
        for n in range(2, p["ctor_parts"] + 1):
            for parts in itertools.product(P, repeat=n):
                yield ["new", 0, list(parts)]
    for t in (0, 1):
        for s in (0, 1):
            for x in X:
                yield ["add", t, s, x]
        # a list/tuple operand may name the target itself as its FIRST element (`t += [t]`, `t += (t, x)`:
        # the old value of t, then x); naming it after other elements has no str counterpart (outside the domain)
        selfs = [["l", [["r", t]]], ["t", [["r", t], ["s", "a"]]], ["l", [["r", t], ["c", 1, "d"]]]]
        for x in X + lists0 + [["l", [["r", 1 - t], ["c", 2, "g"]]]] + selfs:
            yield ["iadd", t, x]
        for s in (0, 1):
            for x in P:
                yield ["radd", t, x, s]
        seps = [["r", 0], ["r", 1], ["c", 1, "d"], ["c", 0, ""], ["c", 2, "g"]]
        o = 1 - t
        itemsets = [[], [["r", o]], [["r", 0], ["r", 1]], [["r", 1], ["s", "a"], ["r", 0]],
                    [["c", 1, "d"], ["s", ""], ["c", 1, "ef"]], [["s", "a"], ["c", 0, "h"], ["r", t]]]
        for sep in seps:
            for items in itemsets:
                yield ["join", t, sep, items]
        for s in (0, 1):
            v = refs[s]
            seen = set()
            for a in slice_bounds(L):
                for b in slice_bounds(L):
                    r = v[a:b]
                    if r not in seen:
                        seen.add(r)
                        yield ["slice", t, s, a, b]
            for n in range(0, L + 1):
                r = M.m_fixed(v, n)
                if r not in seen:
                    seen.add(r)
                    yield ["fixed", t, s, n]
            for call in alias_ops[s]:
                yield [call[0], t, s] + list(call[1:])


# ------------------------------------------------------------------------------------------------ observers
def rebuilt_a(v):
    return CHText(*[FMT[c](ch) for ch, c in v])


def rebuilt_b(v):
    t = CHText()
    for ch, c in reversed(v):
        t = FMT[c](ch) + t
    return t


def _cells(v):
    return [(ch, SGR_STATE[c]) for ch, c in v]


def _same_value(y, exp):
    """None if the real object y shows exactly `exp`, else a short description."""
    if type(y) is not CHText:
        return f"result is a {type(y).__name__}"
    got = read(y)
    if M.chars(got) != M.chars(exp):
        return "wrong-text"
    if got != exp:
        return "wrong-colors"
    if len(y) != len(exp):
        return "wrong-len"
    if bkey(y) != ekey(exp):
        if not (y == rebuilt_a(exp)):
            return "not-equal-to-same-text"
    return None


# -- light observers: taken after EVERY transition, never cached -------------------------------------------
_COLOR_OF_STATE = {st: c for c, st in SGR_STATE.items()}
_CELLS_MEMO = {}
_FMT_MEMO = {}
LIGHT_SPECS = ("_^9", ">3")


def cells_of(s):
    """String -> tuple of (char, color id) a terminal shows, or a str describing what is wrong with it.
    (A pure function of the string, memoised; the calls on the objects are never memoised.)"""
    r = _CELLS_MEMO.get(s)
    if r is None:
        cells, final, problems = sgr.run(s)
        if problems:
            r = "malformed: " + problems[0]
        elif final != sgr.DEFAULT:
            r = "terminal not in default state at the end"
        else:
            r = tuple((ch, _COLOR_OF_STATE.get(st, -1)) for ch, st in cells)
        if len(_CELLS_MEMO) < 200000:
            _CELLS_MEMO[s] = r
    return r


def fmt_cells(v, spec):
    r = _FMT_MEMO.get((v, spec))
    if r is None:
        r = M.m_format(v, spec)
        if len(_FMT_MEMO) < 200000:
            _FMT_MEMO[(v, spec)] = r
    return r


def light(obj, v):
    """len / plain_text / str (twice) / strip_colors / format of one register against the reference.
    -> None or (what, observed, expected)."""
    if type(obj) is not CHText:
        return None
    if len(obj) != len(v):
        return ("len", len(obj), len(v))
    txt = "".join([c for c, _ in v])
    pt = obj.plain_text()
    if pt != txt:
        return ("plain_text", pt, txt)
    s = str(obj)
    if cells_of(s) != v:
        return ("str", s, show(v))
    if impl.CHText.strip_colors(s) != txt:
        return ("strip_colors-of-str", impl.CHText.strip_colors(s), txt)
    for spec in LIGHT_SPECS:
        f = format(obj, spec)
        if cells_of(f) != fmt_cells(v, spec):
            return ("format", [spec, f], show(fmt_cells(v, spec)))
    if str(obj) != s:
        return ("second-str", str(obj), s)
    return None


def observe(obj, v, p, acc, feats):
    """Single-register observers. Yields (signature, message, observed, expected, probe).
    Appends to `aliases` (returned through feats['aliases'])."""
    L = p["L"]
    aliases = feats.setdefault("aliases", [])
    txt = M.chars(v)
    n = 0
    # -- 1. len / plain_text / str ------------------------------------------------------------------
    if len(obj) != len(v):
        yield ("len", "len() is not the number of visible characters", len(obj), len(v), ["len"])
    if obj.plain_text() != txt:
        yield ("plain_text", "plain_text() differs from the str result", obj.plain_text(), txt, ["plain_text"])
    s = str(obj)
    cells, final, problems = sgr.run(s)
    if problems or final != sgr.DEFAULT or cells != _cells(v):
        yield ("str-colors", "str() does not show every character in the color it was created with",
               s, show(v), ["str"])
    if read(obj) != v:
        yield ("chunks", "chunks of the object do not carry the expected characters/colors",
               show(read(obj)), show(v), ["chunks"])
    n += 4
    # -- 2. equality with the same text assembled differently -----------------------------------------
    ra, rb = rebuilt_a(v), rebuilt_b(v)
    feats["obs:eq-rebuilt"] = 1
    if not (obj == ra) or not (ra == obj) or (obj != ra) or not (obj == rb) or not (rb == obj):
        yield ("eq:same-text-assembled-differently-not-equal",
               "two texts showing the same characters in the same colors compare unequal",
               [okey(obj), okey(ra), okey(rb)], "equal", ["eq-rebuilt"])
    n += 5
    # -- 3. str ----------------------------------------------------------------------------------------
    feats["obs:eq-str"] = 1
    if M.all_plain(v):
        if not (obj == txt) or not (txt == obj) or (obj != txt):
            yield ("eq:default-colored-text-not-equal-to-str", "a text of default-colored characters "
                   "does not equal the plain string", okey(obj), txt, ["eq-str"])
    else:
        if (obj == txt) or (txt == obj):
            yield ("eq:colored-text-equals-str", "a colored text compares equal to the plain string",
                   okey(obj), txt, ["eq-str"])
    if (obj == txt + "x") or (txt and obj == txt[:-1]):
        yield ("eq:equals-different-str", "text compares equal to a different string", okey(obj), txt,
               ["eq-str"])
    n += 4
    # -- 4. unequal variants ----------------------------------------------------------------------------
    feats["obs:ne-variant"] = 1
    ncol = p["colors"]
    variants = []
    for k in range(len(v)):
        ch, c = v[k]
        variants.append(v[:k] + ((ch, (c + 1) % ncol),) + v[k + 1:])
        variants.append(v[:k] + (("z", c),) + v[k + 1:])
    if v:
        variants.append(v[:-1])
        variants.append(v[1:])
    variants.append(v + (("a", 0),))
    variants.append(v + ((" ", 1),))
    for w in variants:
        rw = rebuilt_a(w)
        n += 2
        if (obj == rw) or (rw == obj) or not (obj != rw):
            yield ("eq:different-texts-compare-equal", "texts that differ in a character or a color compare "
                   "equal", [okey(obj), okey(rw)], "unequal", ["ne-variant", show(w)])
            break
    # -- 5. chunk ---------------------------------------------------------------------------------------
    feats["obs:eq-chunk"] = 1
    runs = M.canon(v)
    if len(runs) <= 1:
        col = runs[0][0] if runs else 1
        ck = FMT[col](txt)
        if not (obj == ck) or not (ck == obj):
            yield ("eq:not-equal-to-same-chunk", "a one-colored text does not equal the chunk showing the "
                   "same", okey(obj), [col, txt], ["eq-chunk"])
        other = FMT[(col + 1) % ncol](txt)
        if txt and ((obj == other) or (other == obj)):
            yield ("eq:equal-to-other-colored-chunk", "text equals a chunk of another color", okey(obj),
                   [(col + 1) % ncol, txt], ["eq-chunk"])
    else:
        ck = FMT[runs[0][0]](txt)
        if (obj == ck) or (ck == obj):
            yield ("eq:multi-colored-equals-chunk", "a multi-colored text equals a one-colored chunk",
                   okey(obj), [runs[0][0], txt], ["eq-chunk"])
    n += 4
    # -- 6. indexes -------------------------------------------------------------------------------------
    feats["obs:index"] = 1
    for i in range(-(L + 1), L + 1):
        n += 1
        try:
            exp = M.m_index(v, i)
        except IndexError:
            exp = None
            feats["index:IndexError"] = 1
        try:
            y = obj[i]
        except IndexError:
            if exp is not None:
                yield ("index:raises-IndexError", "indexing raised IndexError where str does not", i,
                       show(exp), ["index", i])
            continue
        except Exception as e:  # noqa
            yield (f"index:raises-{type(e).__name__}", "indexing raised", repr(e), i, ["index", i])
            continue
        if exp is None:
            yield ("index:no-IndexError", "index out of range did not raise IndexError", okey(y), i,
                   ["index", i])
            continue
        y = as_text(y)
        bad = _same_value(y, exp)
        if bad:
            yield ("index:" + bad, "text[i] is not the character str gives, in its color", okey(y),
                   show(exp), ["index", i])
        if y is obj or (type(y) is CHText and y.chunks is obj.chunks):
            aliases.append(("index", i))
    # -- 7. slices --------------------------------------------------------------------------------------
    feats["obs:slice"] = 1
    sb = slice_bounds(L)
    ln = len(v)
    for a in sb:
        for b in sb:
            n += 1
            exp = v[a:b]
            if (a is not None and a < 0) or (b is not None and b < 0):
                feats["obs:slice-negative"] = 1
            if (a is not None and abs(a) > ln) or (b is not None and abs(b) > ln):
                feats["obs:slice-out-of-range"] = 1
            try:
                y = obj[a:b]
            except Exception as e:  # noqa
                yield (f"slice:raises-{type(e).__name__}", "slicing raised", repr(e), [a, b], ["slice", a, b])
                continue
            y = as_text(y)
            bad = _same_value(y, exp)
            if bad:
                yield ("slice:" + bad, "text[a:b] is not what str slicing gives (characters with their "
                       "colors)", okey(y), show(exp), ["slice", a, b])
            if y is obj or (type(y) is CHText and y.chunks is obj.chunks):
                aliases.append(("slice", a, b))
    # -- 8. fixed_len -----------------------------------------------------------------------------------
    feats["obs:fixed_len"] = 1
    for k in range(0, L + 1):
        n += 1
        exp = M.m_fixed(v, k)
        try:
            y = obj.fixed_len(k)
        except Exception as e:  # noqa
            yield (f"fixed:raises-{type(e).__name__}", "fixed_len raised", repr(e), k, ["fixed", k])
            continue
        y = as_text(y)
        bad = _same_value(y, exp)
        if bad:
            yield ("fixed:" + bad, "fixed_len(n) is not the text truncated / padded with default-colored "
                   "spaces", okey(y), show(exp), ["fixed", k])
        if y is obj or (type(y) is CHText and y.chunks is obj.chunks):
            aliases.append(("fixed", k))
    # -- 9. format --------------------------------------------------------------------------------------
    feats["obs:format"] = 1
    for spec in M.SPECS:
        n += 1
        try:
            fs = format(obj, spec)
        except Exception as e:  # noqa
            yield (f"format:raises-{type(e).__name__}", "format raised for a valid fill/align/width spec",
                   repr(e), spec, ["format", spec])
            continue
        cells, final, problems = sgr.run(fs)
        want_plain = format(txt, spec)
        if "".join(c for c, _ in cells) != want_plain or impl.CHText.strip_colors(fs) != want_plain:
            yield ("format:wrong-visible-text", "the visible text of format(text, spec) differs from "
                   "format(str, spec)", fs, want_plain, ["format", spec])
        elif problems or final != sgr.DEFAULT or cells != _cells(M.m_format(v, spec)):
            yield ("format:wrong-colors", "format(text, spec) does not keep the characters' colors / colors "
                   "the padding", fs, show(M.m_format(v, spec)), ["format", spec])
    acc.trans(n)


# ------------------------------------------------------------------------------------------------ machine
def _origin_after(kind, t, regs, regs2, origin):
    """Which operation made the two registers one object (None when they are distinct objects)."""
    if regs2[0] is not regs2[1]:
        return None
    if regs[0] is regs[1] and regs2[t] is regs[t]:
        return origin               # still the same shared object (e.g. after `+=`)
    return kind


class Machine:
    """Executes histories on fresh objects; knows nothing about the search."""

    def __init__(self, p):
        self.p = p
        self.obs_cache = {}       # register key -> tuple of aliasing calls (only violation-free observations)
        self.observed = {}        # id -> object: texts of the current execution that have been observed
        self.feats = {}           # measured features of executed transitions (flushed by the search)
        self.nlight = 0           # calls made by the always-on observers (flushed by the search)

    def fresh(self):
        reset_class_state()               # class-level caches / shared instances start as at import
        self.observed = {}
        self.empty_results = {}           # id -> object: results of empty slices / fixed_len(0) of this execution
        self.grown_empty_result = False   # such a result has been extended in place
        regs = [CHText(), CHText()]
        self.settle(regs, [(), ()], (0, 1))
        return regs, [(), ()]

    def settle(self, regs, refs, which):
        """The observation part of every transition: len, plain_text, str, strip_colors, format on the
        given registers. -> first disagreement with the reference or None."""
        bad = None
        for i in which:
            o = regs[i]
            self.nlight += 7
            r = light(o, refs[i])
            self.observed[id(o)] = o
            if r is not None and bad is None:
                bad = (i,) + r
        return bad

    def _note_iadd(self, op, regs, refs):
        """Measured: an in-place `+=` on a text that has been observed before."""
        t = op[1]
        f = self.feats
        if id(regs[t]) in self.empty_results:
            self.grown_empty_result = True
            f["iadd-on-result-of-empty-slice"] = f.get("iadd-on-result-of-empty-slice", 0) + 1
        if id(regs[t]) not in self.observed:
            return
        x = op[2]
        kind = {"s": "str", "c": "chunk", "r": "text", "l": "list", "t": "list"}[x[0]]
        f["iadd-after-observation:operand-" + kind] = f.get("iadd-after-observation:operand-" + kind, 0) + 1
        tv, ov = refs[t], M.operand_value(x, refs)
        if _mentions(x, t):
            runs = M.canon(tv)
            how = {"r": "direct", "l": "in-list", "t": "in-tuple"}[x[0]]
            f["self-append:" + how] = f.get("self-append:" + how, 0) + 1
            if len(runs) >= 3 and runs[0][0] == runs[-1][0]:
                k = "self-append:three-chunks-same-end-colours"
                f[k] = f.get(k, 0) + 1
                f[k + ":" + how] = f.get(k + ":" + how, 0) + 1
        if tv and ov:
            k = ("iadd-after-observation:merges-into-last-chunk" if tv[-1][1] == ov[0][1]
                 else "iadd-after-observation:starts-new-chunk")
            f[k] = f.get(k, 0) + 1

    def replay_silent(self, hist):
        regs, refs = self.fresh()
        origin = None
        for op in hist:
            if op[0] == "iadd" and id(regs[op[1]]) in self.empty_results:
                self.grown_empty_result = True
            regs2 = apply_real(op, regs)
            refs = apply_ref(op, refs)
            if op[0] in ("slice", "fixed") and refs[op[1]] == ():
                self.empty_results[id(regs2[op[1]])] = regs2[op[1]]
            origin = _origin_after(op[0], op[1], regs, regs2, origin)
            regs = regs2
            self.settle(regs, refs, (0, 1))       # same observations as when the history was first run
        return regs, refs, origin

    def step(self, op, regs, refs, origin):
        """Execute one operation on the given live objects and compare with the reference.
        -> (regs2, refs2, origin2, violation or None); regs2 is None when the state cannot be continued."""
        kind = op[0]
        t = op[1]
        try:
            refs2 = apply_ref(op, refs)
            ref_exc = None
        except IndexError:
            refs2, ref_exc = None, "IndexError"
        aliased = regs[0] is regs[1]
        if kind == "iadd" and refs2 is not None:
            self._note_iadd(op, regs, refs)
        try:
            regs2 = apply_real(op, regs)
        except Runaway:
            return None, None, None, ("self-append-diverges", "`t += t` (the text appended to itself) never "
                                      "terminates: the chunk list grows while it is iterated", "unbounded growth",
                                      show(refs2[t]) if refs2 else None)
        except Diverged:
            return None, None, None, (f"{kind}:does-not-terminate", "operation did not terminate", "timeout", None)
        except IndexError as e:
            if ref_exc == "IndexError":
                return None, None, None, None
            return None, None, None, (f"{kind}:raises-IndexError", "operation raised where str does not",
                                      repr(e), show(refs2[t]))
        except Exception as e:  # noqa
            return None, None, None, (f"{kind}:raises-{type(e).__name__}", "operation raised where str does not",
                                      repr(e), show(refs2[t]) if refs2 else ref_exc)
        if ref_exc is not None:
            return None, None, None, (f"{kind}:no-{ref_exc}", "operation did not raise where str raises",
                                      okey(regs2[t]), ref_exc)
        for i in (t, 1 - t):
            o = regs2[i]
            if type(o) is not CHText:
                return None, None, None, (f"{kind}:result-type", "result is not a text", repr(o), "CHText")
            if bkey(o) == ekey(refs2[i]):
                continue
            bad = _same_value(o, refs2[i])
            if bad is None:
                continue            # same value in a non-canonical structure that still compares equal
            if aliased:
                return None, None, None, (f"aliasing-after-{origin}",
                                          f"`{kind}` on one text changed another one: `{origin}` returned its "
                                          f"receiver instead of a new text", show(read(o)), show(refs2[i]))
            if i == t:
                return None, None, None, (f"{kind}:{bad}", f"result of `{kind}` differs from the str result",
                                          show(read(o)), show(refs2[i]))
            return None, None, None, (f"{kind}:other-text-changed", "the operation changed a text it was "
                                      "not applied to", show(read(o)), show(refs2[i]))
        # observations after the transition: the target always; the other register too when the operation
        # mutates in place (source objects of the other operations are compared slot by slot by the search)
        bad = self.settle(regs2, refs2, (t, 1 - t) if kind == "iadd" or aliased else (t,))
        if bad is not None:
            i, what, obs, exp = bad
            if aliased:
                return None, None, None, (f"aliasing-after-{origin}", f"`{kind}` on one text changed another one: "
                                          f"`{origin}` returned its receiver instead of a new text", obs, exp)
            return None, None, None, (f"{kind}:then-{what}-differs",
                                      f"after `{kind}`, {what}() of r{i} disagrees with the str result "
                                      f"(an earlier observation or the operation left stale state behind)",
                                      obs, exp)
        if kind in ("slice", "fixed") and refs2[t] == ():
            self.empty_results[id(regs2[t])] = regs2[t]
            if self.grown_empty_result:
                k = "empty-slice-after-iadd-on-result-of-empty-slice"
                self.feats[k] = self.feats.get(k, 0) + 1
        return regs2, refs2, _origin_after(kind, t, regs, regs2, origin), None

    def observe_state(self, regs, refs, acc, hist, use_cache=True):
        """Observers of a (new) state. -> (violations, alias_ops per register)."""
        p = self.p
        out = []
        alias_ops = [(), ()]
        feats_all = {}
        for i in (0, 1):
            k = okey(regs[i])
            if use_cache and k[:2] == ekey(refs[i]) and k in self.obs_cache:
                alias_ops[i] = self.obs_cache[k]
                continue
            feats = {}
            found = list(observe(regs[i], refs[i], p, acc, feats))
            al = tuple(feats.pop("aliases", ()))
            alias_ops[i] = al
            feats_all.update(feats)
            acc.note_sum("register_states_observed", 1)
            for sig, msg, obs, exp, probe in found:
                out.append((sig, msg, obs, exp, {"history": hist, "probe": [i] + probe}))
            if not found and k[:2] == ekey(refs[i]):
                self.obs_cache[k] = al
        # pair observers
        acc.trans(3)
        same = refs[0] == refs[1]
        e1, e2, ne = regs[0] == regs[1], regs[1] == regs[0], regs[0] != regs[1]
        if e1 != same or e2 != same or ne == same:
            sig = "eq:same-text-assembled-differently-not-equal" if same else "eq:different-texts-compare-equal"
            out.append((sig, "r0 == r1 disagrees with the reference", [e1, e2, ne], same,
                        {"history": hist, "probe": ["pair"]}))
        for f in feats_all:
            acc.feat(f)
        return out, alias_ops


def op_features(op):
    f = ["op:" + op[0]]
    if op[0] == "iadd":
        if _mentions(op[2], op[1]):
            f.append("op:iadd-self")
        if op[2][0] == "l":
            f.append("op:iadd-list")
    return f


def state_features(refs, op, p):
    f = []
    runs = [M.canon(v) for v in refs]
    if any(len(r) >= 2 for r in runs):
        f.append("state:multi-chunk")
    return f


def _op_features(op, refs, refs2, acc):
    """Measured features of a transition: did the appended material merge / get dropped?"""
    if op[0] in ("iadd", "add", "new", "radd", "join"):
        t = op[1]
        v = refs2[t]
        # merged neighbours: the result has fewer runs than the parts had chunks
        parts = []
        if op[0] == "new":
            parts = [M.operand_value(x, refs) for x in op[2]]
        elif op[0] == "add":
            parts = [refs[op[2]], M.operand_value(op[3], refs)]
        elif op[0] == "iadd":
            parts = [refs[t], M.operand_value(op[2], refs)]
        elif op[0] == "radd":
            parts = [M.operand_value(op[2], refs), refs[op[3]]]
        if any(len(x) == 0 for x in parts) and len(parts) > 1:
            acc.feat("state:empty-chunk-dropped")
        if sum(len(M.canon(x)) for x in parts) > len(M.canon(v)):
            acc.feat("state:merged-neighbours")


# ------------------------------------------------------------------------------------------------ search
def expand(m, hist, acc, seen, check, collect):
    """Expand one state: execute every enabled operation. New states (by `seen`) are observed and passed to
    collect(hist2). With check=False nothing is reported/observed (used to recompute the level-1 frontier)."""
    p = m.p
    signal.alarm(60)
    regs, refs, origin = m.replay_silent(hist)
    live_key = (okey(regs[0]), okey(regs[1]))
    live_cls = capture_class_state()          # class-level state as the history leaves it
    if check:
        _, alias_ops = m.observe_state(regs, refs, acc, hist)
    else:
        alias_ops = _alias_only(m, regs, refs)
    for op in gen_ops(refs, p, not hist, alias_ops):
        restore_class_state(live_cls)         # every operation starts from exactly the state of the history
        over_cap = False
        try:
            exp2 = apply_ref(op, refs)
            if len(exp2[op[1]]) > p["L"]:
                # disabled: result longer than the cap -- except appending a text to itself, which is
                # executed and checked up to twice the cap (+2) as a terminal transition (not expanded)
                if op[0] == "iadd" and _mentions(op[2], op[1]) and len(exp2[op[1]]) <= 2 * p["L"] + 2:
                    over_cap = True
                else:
                    continue
        except IndexError:
            pass
        mut = op[0] == "iadd"
        if mut:
            r, v, org = m.replay_silent(hist)
        else:
            r, v, org = regs, refs, origin
        regs2, refs2, origin2, viol = m.step(op, r, v, org)
        if check:
            acc.trans(1)
            for f in op_features(op):
                acc.feat(f)
        hist2 = hist + [op]
        if not mut and (okey(regs[0]), okey(regs[1])) != live_key:
            if check and viol is None:
                acc.violation(f"C08:{op[0]}:operand-modified", {"history": hist2},
                              "an operation that must not modify its operands changed one",
                              [okey(regs[0]), okey(regs[1])], list(live_key))
            regs, refs, origin = m.replay_silent(hist)
            live_key = (okey(regs[0]), okey(regs[1]))
            live_cls = capture_class_state()
            continue
        if viol is not None:
            if check:
                sig, msg, obs, exp = viol
                acc.violation("C08:" + sig, {"history": hist2}, msg, obs, exp)
                acc.outcome("violation:" + sig)
            continue
        if regs2 is None:
            if check:
                acc.outcome("IndexError-as-str")
            continue
        key = state_key(regs2)
        if key in seen:
            continue
        seen.add(key)
        if over_cap:
            if check:
                acc.case(nontrivial=True, features=state_features(refs2, op, p) + ["state:over-cap-self-append"],
                         outcome="ok-over-cap-self-append")
            continue
        if check:
            feats = state_features(refs2, op, p)
            _op_features(op, refs, refs2, acc)
            nontrivial = "state:multi-chunk" in feats or regs2[0] is regs2[1]
            found, _ = m.observe_state(regs2, refs2, acc, hist2)
            outcome = "ok"
            if regs2[0] is regs2[1]:
                outcome = "ok-aliased"
                acc.feat("state:aliased-registers")
            if bkey(regs2[0]) != ekey(refs2[0]) or bkey(regs2[1]) != ekey(refs2[1]):
                outcome = "ok-noncanonical-structure"
            for sig, msg, obs, exp, case in found:
                acc.violation("C08:" + sig, case, msg, obs, exp)
                outcome = "violation:" + sig
            acc.case(nontrivial=nontrivial, features=feats, outcome=outcome)
            acc.note_max("history_len", len(hist2))
            if nontrivial and len(hist2) >= 2:
                acc.sample({"history": hist2, "r0": show(refs2[0]), "r1": show(refs2[1])})
            if found:
                continue
        collect(hist2, key)
    if check:
        for f, n in m.feats.items():
            acc.feat(f, n)
        acc.trans(m.nlight)
    m.feats = {}
    m.nlight = 0
    signal.alarm(0)


def _alias_only(m, regs, refs):
    """Aliasing unary calls of both registers without reporting anything (frontier recomputation)."""
    out = []
    for i in (0, 1):
        k = okey(regs[i])
        if k in m.obs_cache:
            out.append(m.obs_cache[k])
            continue

        class _N:
            def trans(self, n=1):
                pass
        feats = {}
        found = list(observe(regs[i], refs[i], m.p, _N(), feats))
        al = tuple(feats.pop("aliases", ()))
        if not found and k[:2] == ekey(refs[i]):
            m.obs_cache[k] = al
        out.append(al)
    return out


_FRONTIER = {}      # config -> frontier of depth <= 2, recomputed (silently) once per worker process


def frontier(cfg):
    """Levels 0..2 of the search, globally deduplicated, in a deterministic order.
    -> dict(l1=[hist], l2=[(hist, key)], owner={l2 key: index of the level-1 state that reaches it first},
            keys01=set, keys=set of all keys of depth <= 2)"""
    tier = cfg
    if tier in _FRONTIER:
        return _FRONTIER[tier]
    p = params(cfg)
    m = Machine(p)
    regs, _ = m.fresh()
    seen = {state_key(regs)}
    l1 = []
    expand(m, [], None, seen, False, lambda h, k: l1.append(h))
    keys01 = set(seen)
    l2 = []
    owner = {}
    for i, h in enumerate(l1):
        def col(h2, k2, i=i):
            l2.append((h2, k2))
            owner[k2] = i
        expand(m, h, None, seen, False, col)
    _FRONTIER[tier] = {"l1": l1, "l2": l2, "owner": owner, "keys01": keys01, "keys": seen}
    return _FRONTIER[tier]


def run_empty_results(cfg, acc):
    """Directed family (states the search merges with 'a new empty text' on a correct tree, executed anyway):
    r1 = <empty slice / fixed_len(0) of r0>; r1 += x; then a fresh empty slice of r0, of r1 and of a new text.
    Every step is compared with the reference; each history starts from the import-time class state."""
    p = params(cfg)
    m = Machine(p)
    strs, chunks = pool(p)
    empties = [["slice", 1, 0, 3, 3], ["slice", 1, 0, 5, 4], ["slice", 1, 0, 100, 200], ["slice", 1, 0, None, 0],
               ["fixed", 1, 0, 0]]
    operands = [x for x in strs + chunks if x[-1] != ""] + [["r", 0]]
    probes = [[["slice", 0, 0, 2, 2]], [["fixed", 0, 0, 0]], [["slice", 0, 1, 0, 0]],
              [["new", 0, [["s", "bc"]]], ["slice", 0, 0, 5, 4]], [["slice", 0, 0, 100, 200], ["iadd", 0, ["c", 2, "g"]]]]
    for h in [[]] + frontier(cfg)["l1"]:
        if acc.expired():
            return
        for e in empties:
            for x in operands:
                for pr in probes:
                    hist = h + [e, ["iadd", 1, x]] + pr
                    regs, refs = m.fresh()
                    origin = None
                    outcome = "ok-empty-result-family"
                    for i, op in enumerate(hist):
                        try:
                            if len(apply_ref(op, refs)[op[1]]) > 2 * p["L"] + 2:
                                outcome = "too-long"
                                break
                        except IndexError:
                            pass
                        regs2, refs2, origin, viol = m.step(op, regs, refs, origin)
                        acc.trans(1)
                        if viol is not None:
                            sig, msg, obs, exp = viol
                            acc.violation("C08:" + sig, {"history": hist[:i + 1]}, msg, obs, exp)
                            outcome = "violation:" + sig
                            break
                        if regs2 is None:
                            break
                        regs, refs = regs2, refs2
                    acc.case(nontrivial=True, features=("family:empty-slice-result-extended-in-place",),
                             outcome=outcome)
        for f, n in m.feats.items():
            acc.feat(f, n)
        acc.trans(m.nlight)
        m.feats = {}
        m.nlight = 0


def run_shard(shard, tier, seed, acc):
    cfg = shard[1]
    p = params(cfg)
    old = signal.signal(signal.SIGALRM, _alarm)
    try:
        if shard[0] == "chunks":
            run_chunks(p, acc)
            return
        if shard[0] == "empty":
            run_empty_results(cfg, acc)
            return
        fr = frontier(cfg)
        m = Machine(p)
        D = p["D"]
        _, _, k, n = shard
        if shard[0] == "prefix":
            # transitions into depth <= 2 (each depth-2 state is reported by the level-1 state that owns it)
            if k == 0:
                regs, refs = m.fresh()
                found, _ = m.observe_state(regs, refs, acc, [])
                for sig, msg, obs, exp, case in found:
                    acc.violation("C08:" + sig, case, msg, obs, exp)
                acc.case(nontrivial=False, features=(), outcome="initial")
                expand(m, [], acc, {state_key(regs)}, True, lambda h, key: None)
            owned = {}
            for key, i in fr["owner"].items():
                owned.setdefault(i, []).append(key)
            seen = set(fr["keys"])
            for i, h in enumerate(fr["l1"]):
                if i % n != k:
                    continue
                for key in owned.get(i, ()):
                    seen.discard(key)
                expand(m, h, acc, seen, True, lambda h2, key: None)
                if acc.expired():
                    return
            return
        seen = set(fr["keys"])
        l2 = fr["l2"]           # contiguous blocks: neighbours share a parent, hence register values
        queue = deque((h, 2) for (h, _) in l2[len(l2) * k // n:len(l2) * (k + 1) // n])
        while queue:
            hist, d = queue.popleft()
            if d >= D:
                continue
            if acc.expired():
                return
            nxt = []
            expand(m, hist, acc, seen, True, lambda h2, key: nxt.append(h2))
            if d + 1 < D:
                queue.extend((h, d + 1) for h in nxt)
    finally:
        signal.alarm(0)
        signal.signal(signal.SIGALRM, old)


# ------------------------------------------------------------------------------------------------ chunk receivers
def run_chunks(p, acc):
    """Chunks (what ColorFmt returns) as receivers of the same operations: one-step, no search."""
    L = p["L"]
    strs, chunks = pool(p)
    more = [["c", 1, "defg"], ["c", 0, "hij"], ["c", 2, "g h"]]
    for cd in chunks + more:
        col, txt = cd[1], cd[2]
        v = M.of_str(txt, col)
        mk = lambda: FMT[col](txt)    # noqa
        case = {"chunk": cd}
        bad = []
        ck = mk()
        if len(ck) != len(v) or ck.plain_text() != txt:
            bad.append(("chunk:len-or-text", "len()/plain_text() of a chunk", [len(ck), ck.plain_text()], txt, []))
        for i in range(-(L + 1), L + 1):
            acc.trans(1)
            try:
                exp = M.m_index(v, i)
            except IndexError:
                exp = None
            try:
                y = as_text(mk()[i])
                if exp is None:
                    bad.append(("chunk:index:no-IndexError", "chunk index out of range accepted", okey(y), i, [i]))
                elif _same_value(y, exp):
                    bad.append(("chunk:index:" + _same_value(y, exp), "chunk[i]", okey(y), show(exp), [i]))
            except IndexError:
                if exp is not None:
                    bad.append(("chunk:index:raises-IndexError", "chunk[i] raised", i, show(exp), [i]))
        for a in slice_bounds(L):
            for b in slice_bounds(L):
                acc.trans(1)
                y = as_text(mk()[a:b])
                w = _same_value(y, v[a:b])
                if w:
                    bad.append(("chunk:slice:" + w, "chunk[a:b]", okey(y), show(v[a:b]), [a, b]))
        for n in range(0, L + 1):
            acc.trans(1)
            y = as_text(mk().fixed_len(n))
            w = _same_value(y, M.m_fixed(v, n))
            if w:
                bad.append(("chunk:fixed:" + w, "chunk.fixed_len(n)", okey(y), show(M.m_fixed(v, n)), [n]))
        for spec in M.SPECS:
            acc.trans(1)
            fs = format(mk(), spec)
            cells, final, problems = sgr.run(fs)
            if problems or final != sgr.DEFAULT or cells != _cells(M.m_format(v, spec)) \
                    or "".join(c for c, _ in cells) != format(txt, spec):
                bad.append(("chunk:format", "format(chunk, spec)", fs, show(M.m_format(v, spec)), [spec]))
        for x in strs + chunks:
            acc.trans(3)
            xv = M.operand_value(x, [(), ()])
            for name, y, exp in (("add", mk() + real_operand(x, []), v + xv),
                                 ("radd", real_operand(x, []) + mk(), xv + v) if x[0] == "s" else
                                 ("add", real_operand(x, []) + mk(), xv + v),
                                 ("join", mk().join([real_operand(x, []), "a", real_operand(x, [])]),
                                  M.m_join(v, [xv, M.of_str("a"), xv]))):
                w = _same_value(as_text(y), exp)
                if w:
                    bad.append((f"chunk:{name}:{w}", f"chunk {name}", okey(as_text(y)), show(exp), [x]))
        c2 = mk()
        c3 = c2
        c3 += "a"
        if read(as_text(c3)) != v + M.of_str("a") or read(CHText(c2)) != v:
            bad.append(("chunk:iadd", "chunk += str", okey(as_text(c3)), show(v + M.of_str("a")), []))
        acc.case(nontrivial=bool(txt), features=("chunk-receiver",), outcome="chunk-ok" if not bad else bad[0][0])
        for sig, msg, obs, exp, probe in bad[:3]:
            acc.violation("C08:" + sig, {"chunk": cd, "probe": probe}, msg, obs, exp)


# ------------------------------------------------------------------------------------------------ replay
def replay(case, acc):
    if "chunk" in case:
        p = params(REPLAY_CONFIG)
        # re-run the whole receiver battery for that chunk (cheap) and keep its violations
        strs, chunks = pool(p)
        sub = type(acc)()
        run_chunks(p, sub)
        for sig, lst in sub.violations.items():
            for _, r in lst:
                if r["case"]["chunk"] == case["chunk"]:
                    acc.violation(sig, case, r["message"], r["observed"], r["expected"])
        acc.case()
        return
    hist = case["history"]
    # the bound parameters are those of the tier that produces the longest registers
    p = params(REPLAY_CONFIG)
    old = signal.signal(signal.SIGALRM, _alarm)
    signal.alarm(120)
    try:
        m = Machine(p)
        regs, refs = m.fresh()
        origin = None
        found, _ = m.observe_state(regs, refs, acc, [], use_cache=False)
        for sig, msg, obs, exp, c in found:
            acc.violation("C08:" + sig, case, msg, obs, exp)
        for n, op in enumerate(hist if not found else []):
            regs2, refs2, origin2, viol = m.step(op, regs, refs, origin)
            acc.trans(1)
            if viol is not None:
                sig, msg, obs, exp = viol
                acc.violation("C08:" + sig, case, msg, obs, exp)
                break
            if regs2 is None:
                break
            regs, refs, origin = regs2, refs2, origin2
            found, _ = m.observe_state(regs, refs, acc, hist[:n + 1], use_cache=False)
            for sig, msg, obs, exp, c in found:
                acc.violation("C08:" + sig, case, msg, obs, exp)
            if found:
                break
    finally:
        signal.alarm(0)
        signal.signal(signal.SIGALRM, old)
    acc.case()


def selftest():
    M.selftest()
    # expectations of tests/test_color.py through the harness: greenred slicing, fixed_len, join
    from mc import core
    acc = core.Acc()
    p = params(REPLAY_CONFIG)
    m = Machine(p)
    hist = [["new", 0, [["c", 1, "ef"], ["c", 2, "g"]]], ["slice", 1, 0, 1, 3], ["fixed", 1, 0, 5],
            ["join", 1, ["c", 1, "d"], [["r", 0], ["s", "a"], ["r", 0]]], ["index", 1, 0, -1]]
    regs, refs = m.fresh()
    origin = None
    for op in hist:
        regs2, refs2, origin, viol = m.step(op, regs, refs, origin)
        assert viol is None or viol[0].startswith(("aliasing", "self-append")), viol
        regs, refs = regs2, refs2
    assert M.chars(refs[1]) == "g" and M.chars(refs[0]) == "efg"
