"""C14 — syntax colors resolve by inheritance, independent of registration order (DESIGN.md §2 C14).

Space (every member is executed on the real ColorsConfig / Palette machinery):
  description sets : every acyclic assignment of menu entries to the ids of a family (2, 3 or 4 ids, one of
                     them spelled "T.U.D" = three nested levels {"T": {"U": {"D": ..}}}, with 3-4 ids also "T.D"); menu = 7 parentless forms + 12 forms
                     referring to a parent P, P over the other ids, a never-registered id and (full menu)
                     a built-in id.  The menu strings carry their intended meaning, so the package's
                     description parser is under test as well.
  histories        : every split into (explicit initial configuration, later component registrations) x
                     every ordered set partition of the later registrations (order x batching);
                     an explicit entry that conflicts with a later default (family "conflict")
  two configs      : K1 then K2 in one process over sets that share the text of a description with a parent
                     reference and differ in the parent's description; K2 judged by the reference for K2 alone
  isolation        : ak.color is re-executed (importlib.reload) before every replay, every two-config case and
                     every 16 description sets of a shard; a disagreement is re-judged in a pristine module and,
                     if it only occurs after earlier configurations, reported with that history
  variations       : stand-alone / installed as the global configuration / no_color; nested or flat
                     spelling; registration through Palette construction, Palette.register_in_colors_conf,
                     ColorsConfig.add_new_items, one PARENT_PALETTES chain, or same-named
                     classes from a class factory
Oracle after the construction and after **every** registration step: models/resolver.py on the current set
of winning descriptions -> expected (fg, bg, effects); the formatter of every id (and of an unknown id) is
rendered and read back by the SGR emulator; a palette class over the ids, conf.get_palette(), and in global
mode ak.color.global_palette and a synced palette must show the same.
"""

import itertools

from ak import color as impl
from models import resolver as R
from models import sgr

ID = "C14"
TITLE = "Syntax colors resolve by inheritance, independent of registration order"
TECHNIQUE = ("exhaustive enumeration of acyclic description sets x all splits / orders / batchings of their "
             "registration, compared with a reference resolver after every step")
DESIGN_REF = "§2 C14"
LEVEL_TEXT = ("Every acyclic description set over the menu for 2 and 3 ids (reduced menu for 4 ids) is "
              "registered in every split between explicit configuration and components and every ordered "
              "set partition of the component registrations; after every step every formatter and every "
              "palette view is compared with the reference resolver.")
LEVEL_NOTE = ("Bounded: <= 4 ids, the 14-entry menu, chains <= 4 long; cyclic sets and two components "
              "defining the same id differently are outside the property. Trusted: models/resolver.py, "
              "models/sgr.py.")
RULE = ("case = (description set, explicit subset, ordered partition of the rest into registrations, "
        "spelling, mechanism, mode), distinct by construction; non-trivial: some id is registered before the "
        "id it refers to (pending resolution), or an explicit entry meets a later default")
ASSUMPTIONS = [
    "description sets are acyclic and syntactically valid (menu entries)",
    "two components never give different defaults for one id (the final description set would depend on order)",
    "palette objects are obtained from the configuration after the registration they are compared with",
]
REQUIRED_FEATURES = ["pending-then-resolved", "unknown-parent-stays-uncolored", "dash-with-parent",
                     "explicit-beats-default", "spelling:nested", "spelling:flat", "mode:global",
                     "mode:no_color", "mode:standalone", "batched-registration", "chain-depth>=2",
                     "builtin-parent", "modifier-overridden", "mech:palette-ctor", "mech:register",
                     "mech:add_new_items", "mech:parents", "all-explicit", "none-explicit", "text-colored",
                     "color-id-0", "color-id-0-overrides-parent-color",
                     "nested:three-levels-explicit", "nested:three-levels-component",
                     "flat:three-levels-explicit", "flat:three-levels-component",
                     "nested:three-levels-explicit-beats-default", "mech:factory", "factory:two-classes-same-name",
                     "two-configs", "two-configs:shared-text-parent-modifiers-differ"]

INH, DFL = R.INHERIT, R.DEFAULT
UNKNOWN = "U"
BUILTIN = "NAME"

ROOT_TEMPLATES = [
    ("fg", "RED", "RED", INH, {}),
    ("bg", "/BLUE", INH, "BLUE", {}),
    ("fg-bg-mod", "RED/BLUE:bold", "RED", "BLUE", {"bold": True}),
    ("empty", "", INH, INH, {}),
    ("dash", "-", DFL, INH, {}),
    ("int-zero", "0", 0, INH, {}),                    # colour id 0 is a falsy value
    ("int-zero", "0/BLUE", 0, "BLUE", {}),
]
REF_TEMPLATES = [
    ("ref", "{P}", INH, INH, {}),
    ("ref-mod", "{P}:bold", INH, INH, {"bold": True}),
    ("ref-nomod", "{P}:no_bold", INH, INH, {"bold": False}),
    ("ref-fg", "{P}:GREEN", "GREEN", INH, {}),
    ("ref-bg", "{P}:/YELLOW", INH, "YELLOW", {}),
    ("dash-with-parent", "{P}:-", DFL, INH, {}),
    ("dash-with-parent", "{P}:-/-", DFL, DFL, {}),
    ("ref-rgb-gray-mod", "{P}:(1,2,3)/g5:underline", (1, 2, 3), "g5", {"underline": True}),
    ("ref-int", "{P}:17", 17, INH, {}),
    ("ref-int-zero", "{P}:0", 0, INH, {}),
    ("ref-int-zero", "{P}:/0", INH, 0, {}),
    ("ref-int-zero", "{P}:0/7:bold", 0, 7, {"bold": True}),
]
REDUCED_ROOT = ("fg", "fg-bg-mod", "empty")
REDUCED_REF = ("{P}", "{P}:no_bold", "{P}:-", "{P}:/YELLOW")

# documented built-in items that the reference needs (tests: gp.name is GREEN bold, TEXT is plain)
BUILTIN_DESCRS = {"TEXT": R.Descr(None, INH, INH, {}, "builtin"),
                  "NAME": R.Descr(None, "GREEN", INH, {"bold": True}, "builtin")}

# the default text syntax given a color by the explicit configuration (mode "standalone-text")
TEXT_COLORED = ("MAGENTA:blink", R.Descr(None, "MAGENTA", INH, {"blink": True}, "text"))

# "T.D" = nested {"T": {"D": ..}};  "T.U.D" = three levels {"T": {"U": {"D": ..}}} (sharing the group "T")
FAMILY_IDS = {2: ["A", "T.U.D"], 3: ["A", "T.D", "T.U.D"], 4: ["A", "B", "T.D", "T.U.D"]}
ACCESSOR = {"A": "a", "B": "b", "T.D": "td", "T.U.D": "tud"}


def menu(sid, ids, reduced, with_builtin, with_unknown=True):
    """[(string, Descr)] for one id."""
    out = []
    for kind, s, fg, bg, mods in ROOT_TEMPLATES:
        if reduced and kind not in REDUCED_ROOT:
            continue
        out.append((s, R.Descr(None, fg, bg, mods, kind)))
    parents = [x for x in ids if x != sid] + ([UNKNOWN] if with_unknown else []) + ([BUILTIN] if with_builtin else [])
    for p in parents:
        for kind, s, fg, bg, mods in REF_TEMPLATES:
            if reduced and s not in REDUCED_REF:
                continue
            out.append((s.replace("{P}", p), R.Descr(p, fg, bg, mods, kind)))
    return out


_SEM = {}


def semantics(string):
    """Intended meaning of a menu string (for replaying recorded cases)."""
    if not _SEM:
        for s, d in menu("*", FAMILY_IDS[4], False, True):      # "*" is no id: every id occurs as parent
            _SEM[s] = d
        for s, d in CONFLICT_LOSERS:
            _SEM[s] = d
    return _SEM[string]


CONFLICT_LOSERS = [("CYAN:blink", R.Descr(None, "CYAN", INH, {"blink": True}, "loser")),
                   ("A:underline", R.Descr("A", INH, INH, {"underline": True}, "loser")),
                   ("T.D:underline", R.Descr("T.D", INH, INH, {"underline": True}, "loser")),
                   ("T.U.D:underline", R.Descr("T.U.D", INH, INH, {"underline": True}, "loser"))]


# ------------------------------------------------------------------------------------------------ palettes
def _mk_palette_class(name, ids, defaults=None, parents=None):
    ns = {ACCESSOR[i]: impl.ConfColor(i) for i in ids}
    if defaults is not None:
        ns["SYNTAX_DEFAULTS"] = defaults
    if parents is not None:
        ns["PARENT_PALETTES"] = parents
    return type(impl.Palette)(name, (impl.Palette,), ns)


PAL = {n: _mk_palette_class(f"VerifPal{n}", ids) for n, ids in FAMILY_IDS.items()}
SPAL = {n: _mk_palette_class(f"VerifSyncedPal{n}", ids) for n, ids in FAMILY_IDS.items()}


# ------------------------------------------------------------------------------------------------ tiers
def families(tier):
    """(name, n ids, reduced menu?, builtin parent?, [(mode, spelling, mech)])."""
    std = [("standalone", "nested", "palette-ctor")]
    allvar = [(mode, sp, mech) for mode in ("standalone", "global", "no_color", "standalone-text")
              for sp, mech in (("nested", "palette-ctor"), ("flat", "palette-ctor"), ("nested", "register"),
                               ("flat", "register"), ("flat", "add_new_items"), ("nested", "parents"))]
    allvar += [("standalone", "nested", "factory"), ("global", "flat", "factory")]
    somevar = [("global", "nested", "palette-ctor"), ("global", "flat", "add_new_items"),
               ("no_color", "nested", "palette-ctor"), ("standalone", "flat", "register"),
               ("standalone", "nested", "parents"), ("global", "nested", "register"),
               ("standalone-text", "nested", "palette-ctor")]
    quickvar = [v for v in somevar if v not in (("standalone", "flat", "register"), ("global", "nested", "register"))]
    F = lambda name, n, red, bi, unk, var, nsh: (name, n, red, (bi, unk), var, nsh)     # noqa
    fam = [F("n2-full", 2, False, True, True, allvar, 8),
           F("n3-full", 3, False, False, False, std, 96),
           F("n3-reduced-variants", 3, True, False, True, quickvar, 48),
           F("conflict-n2", 2, False, False, True, [("standalone", "nested", "palette-ctor"),
                                                    ("global", "flat", "register")], 8),
           F("conflict-n3", 3, True, False, True, std, 16)]
    if tier == "thorough":
        fam = [F("n2-full", 2, False, True, True, allvar, 8),
               F("n3-full-builtin", 3, False, True, True, std, 256),
               F("n3-reduced-variants", 3, True, True, True, allvar, 96),
               F("n4-reduced", 4, True, False, False, std, 384),
               F("conflict-n2", 2, False, True, True, allvar, 8),
               F("conflict-n3", 3, True, False, True, somevar + std, 48)]
    return fam


TWO_CONFIG_SHARDS = 8


def bounds(tier):
    b = {"menu_parentless": [t[1] for t in ROOT_TEMPLATES], "menu_with_parent": [t[1] for t in REF_TEMPLATES],
         "reduced_menu": list(REDUCED_ROOT) + list(REDUCED_REF), "families": {}}
    for name, n, red, bi, var, nsh in families(tier):
        b["families"][name] = {"ids": FAMILY_IDS[n], "reduced_menu": red, "builtin_parent": bi[0],
                               "never_registered_parent": bi[1],
                               "variants": [list(v) for v in var], "scenarios_per_set": len(scenarios(n))}
    return b


def shards(tier):
    out = []
    for name, n, red, bi, var, nsh in families(tier):
        for k in range(nsh):
            out.append((name, k, nsh))
    out += [("two-configs", k, TWO_CONFIG_SHARDS) for k in range(TWO_CONFIG_SHARDS)]
    return out


# ------------------------------------------------------------------------------------------------ enumeration
def ordered_partitions(items):
    items = list(items)
    if not items:
        yield []
        return
    n = len(items)
    for mask in range(1, 1 << n):
        first = [items[i] for i in range(n) if mask >> i & 1]
        rest = [items[i] for i in range(n) if not mask >> i & 1]
        for tail in ordered_partitions(rest):
            yield [first] + tail


_SCEN = {}


def scenarios(n):
    """[(explicit ids, [batch, ...])] for the ids of family n."""
    if n not in _SCEN:
        ids = FAMILY_IDS[n]
        out = []
        for mask in range(1 << n):
            ex = [ids[i] for i in range(n) if mask >> i & 1]
            rest = [ids[i] for i in range(n) if not mask >> i & 1]
            for part in ordered_partitions(rest):
                out.append((ex, part))
        _SCEN[n] = out
    return _SCEN[n]


def assignments(n, reduced, parents):
    with_builtin, with_unknown = parents
    ids = FAMILY_IDS[n]
    menus = [menu(i, ids, reduced, with_builtin, with_unknown) for i in ids]
    for combo in itertools.product(*menus):
        sem = {i: d for i, (s, d) in zip(ids, combo)}
        if not R.acyclic(sem):
            continue
        yield {i: s for i, (s, d) in zip(ids, combo)}, sem


# ------------------------------------------------------------------------------------------------ execution
_STATE_MEMO = {}


def fmt_state(fmt):
    """Formatter -> (state of the character it renders, problem or None), through the emulator."""
    try:
        s = str(fmt("x"))
    except Exception as e:  # noqa
        return None, f"formatter raised {type(e).__name__}"
    r = _STATE_MEMO.get(s)
    if r is None:
        cells, final, problems = sgr.run(s)
        if problems or final != sgr.DEFAULT or len(cells) != 1 or cells[0][0] != "x":
            r = (None, f"not a self-contained rendering of one character: {s!r}")
        else:
            r = (cells[0][1], None)
        if len(_STATE_MEMO) < 5000:
            _STATE_MEMO[s] = r
    return r


def expected_state(sid, registered, no_color):
    if no_color:
        return sgr.DEFAULT
    if sid not in registered:
        sid = "TEXT"                 # unknown ids fall back to the default text syntax
    r = R.resolve(sid, registered)
    if r is None:
        return sgr.DEFAULT
    return (sgr.expected_index(r[0]), sgr.expected_index(r[1]), r[2])


def spell(items, spelling):
    """{id: str} -> dict in nested or flat spelling."""
    if spelling == "flat":
        return dict(items)
    out = {}
    for k, v in items.items():
        parts = k.split(".")
        d = out
        for grp in parts[:-1]:
            d = d.setdefault(grp, {})
        d[parts[-1]] = v
    return out


def _pal_get_color(pal, sid, want):
    """Palette.get_color is documented with a 'synt_id' argument and implemented with the accessor name as
    key: either spelling may give the formatter (the one that differs from the configuration's is only
    returned when both do)."""
    a = pal.get_color(ACCESSOR[sid])
    if a is want:
        return a
    b = pal.get_color(sid)
    return b if b is want else a


class Problem(Exception):
    def __init__(self, kind, step, sid, view, msg, obs, exp):
        Exception.__init__(self, msg)
        self.kind, self.step, self.sid, self.view, self.msg, self.obs, self.exp = kind, step, sid, view, msg, obs, exp


def st_json(st):
    return None if st is None else {"fg": st[0], "bg": st[1], "effects": sorted(st[2])}


def execute(n, strs, sem, explicit, batches, conflict, spelling, mech, mode, acc, feats):
    """Run one scenario. Raises Problem at the first disagreement."""
    ids = FAMILY_IDS[n]
    no_color = mode == "no_color"
    glob = mode == "global"
    text_colored = mode == "standalone-text"
    registered = dict(BUILTIN_DESCRS)
    spal = None
    probe_ids = ids + [UNKNOWN, "ZZ.Q"]

    def depth(sid):
        k = 0
        while sid in registered and registered[sid].parent is not None and k < 10:
            sid = registered[sid].parent
            k += 1
        return k

    def check(step, conf):
        colored = 0
        pal = PAL[n](conf)
        gpal = conf.get_palette()
        for sid in sorted(probe_ids, key=depth):          # ancestors first: report where an error originates
            exp = expected_state(sid, registered, no_color)
            views = [("get_color", conf.get_color(sid)), ("get_palette", gpal[sid]),
                     ("get_palette.get_color", gpal.get_color(sid))]
            if sid in ACCESSOR:
                views.append(("palette-class", getattr(pal, ACCESSOR[sid])))
                views.append(("palette-class.get_color", _pal_get_color(pal, sid, conf.get_color(sid))))
                if glob:
                    sp = SPAL[n](synced=True)          # obtained now; the one synced object of the class
                    views.append(("synced-palette", getattr(sp, ACCESSOR[sid])))
                    views.append(("synced-palette-get_color", _pal_get_color(sp, sid, conf.get_color(sid))))
            if glob:
                views.append(("global_palette", impl.global_palette[sid]))
            acc.trans(len(views))
            base = views[0][1]
            for view, fmt in views:
                if fmt is base and view != "get_color":
                    continue                    # the very same formatter object: already compared
                st, prob = fmt_state(fmt)
                if view == "get_color" and st != sgr.DEFAULT:
                    colored += 1
                if prob is not None:
                    raise Problem("malformed", step, sid, view, prob, prob, st_json(exp))
                if no_color and sgr.ESC in str(fmt("x")):
                    raise Problem("no_color-has-effects", step, sid, view, "a no_color configuration returned "
                                  "a formatter that emits escape sequences", str(fmt("x")), "x")
                if st != exp:
                    kind = "wrong-format" if view == "get_color" else "view-differs"
                    raise Problem(kind, step, sid, view,
                                  f"{view} of '{sid}' after step {step} differs from the reference resolver",
                                  st_json(st), st_json(exp))
        if glob:
            for name, want in (("name", "NAME"), ("text", "TEXT")):
                st, prob = fmt_state(getattr(impl.global_palette, name))
                exp = expected_state(want, registered, no_color)
                if st != exp:
                    raise Problem("view-differs", step, want, "global_palette." + name,
                                  "standard accessor of the global palette differs", st_json(st), st_json(exp))
        feats.discard(next((f for f in feats if f.startswith("final-colored:")), None))
        feats.add(f"final-colored:{colored}")

    try:
        ex_items = {i: strs[i] for i in explicit}
        if text_colored:
            ex_items["TEXT"] = TEXT_COLORED[0]
            registered["TEXT"] = TEXT_COLORED[1]
            feats.add("text-colored")
        try:
            conf = impl.ColorsConfig(spell(ex_items, spelling), no_color=no_color)
        except Exception as e:  # noqa
            raise Problem("construct-raises-" + type(e).__name__, 0, None, None,
                          f"ColorsConfig(explicit configuration) raised {type(e).__name__}", repr(e), "a configuration")
        acc.trans(1)
        for i in explicit:
            registered[i] = sem[i]
        if glob:
            impl.set_global_colors_config(conf)
            spal = SPAL[n](synced=True)
        check(0, conf)
        # ---- component registrations ------------------------------------------------------------------
        blist = [list(b) for b in batches]
        items_of = []
        for bi, b in enumerate(blist):
            it = {i: strs[i] for i in b}
            items_of.append(it)
        if conflict is not None:
            cid, cstr, cpos = conflict
            if cpos >= len(items_of):
                items_of.append({})
                blist.append([])
            items_of[cpos] = dict(items_of[cpos])
            items_of[cpos][cid] = cstr
            feats.add("explicit-beats-default")
        target = (lambda: impl.get_global_colors_config()) if glob else (lambda: conf)
        if mech == "parents":
            classes = []
            for bi, it in enumerate(items_of):
                classes.append(_mk_palette_class(f"Comp{bi}", [i for i in it if i in ACCESSOR],
                                                 spell(it, spelling), classes[-1:] or None))
            if classes:
                try:
                    if glob:
                        classes[-1]()
                    else:
                        classes[-1](conf)
                except Exception as e:  # noqa
                    raise Problem("register-raises-" + type(e).__name__, len(classes), None, None,
                                  f"registration of components raised {type(e).__name__}", repr(e), "registered")
                acc.trans(len(classes))
                for b in blist:
                    for i in b:
                        registered.setdefault(i, sem[i])
                check(len(classes), conf)
            return
        for bi, it in enumerate(items_of):
            step = bi + 1
            try:
                if mech == "add_new_items":
                    target().add_new_items(dict(it), f"component {bi}")
                else:
                    # "factory": distinct classes that share module and qualified name (class factory called twice)
                    comp = _mk_palette_class("Component" if mech == "factory" else f"Comp{bi}",
                                             [i for i in it if i in ACCESSOR], spell(it, spelling))
                    if mech == "register":
                        comp.register_in_colors_conf(target())
                    elif glob:
                        comp()
                    else:
                        comp(conf)
            except Exception as e:  # noqa
                raise Problem("register-raises-" + type(e).__name__, step, None, None,
                              f"registration of a component raised {type(e).__name__}", repr(e), "registered")
            acc.trans(1)
            for i in blist[bi]:
                registered.setdefault(i, sem[i])
            check(step, conf)
            if mech in ("palette-ctor", "factory") and it and not no_color:
                # the component's own palette reflects the state after its registration
                for i in it:
                    if i in ACCESSOR:
                        st, prob = fmt_state(getattr(comp(conf) if not glob else comp(), ACCESSOR[i]))
                        exp = expected_state(i, registered, no_color)
                        if st != exp:
                            raise Problem("view-differs", step, i, "component-palette",
                                          "the palette of the registering component differs from the reference",
                                          st_json(st), st_json(exp))
    finally:
        if glob:
            for cls in list(impl._GSYNCED_PALETTES):
                if cls is not impl.GlobalPalette:
                    del impl._GSYNCED_PALETTES[cls]
            impl.set_global_colors_config(None)


def measure_features(n, sem, explicit, batches, feats):
    """Measured (from the scenario) features used for the vacuity counters and the non-trivial rule."""
    order = {i: 0 for i in explicit}
    for bi, b in enumerate(batches):
        for i in b:
            order[i] = bi + 1
    pending = False
    for i, d in sem.items():
        if d.parent in order and order[d.parent] > order[i]:
            pending = True
        if d.parent == UNKNOWN:
            feats.add("unknown-parent-stays-uncolored")
        if d.parent == BUILTIN:
            feats.add("builtin-parent")
        if d.kind == "dash-with-parent":
            feats.add("dash-with-parent")
        if d.fg == 0 or d.bg == 0:
            feats.add("color-id-0")
            par = sem.get(d.parent) or BUILTIN_DESCRS.get(d.parent)
            if par is not None and ((d.fg == 0 and par.fg not in (INH, DFL)) or (d.bg == 0 and par.bg not in (INH, DFL))):
                feats.add("color-id-0-overrides-parent-color")
        if d.parent in sem and sem[d.parent].parent is not None:
            feats.add("chain-depth>=2")
        if d.parent in sem and any(k in sem[d.parent].mods for k in d.mods):
            feats.add("modifier-overridden")
    if pending:
        feats.add("pending-then-resolved")
    if any(len(b) > 1 for b in batches):
        feats.add("batched-registration")
    if not batches:
        feats.add("all-explicit")
    if not explicit:
        feats.add("none-explicit")
    return pending


# ------------------------------------------------------------------------------------------------ classification
def classify(pr, n, strs, sem, registered_ids, spelling="flat"):
    """Signature of a Problem, computed from the failing case."""
    if pr.kind in ("no_color-has-effects", "malformed"):
        return pr.kind
    if pr.kind == "view-differs":
        return "palette-view-differs:" + pr.view.split(".")[0]     # which view: palette-class, synced-palette, ...
    flat = {i: strs[i] for i in registered_ids}

    def single_shot(items, sp="flat"):
        try:
            c = impl.ColorsConfig(spell(items, sp))
        except Exception as e:  # noqa
            return "raises-" + type(e).__name__
        for sid in items:
            if c.get_color(sid) is c.get_color("TEXT"):
                return "not-registered:" + sid          # unknown ids get the formatter object of TEXT
            reg = dict(BUILTIN_DESCRS)
            reg.update({i: sem[i] for i in items})
            st, prob = fmt_state(c.get_color(sid))
            if prob or st != expected_state(sid, reg, False):
                return "wrong:" + sid
        return "ok"

    def chain(sid):
        out = []
        while sid in sem and sid not in out:
            out.append(sid)
            sid = sem[sid].parent
        return out

    whole = single_shot(flat)
    if whole == "ok" and spelling == "nested" and single_shot(flat, "nested") != "ok":
        levels = max(i.count(".") + 1 for i in flat)
        return f"nested-spelling-differs-from-flat:{levels}-levels"
    suffix = ":order-dependent" if whole == "ok" else ""
    if "raises" in pr.kind:
        for sid in sorted(flat, key=lambda i: len(chain(i))):
            if single_shot({i: strs[i] for i in chain(sid) if i in flat}).startswith("raises"):
                return f"{pr.kind.split('-raises-')[1]}-raised:{sem[sid].kind}"
        return f"{pr.kind}:interaction{suffix}"
    kind = sem[pr.sid].kind if pr.sid in sem else "unregistered-id"
    return f"wrong-format:{kind}{suffix}"


# ------------------------------------------------------------------------------------------------ driver
def _pristine():
    """A pristine ak.color for the next case(s): the module is re-executed (every class-level / module-level
    cache, documented or not, starts empty) and the palette classes of the harness are rebuilt on it."""
    import importlib
    importlib.reload(impl)
    for n_, ids_ in FAMILY_IDS.items():
        PAL[n_] = _mk_palette_class(f"VerifPal{n_}", ids_)
        SPAL[n_] = _mk_palette_class(f"VerifSyncedPal{n_}", ids_)


def _case_features(n, sem, explicit, batches, conflict, spelling, mech, mode):
    feats = {"spelling:" + spelling, "mode:" + mode.split("-")[0], "mech:" + mech}
    sp = "flat" if mech == "add_new_items" else spelling
    if any(i.count(".") >= 2 for i in explicit):
        feats.add(spelling + ":three-levels-explicit")
        if conflict is not None and conflict[0].count(".") >= 2 and spelling == "nested":
            feats.add("nested:three-levels-explicit-beats-default")
    if any(i.count(".") >= 2 for b in batches for i in b):
        feats.add(sp + ":three-levels-component")
    if mech == "factory" and len(batches) + (1 if conflict else 0) >= 2:
        feats.add("factory:two-classes-same-name")
    pending = measure_features(n, sem, explicit, batches, feats)
    return feats, pending


def judge(case, acc, feats=None):
    """Execute one recorded case in the current module state. -> None or (signature, Problem)."""
    n = case["n"]
    strs = case["descr"]
    sem = {i: semantics(s) for i, s in strs.items()}
    explicit, batches = case["explicit"], case["batches"]
    conflict = tuple(case["conflict"]) if case.get("conflict") else None
    spelling, mech, mode = case["spelling"], case["mech"], case["mode"]
    if feats is None:
        feats = set()
    try:
        try:
            execute(n, strs, sem, explicit, batches, conflict, spelling, mech, mode, acc, feats)
        except Problem:
            raise
        except Exception as e:  # noqa  -- whatever the package raises is a verdict, never a crash of the harness
            raise Problem("raises-" + type(e).__name__, -1, None, None,
                          f"the package raised {type(e).__name__} outside a registration", repr(e), "no exception")
    except Problem as pr:
        done = list(explicit)
        for b in batches[:max(pr.step, 0)]:
            done += b
        if mech == "parents" or pr.step < 0:
            done = list(explicit) + [i for b in batches for i in b]
        try:
            sig = classify(pr, n, strs, sem, done, "flat" if mech == "add_new_items" else spelling)
            if mech == "factory" and judge(dict(case, mech="palette-ctor"), _quiet()) is None:
                # the same registrations through differently named classes are fine
                sig = "same-named-component-classes:defaults-of-a-later-class-ignored"
        except Exception as e:  # noqa
            sig = f"{pr.kind}:unclassified"
        return sig, pr
    return None


_RECHECKS = {}
MAX_RECHECKS = 10
_NULL = None


def _quiet():
    from mc import core
    return core.Acc()


def report_checked(acc, sig, pr, case, hist):
    """A disagreement found while other cases ran earlier in this process: decide whether the case fails on
    its own (pristine module) or only after an earlier configuration, and report a replayable witness."""
    full = "C14:" + sig
    obs = {"step": pr.step, "id": pr.sid, "view": pr.view, "observed": pr.obs}
    if _RECHECKS.get(sig, 0) >= MAX_RECHECKS:
        acc.viol_count[full] += 1                      # counted; enough checked witnesses of this class exist
        return full
    _RECHECKS[sig] = _RECHECKS.get(sig, 0) + 1
    earlier = list(hist)
    del hist[:]
    _pristine()
    alone = judge(case, _quiet())
    if alone is not None and alone[0] == sig:
        acc.violation(full, case, pr.msg, obs, pr.exp)
        return full
    # not reproducible on its own: which earlier configuration(s) does it depend on?
    budget = [80]

    def reproduces(prefix):
        budget[0] -= 1
        _pristine()
        q = _quiet()
        for c in prefix:
            judge(c, q)
        r = judge(case, _quiet())
        return r is not None and r[0] == sig

    texts = set(case["descr"].values())
    culprit = None
    for c in [c for c in reversed(earlier) if texts & set(c["descr"].values())][:40]:
        if reproduces([c]):
            culprit = [c]
            break
    if culprit is None and reproduces(earlier):
        culprit = list(earlier)
        nparts = 2
        while len(culprit) >= 2 and budget[0] > 0:              # ddmin-lite on the list of earlier cases
            chunk = max(len(culprit) // nparts, 1)
            for i in range(0, len(culprit), chunk):
                trial = culprit[:i] + culprit[i + chunk:]
                if budget[0] > 0 and reproduces(trial):
                    culprit = trial
                    nparts = max(nparts - 1, 2)
                    break
            else:
                if chunk == 1:
                    break
                nparts = min(nparts * 2, len(culprit))
    _pristine()
    if culprit is None:
        acc.violation("C14:not-reproducible:" + sig, case, pr.msg + " (seen once after other configurations, "
                      "reproducible neither alone nor after them)", obs, pr.exp)
        return "C14:not-reproducible:" + sig
    hsig = "C14:depends-on-earlier-config:" + pr.kind
    acc.violation(hsig, dict(case, history=culprit),
                  pr.msg + "; the same case is judged correct in a pristine process: the result depends on a "
                  "ColorsConfig built earlier", obs, pr.exp)
    return hsig


def run_one(n, strs, sem, explicit, batches, conflict, spelling, mech, mode, acc, sample=False, hist=None):
    feats, pending = _case_features(n, sem, explicit, batches, conflict, spelling, mech, mode)
    case = mk_case(n, strs, explicit, batches, conflict, spelling, mech, mode)
    outcome = "ok"
    r = judge(case, acc, feats)
    if r is not None:
        sig, pr = r
        if hist is None:
            acc.violation("C14:" + sig, case, pr.msg,
                          {"step": pr.step, "id": pr.sid, "view": pr.view, "observed": pr.obs}, pr.exp)
            outcome = "violation:" + sig
        else:
            outcome = "violation:" + report_checked(acc, sig, pr, case, hist)[4:]
    elif hist is not None:
        hist.append(case)
    nt = pending or conflict is not None
    fin = next((f for f in feats if f.startswith("final-colored:")), "final-colored:?")
    feats.discard(fin)
    if outcome == "ok":
        outcome = "ok:" + fin + ("/pending-on-the-way" if pending else "")
    acc.case(nontrivial=nt, features=feats, outcome=outcome)
    if sample and r is None:
        acc.sample(case)


def mk_case(n, strs, explicit, batches, conflict, spelling, mech, mode):
    return {"n": n, "descr": dict(strs), "explicit": list(explicit), "batches": [list(b) for b in batches],
            "conflict": list(conflict) if conflict else None, "spelling": spelling, "mech": mech, "mode": mode}


RELOAD_EVERY = 16          # description sets per pristine module (history of a case = earlier cases of its batch)


def two_config_pairs():
    """(K1, K2): two description sets over {A, T.U.D} that share the text of a description referring to a
    parent and differ in the parent's own description."""
    ids = FAMILY_IDS[2]
    out = []
    for child, parent in ((ids[1], ids[0]), (ids[0], ids[1])):
        roots = [s_ for s_, d in menu(parent, ids, False, False, False) if d.parent is None]
        refs = [s_ for s_, d in menu(child, ids, False, False, False) if d.parent == parent]
        for t in refs:
            for r1 in roots:
                for r2 in roots:
                    if r1 != r2:
                        out.append(({parent: r1, child: t}, {parent: r2, child: t}, child, parent))
    return out


def run_two_configs(k, nsh, acc):
    ids = FAMILY_IDS[2]
    for idx, (d1, d2, child, parent) in enumerate(two_config_pairs()):
        if idx % nsh != k:
            continue
        if acc.expired():
            return
        first = mk_case(2, d1, ids, [], None, "flat", "palette-ctor", "standalone")
        for explicit, batches in ((ids, []), ([child], [[parent]]), ([], [[parent], [child]])):
            second = mk_case(2, d2, explicit, batches, None, "nested", "palette-ctor", "standalone")
            _pristine()
            judge(first, _quiet())
            sem = {i: semantics(s_) for i, s_ in d2.items()}
            feats, pending = _case_features(2, sem, explicit, batches, None, "nested", "palette-ctor", "standalone")
            feats.add("two-configs")
            if semantics(d1[parent]).mods != semantics(d2[parent]).mods:
                feats.add("two-configs:shared-text-parent-modifiers-differ")
            r = judge(second, acc, feats)
            outcome = "two-configs-ok"
            if r is not None:
                hist = [first]
                outcome = "violation:" + report_checked(acc, r[0], r[1], second, hist)[4:]
            feats = {f for f in feats if not f.startswith("final-colored:")}
            acc.case(nontrivial=True, features=feats, outcome=outcome)
            acc.trans(2)
    _pristine()


def run_shard(shard, tier, seed, acc):
    name, k, nsh = shard
    _RECHECKS.clear()
    if name == "two-configs":
        run_two_configs(k, nsh, acc)
        return
    fam = [f for f in families(tier) if f[0] == name][0]
    _, n, reduced, with_builtin, variants, _ = fam
    scen = scenarios(n)
    ids = FAMILY_IDS[n]
    hist = []
    done = 0
    _pristine()
    try:
        for idx, (strs, sem) in enumerate(assignments(n, reduced, with_builtin)):
            if idx % nsh != k:
                continue
            if acc.expired():
                return
            if done % RELOAD_EVERY == 0 and done:
                _pristine()
                del hist[:]
            done += 1
            for (mode, spelling, mech) in variants:
                for si, (explicit, batches) in enumerate(scen):
                    if name.startswith("conflict"):
                        if not explicit:
                            continue
                        for cid in explicit:
                            for cstr, cdescr in CONFLICT_LOSERS:
                                if cdescr.parent == cid or (cdescr.parent is not None and cdescr.parent not in ids):
                                    continue
                                for cpos in range(len(batches) + 1):
                                    run_one(n, strs, sem, explicit, batches, (cid, cstr, cpos), spelling, mech, mode,
                                            acc, hist=hist)
                        continue
                    run_one(n, strs, sem, explicit, batches, None, spelling, mech, mode, acc,
                            sample=(idx % 211 == 3 and si == len(scen) // 2), hist=hist)
    finally:
        _pristine()


def replay(case, acc):
    """Every replay starts from a pristine module; a case with a history is first judged alone, then after it."""
    try:
        _pristine()
        plain = {k_: v for k_, v in case.items() if k_ != "history"}
        r = judge(plain, acc if "history" not in case else _quiet())
        if "history" not in case:
            if r is not None:
                sig, pr = r
                acc.violation("C14:" + sig, case, pr.msg, {"step": pr.step, "id": pr.sid, "view": pr.view,
                                                           "observed": pr.obs}, pr.exp)
        else:
            if r is not None:                       # fails on its own: an ordinary violation of that class
                acc.violation("C14:" + r[0], case, r[1].msg, r[1].obs, r[1].exp)
            else:
                _pristine()
                for c in case["history"]:
                    judge(c, _quiet())
                r = judge(plain, acc)
                if r is not None:
                    acc.violation("C14:depends-on-earlier-config:" + r[1].kind, case, r[1].msg, r[1].obs, r[1].exp)
        acc.case()
    finally:
        _pristine()


def selftest():
    R.selftest()
    sgr.selftest()
    from mc import core
    # the menu strings mean what the table says: parse every menu string with the package's own parser
    # only for *shape* (parent / which parts are given), never for the expected colors
    for s, d in menu("A", FAMILY_IDS[4], False, True):
        assert semantics(s).kind == d.kind
    # scenario counts: sum_k C(n,k) * Fubini(n-k)
    assert len(scenarios(2)) == 6 and len(scenarios(3)) == 26 and len(scenarios(4)) == 150
    # expectations of tests/test_color.py::test_register_palette_user through the harness
    acc = core.Acc()
    assert spell({"A": "x", "T.D": "y", "T.U.D": "z"}, "nested") == {"A": "x", "T": {"D": "y", "U": {"D": "z"}}}
    strs = {"A": "T.U.D", "T.U.D": "RED"}
    sem = {i: semantics(s) for i, s in strs.items()}
    run_one(2, strs, sem, ["A"], [["T.U.D"]], None, "nested", "palette-ctor", "standalone", acc)
    assert not acc.violations, acc.violations
