"""C09 — emitted escape sequences are well-formed, self-contained and strippable (DESIGN.md §2 C09).

Every finite argument domain of ColorFmt / ColorBytes is enumerated completely and every produced
string is fed to an SGR terminal emulator (models/sgr.py) that starts in the default state:

  single : every colour spec (8 names, ints -2..257, all (r,g,b) in {-1..6}^3, g-1..g25, junk values)
           in the fg position and in the bg position x all 32 effect subsets
  tri    : all 3^5 assignments of True/False/None to the five effects x fg/bg representative pairs
  pairs  : fg x bg over representatives of every family (incl. invalid ones) x 32 effect subsets
  nocolor: no_color=True over every valid spec x effect subsets
  multi  : every ordered triple of representative formats as a multi chunk CHText (with plain parts)
  seq    : every ordered pair (thorough: also triples) of formatter constructions over look-alike values
           {1, True, 1.0, 200, 200.0, (5,0,0), (5.0,0,0), 'RED', 0, False, 0.0} x fg/bg role x ColorFmt/ColorBytes,
           each sequence from a pristine (re-executed) ak.color module; the last construction must be judged and
           rendered exactly as when it is the only one (bool values are executed but not judged)
  make   : CHText.make(list) over every list of <= 3 chunks with texts from {"", "x"} and 3 formats (plain,
           RED+bold, 46/235+underline): empty chunks in every position, SGR emulator oracle
  grow   : every ordered pair of representative formats: a text is rendered, extended in place six times
           (`+=` merging into the last chunk / starting a new chunk / plain / a text) and rendered after
           every extension (each observation twice)

Oracle (from the property statement): every visible character is shown with exactly the requested
fg/bg/effects, the terminal is back in the default state after every chunk, strip_colors(str(x)) ==
plain text, no ESC under no_color, ColorBytes emits the same bytes, invalid values raise ValueError.
"""

import itertools

from ak import color as impl
from models import sgr

ID = "C09"
TITLE = "Emitted escape sequences are well-formed, self-contained and strippable"
TECHNIQUE = "exhaustive enumeration of every colour/effect argument domain against an SGR terminal emulator"
DESIGN_REF = "§2 C09"
LEVEL_TEXT = ("Every single colour specification (all names, all ints -2..257, all 512 tuples over -1..6, all "
              "gray names g-1..g25, junk) in fg and in bg position with all 32 effect subsets, all 243 "
              "True/False/None effect assignments and all fg x bg pairs over family representatives are "
              "rendered by the real ColorFmt/ColorBytes/CHText and replayed on a terminal emulator.")
LEVEL_NOTE = ("Combinations of fg and bg are pairwise over representatives, not the full 800x800 product. "
              "Trusted: the emulator in models/sgr.py (ECMA-48 SGR subset, both 256-colour spellings).")
RULE = ("case = one argument tuple (fg spec, bg spec, effect assignment, no_color) or one multi-chunk text; "
        "for a valid tuple three texts are rendered through ColorFmt, CHText and ColorBytes and emulated; "
        "non-trivial: the rendering contains at least one escape sequence, or the tuple is invalid and "
        "must be rejected with ValueError")
ASSUMPTIONS = [
    "texts are free of escape characters (property quantifier)",
    "colour values are the documented kinds: names, ints, 3-tuples, 'gN' strings; other objects count as "
    "invalid values; '-' and '' (configuration-file notations) and bool are not passed to ColorFmt",
    "a list [r,g,b] may either be treated like the tuple or rejected with ValueError",
    "bool values are outside the domain (neither valid nor required to be rejected), float values and tuples "
    "containing floats are invalid",
    "with no_color=True invalid colour values are outside the domain (documented: all other arguments ignored)",
]
REQUIRED_FEATURES = ["spec:name", "spec:int", "spec:rgb", "spec:gray", "spec:invalid", "pos:fg", "pos:bg",
                     "pos:fg+bg", "effects:5-of-5", "effects:explicit-False", "no_color", "bytes-compared",
                     "multi-chunk", "strip-compared", "colon-form-emitted", "invalid-rejected",
                     "render-extend-in-place-render", "sequence", "sequence:hash-equal-lookalike-same-role",
                     "sequence:invalid-after-equal-valid", "sequence:valid-after-equal-bool",
                     "bytes-applied:no_color", "spec:float-component-tuple", "CHText.make",
                     "CHText.make:leading-empty-chunk-then-other-colour",
                     "CHText.make:inner-or-trailing-empty-chunk"]

EFFECTS = sgr.EFFECTS
TEXTS = ("", "x", "a b")


# ------------------------------------------------------------------------------------------ spec domains
def enc(spec):
    if isinstance(spec, tuple):
        return {"t": list(spec)}
    if isinstance(spec, list):
        return {"l": list(spec)}
    if isinstance(spec, float):
        return {"f": spec}
    return spec


def dec(j):
    if isinstance(j, dict):
        if "t" in j:
            return tuple(j["t"])
        if "l" in j:
            return list(j["l"])
        return float(j["f"])
    return j


def family(spec):
    if spec is None:
        return "none"
    if isinstance(spec, str):
        if spec in sgr.NAMES:
            return "name"
        if spec[:1] == "g" and spec[1:].lstrip("-").isdigit():
            return "gray"
        return "junk"
    if isinstance(spec, bool):
        return "junk"
    if isinstance(spec, int):
        return "int"
    if isinstance(spec, tuple):
        return "rgb" if len(spec) == 3 else "junk"
    if isinstance(spec, list):
        return "list"
    return "junk"


NAMES = list(sgr.NAMES)
INTS = list(range(-2, 258))
TUPLES = list(itertools.product(range(-1, 7), repeat=3))
GRAYS = [f"g{k}" for k in range(-1, 26)]
JUNK = ["PURPLE", "g", "red", "gx", "g1.5", 1.5, (1, 2), (1, 2, 3, 4), (), "31", "G5"]
LISTS = [[1, 2, 3], [1, 2, 9], [1, 2.0, 3], [1.0, 2.0, 3.0], [2.5, 0, 0]]


def _float_tuples():
    """(r, g, b) with non-int numeric components inside [0, 5]: x.0 in every non-empty subset of positions of
    every base tuple over {0, 2, 5}, and x.5 in every single position. All of them are invalid values."""
    out = []
    for base in itertools.product((0, 2, 5), repeat=3):
        for mask in range(1, 8):
            out.append(tuple(float(c) if mask >> i & 1 else c for i, c in enumerate(base)))
        for i in range(3):
            if base[i] + 0.5 <= 5:
                out.append(tuple(c + 0.5 if j == i else c for j, c in enumerate(base)))
    out += [(1.0, 2.0, 3.0), (2.5, 0, 0), (4, 1.0, 1)]
    seen, uniq = set(), []
    for t in out:
        k = repr(t)
        if k not in seen:
            seen.add(k)
            uniq.append(t)
    return uniq


FLOAT_TUPLES = _float_tuples()
SINGLE = NAMES + INTS + TUPLES + GRAYS + JUNK + LISTS + FLOAT_TUPLES

# representatives: every family, valid and invalid, both ends of every numeric range
REPS_QUICK = [None, "RED", "WHITE", 0, 255, (0, 0, 0), (5, 5, 5), "g0", "g23"]
REPS_BAD = [256, -1, (0, 6, 0), "g24", "PURPLE"]
REPS_THOROUGH = [None] + NAMES + [0, 1, 7, 8, 15, 16, 17, 100, 231, 232, 254, 255,
                                  (0, 0, 0), (0, 0, 1), (0, 1, 0), (1, 0, 0), (5, 5, 5), (1, 2, 3), (5, 0, 4),
                                  "g0", "g1", "g5", "g22", "g23"]
EFF_SUBSETS = [frozenset(c) for k in range(6) for c in itertools.combinations(EFFECTS, k)]
assert len(EFF_SUBSETS) == 32
EFF_TRI = list(itertools.product((True, False, None), repeat=5))
assert len(EFF_TRI) == 243


def bounds(tier):
    b = {"single_specs": len(SINGLE), "names": 8, "ints": "-2..257", "tuples": "{-1..6}^3 = 512",
         "grays": "g-1..g25", "junk": len(JUNK), "lists": len(LISTS), "effect_subsets": 32,
         "tuples_with_float_components": len(FLOAT_TUPLES),
         "construction_sequences": f"all ordered pairs{' and same-role triples' if tier == 'thorough' else ''} over "
                                   f"{len(LOOKALIKES)} look-alike values x fg/bg x ColorFmt/ColorBytes, pristine module each",
         "effect_assignments_True_False_None": "243 x every single spec (fg)" +
         (" and (bg)" if tier == "thorough" else ""), "texts": list(TEXTS),
         "pair_representatives": f"{len(_pair_reps(tier))}^2 x 32 effect subsets",
         "tri_representatives": f"{len(_tri_reps(tier))}^2 x 243 assignments",
         "multi_chunk_formats": f"{len(_multi_formats(tier))}^3 x 3 text rotations"}
    if tier == "thorough":
        b["full_fg_x_bg_product"] = f"{len(SINGLE)}^2 x {len(PRODUCT_EFFECTS)} effect subsets"
    return b


def _reps(tier):
    return REPS_THOROUGH if tier == "thorough" else REPS_QUICK


def _multi_formats(tier):
    base = [(None, None, ()), ("RED", None, ()), (100, None, ("bold",)), (None, "g3", ()),
            ((1, 2, 3), 200, ("underline", "crossed")), (None, None, ("blink",)), ("BLUE", "WHITE", ("faint",))]
    if tier == "thorough":
        base += [("g23", None, ()), (255, (5, 0, 0), EFFECTS), (None, 0, ("bold",)), ("RED", None, ("bold",))]
    return base


PRODUCT_EFFECTS = [(), ("bold",), ("underline", "crossed"), EFFECTS]
TRI_EXTRA = ["CYAN", 100, (1, 2, 3), "g11"]


def _pair_reps(tier):
    return REPS_THOROUGH + REPS_BAD


def _tri_reps(tier):
    return REPS_QUICK if tier == "quick" else REPS_QUICK + TRI_EXTRA


def shards(tier):
    sh = []
    nchunks = 24
    for pos in ("fg", "bg"):
        for k in range(nchunks):
            sh.append(("single", pos, k, nchunks))
    for k in range(nchunks):
        sh.append(("single-tri", "fg", k, nchunks))
    for i in range(len(_pair_reps(tier))):
        sh.append(("pairs", i))
    for i in range(len(_tri_reps(tier))):
        sh.append(("tri", i))
    if tier == "thorough":
        for k in range(nchunks):
            sh.append(("single-tri", "bg", k, nchunks))
        for k in range(128):
            sh.append(("product", k, 128))
    for k in range(8 if tier == "quick" else 32):
        sh.append(("seq", k, 8 if tier == "quick" else 32))
    sh.append(("nocolor", "fg"))
    sh.append(("nocolor", "bg"))
    sh.append(("multi",))
    return sh


# ---------------------------------------------------------------------------------------------- one case
def _kw(eff):
    """eff: dict name -> True/False/None (only present names are passed)."""
    return {k: v for k, v in eff.items()}


def _verdict_invalid(ctor, name, color, bg, kw, fam):
    try:
        ctor(color, bg_color=bg, **kw)
    except ValueError:
        return None
    except Exception as e:  # noqa
        return (f"invalid-wrong-exception:{fam}:{type(e).__name__}",
                f"{name} raised {type(e).__name__} instead of ValueError for an invalid colour value",
                repr(e), "ValueError")
    return (f"invalid-accepted:{fam}", f"{name} accepted an invalid colour value", "no exception", "ValueError")


def _leftover_form(stripped):
    """Class of the first sequence strip_colors left behind (or 'text-damaged' when it removed too much)."""
    i = stripped.find(sgr.ESC)
    if i < 0:
        return "text-damaged"
    j = i + 1
    while j < len(stripped) and stripped[j] not in "m" and j - i < 24:
        j += 1
    seq = stripped[i:j + 1]
    return "colon-form" if ":" in seq else ("semicolon-form" if ";" in seq else "simple-form")


def check_case(case, acc):
    """-> (violation or None, outcome, features, nontrivial). violation = (sig, msg, observed, expected).
    Whatever the code under test raises is a verdict, never a crash of the harness."""
    try:
        return _check_case(case, acc)
    except Exception as e:  # noqa
        import traceback
        where = traceback.extract_tb(e.__traceback__)[-1]
        return ((f"unexpected-exception:{type(e).__name__}", f"the package raised {type(e).__name__} in "
                 f"{where.name}", repr(e), "no exception"), "bad", ["exception"], True)


def _guarded(fn, case, acc, label):
    """check_multi / check_grow: exceptions of the code under test become violations."""
    try:
        return fn(case, acc)
    except Exception as e:  # noqa
        return (f"{label}:raises-{type(e).__name__}", f"{label}: the package raised {type(e).__name__}", repr(e),
                "no exception")


def _check_case(case, acc):
    color, bg = dec(case["color"]), dec(case["bg"])
    eff = dict(case["eff"])
    no_color = bool(case.get("no_color"))
    kw = _kw(eff)
    feats = []
    ef, eb = sgr.expected_index(color), sgr.expected_index(bg)
    lenient = False
    for spec, which in ((color, "fg"), (bg, "bg")):
        if isinstance(spec, list):
            lenient = True
    fam = family(color) if ef == "invalid" else family(bg)
    want_eff = frozenset(k for k, v in eff.items() if v)
    acc.trans(1)

    if no_color:
        feats.append("no_color")
        if ef == "invalid" or eb == "invalid" or lenient:
            try:
                impl.ColorFmt(color, bg_color=bg, no_color=True, **kw)
            except Exception:  # noqa
                pass
            return None, "nocolor-invalid-outside-domain", feats + ["outside-domain"], False
        try:
            f = impl.ColorFmt(color, bg_color=bg, no_color=True, **kw)
            fb = impl.ColorBytes(color, bg_color=bg, no_color=True, **kw)
        except Exception as e:  # noqa
            return ((f"valid-rejected:no_color", "no_color formatter could not be built", repr(e), "formatter"),
                    "bad", feats, True)
        for t in TEXTS:
            acc.trans(3)
            try:
                s = str(f(t))
                s2 = str(impl.CHText(f(t)))
            except Exception as e:  # noqa
                return ((f"text:apply-raises:no_color", f"applying a no_color ColorFmt raised {type(e).__name__}",
                         repr(e), t), "bad", feats, True)
            try:
                b = fb(t.encode())
            except Exception as e:  # noqa
                return ((f"bytes:apply-raises:no_color", f"applying a no_color ColorBytes to bytes raised "
                         f"{type(e).__name__}", repr(e), repr(t.encode())), "bad", feats + ["bytes-applied:no_color"],
                        True)
            feats.append("bytes-applied:no_color")
            if sgr.ESC in s or s != t or s2 != t:
                return (("no_color-emits-escape", "a no_color formatter changed the text", [s, s2], t),
                        "bad", feats, True)
            if b != t.encode():
                return (("bytes-differ:no_color", "no_color ColorBytes changed the bytes", repr(b), repr(t.encode())),
                        "bad", feats, True)
        return None, "nocolor-plain", feats + ["bytes-compared"], False

    if lenient:
        # a list: either handled like the tuple or rejected with ValueError
        tup_f = sgr.expected_index(tuple(color)) if isinstance(color, list) else ef
        tup_b = sgr.expected_index(tuple(bg)) if isinstance(bg, list) else eb
        feats.append("spec:list")
        try:
            impl.ColorFmt(color, bg_color=bg, **kw)
        except ValueError:
            return None, "list-rejected", feats, True
        except Exception as e:  # noqa
            return ((f"invalid-wrong-exception:list:{type(e).__name__}",
                     f"ColorFmt raised {type(e).__name__} for a list colour value (neither handled like the "
                     f"tuple nor rejected with ValueError)", repr(e), "colour of the tuple, or ValueError"),
                    "bad", feats, True)
        if tup_f == "invalid" or tup_b == "invalid":
            return (("invalid-accepted:list", "ColorFmt accepted an invalid list colour value", "no exception",
                     "ValueError"), "bad", feats, True)
        ef, eb = tup_f, tup_b

    if ef == "invalid" or eb == "invalid":
        feats.append("spec:invalid")
        if any(isinstance(x, tuple) and any(isinstance(c, float) for c in x) for x in (color, bg)):
            feats.append("spec:float-component-tuple")
        for ctor, name in ((impl.ColorFmt, "ColorFmt"), (impl.ColorBytes, "ColorBytes")):
            acc.trans(1)
            v = _verdict_invalid(ctor, name, color, bg, kw, fam)
            if v is not None:
                return v, "bad", feats, True
        feats.append("invalid-rejected")
        return None, "rejected", feats, True

    # ---- valid tuple -----------------------------------------------------------------------------
    for spec, pos in ((color, "fg"), (bg, "bg")):
        if spec is not None:
            feats.append("spec:" + family(spec))
    if color is not None and bg is not None:
        feats.append("pos:fg+bg")
    elif color is not None:
        feats.append("pos:fg")
    elif bg is not None:
        feats.append("pos:bg")
    feats.append(f"effects:{len(want_eff)}-of-5")
    for e in want_eff:
        feats.append("effect:" + e)
    if any(v is False for v in eff.values()):
        feats.append("effects:explicit-False")
    try:
        f = impl.ColorFmt(color, bg_color=bg, **kw)
        fb = impl.ColorBytes(color, bg_color=bg, **kw)
    except Exception as e:  # noqa
        bad = family(color) if color is not None else family(bg)
        if color is not None and bg is not None:        # name the argument that is the culprit
            try:
                impl.ColorFmt(color)
                bad = family(bg)
            except Exception:  # noqa
                bad = family(color)
        return ((f"valid-rejected:{bad}", f"a valid colour value was rejected with {type(e).__name__}", repr(e),
                 {"fg": ef, "bg": eb}), "bad", feats, True)
    want = (ef, eb, want_eff)
    colored = False
    for t in TEXTS:
        acc.trans(4)
        try:
            chunk = f(t)
            s = str(chunk)
            s2 = str(impl.CHText(chunk)) if t else s
        except Exception as e:  # noqa
            return ((f"text:apply-raises", f"applying a ColorFmt / str() raised {type(e).__name__}", repr(e), t),
                    "bad", feats, True)
        if s2 != s:
            return (("chtext-str-differs", "str(CHText(chunk)) != str(chunk)", s2, s), "bad", feats, True)
        if sgr.ESC in s:
            colored = True
            if ":" in s:
                feats.append("colon-form-emitted")
        cells, final, problems = sgr.run(s)
        if problems:
            return (("malformed-sequence", "the emitted string is not a sequence of well-formed SGR sequences",
                     [s, problems[0]], "well-formed SGR"), "bad", feats, True)
        if "".join(c for c, _ in cells) != t:
            return (("visible-text-differs", "the terminal shows other characters than the text", s, t),
                    "bad", feats, True)
        for ch, st in cells:
            if st != want:
                if st[0] != want[0]:
                    what = "wrong-color:fg:" + family(color)
                elif st[1] != want[1]:
                    what = "wrong-color:bg:" + family(bg)
                else:
                    what = "wrong-effects"
                return ((what, "a character is shown with other attributes than requested",
                         {"str": s, "fg": st[0], "bg": st[1], "effects": sorted(st[2])},
                         {"fg": want[0], "bg": want[1], "effects": sorted(want[2])}), "bad", feats, True)
        if final != sgr.DEFAULT:
            return (("state-not-reset", "the terminal is not in the default state after the chunk",
                     {"str": s, "fg": final[0], "bg": final[1], "effects": sorted(final[2])}, "default state"),
                    "bad", feats, True)
        try:
            stripped = impl.CHText.strip_colors(s)
        except Exception as e:  # noqa
            return ((f"strip-raises", f"strip_colors raised {type(e).__name__}", repr(e), t), "bad", feats, True)
        feats.append("strip-compared")
        if stripped != t or chunk.plain_text() != t:
            form = _leftover_form(stripped)
            return ((f"strip-misses-sequence:{form}", "strip_colors(str(x)) != x.plain_text()", stripped, t),
                    "bad", feats, True)
        try:
            b = fb(t.encode())
        except Exception as e:  # noqa
            return ((f"bytes:apply-raises", f"applying a ColorBytes to bytes raised {type(e).__name__}", repr(e),
                     repr(s.encode())), "bad", feats, True)
        feats.append("bytes-compared")
        if b != s.encode():
            return (("bytes-differ", "ColorBytes emits other bytes than ColorFmt", repr(b), repr(s.encode())),
                    "bad", feats, True)
    return None, ("colored" if colored else "plain"), feats, colored


def _report(acc, v, case):
    if v is not None:
        sig, msg, obs, exp = v
        acc.violation("C09:" + sig, case, msg, obs, exp)


def _do(acc, color, bg, eff, no_color=False, sample=False):
    case = {"kind": "fmt", "color": enc(color), "bg": enc(bg),
            "eff": {k: v for k, v in eff.items()}, "no_color": no_color}
    v, outcome, feats, nt = check_case(case, acc)
    acc.case(nontrivial=nt, features=set(feats), outcome=outcome if v is None else v[0])
    if sample:
        acc.sample(case)
    _report(acc, v, case)


# ---------------------------------------------------------------------------------------------- multi chunk
def check_multi(case, acc):
    fmts = case["formats"]
    parts = []
    want_cells = []
    pieces = ("ab", "c", "")
    for k, (c, b, effs) in enumerate(fmts):
        c, b = dec(c), dec(b)
        f = impl.ColorFmt(c, bg_color=b, **{e: True for e in effs})
        txt = pieces[k % 3] if case.get("rot", 0) == 0 else pieces[(k + case["rot"]) % 3]
        parts.append(f(txt))
        st = (sgr.expected_index(c), sgr.expected_index(b), frozenset(effs))
        want_cells += [(ch, st) for ch in txt]
        if k == 0:
            parts.append(" ")
            want_cells.append((" ", sgr.DEFAULT))
    acc.trans(3)
    t = impl.CHText(*parts)
    s = str(t)
    cells, final, problems = sgr.run(s)
    if problems:
        return ("multi:malformed-sequence", "multi chunk text is not well-formed", [s, problems[0]], "well-formed")
    if cells != want_cells:
        return ("multi:wrong-attributes", "a character of a multi chunk text is shown with other attributes "
                "(colour bleeding or wrong colour)", [s, [(c, st[0], st[1], sorted(st[2])) for c, st in cells]],
                [(c, st[0], st[1], sorted(st[2])) for c, st in want_cells])
    if final != sgr.DEFAULT:
        return ("multi:state-not-reset", "terminal not in default state after the text", s, "default")
    # self-contained chunks: every chunk alone starts and ends in the default state
    for ch in t.chunks:
        cs, fin, pr = sgr.run(str(ch))
        if pr or fin != sgr.DEFAULT:
            return ("multi:chunk-not-self-contained", "a chunk does not return to the default state", str(ch),
                    "default")
    stripped = impl.CHText.strip_colors(s)
    if stripped != t.plain_text() or stripped != "".join(c for c, _ in want_cells):
        form = _leftover_form(stripped)
        return (f"strip-misses-sequence:{form}", "strip_colors(str(text)) != text.plain_text()", stripped,
                t.plain_text())
    return None


# ---------------------------------------------------------------------------------------------- CHText.make
MAKE_FORMATS = [(None, None, ()), ("RED", None, ("bold",)), (46, 235, ("underline",))]
MAKE_TEXTS = ("", "x")


def check_make(case, acc):
    """CHText.make(list of chunks) -- the constructor the package's printable objects use -- with empty-text
    chunks in every position: every visible character carries exactly its own chunk's attributes, the terminal
    is in the default state after every chunk (an empty chunk neither donates nor swallows colour)."""
    chunks, want = [], []
    for fi, txt in case["chunks"]:
        c, b, effs = MAKE_FORMATS[fi]
        chunks.append(impl.ColorFmt(c, bg_color=b, **{e: True for e in effs})(txt))
        st = (sgr.expected_index(c), sgr.expected_index(b), frozenset(effs))
        want += [(ch, st) for ch in txt]
    acc.trans(3)
    t = impl.CHText.make(list(chunks))
    s = str(t)
    cells, final, problems = sgr.run(s)
    show = lambda cs: [(c, st[0], st[1], sorted(st[2])) for c, st in cs]    # noqa
    if problems:
        return ("make:malformed-sequence", "str(CHText.make(chunks)) is not well-formed", [s, problems[0]], "well-formed")
    if cells != want:
        return ("make:wrong-attributes", "a character of CHText.make(chunks) is shown with other attributes than "
                "its own chunk's (an empty chunk donated or swallowed colour)", [s, show(cells)], show(want))
    if final != sgr.DEFAULT:
        return ("make:state-not-reset", "terminal not in default state after the text", s, "default")
    for ch in t.chunks:
        cs, fin, pr = sgr.run(str(ch))
        if pr or fin != sgr.DEFAULT:
            return ("make:chunk-not-self-contained", "a chunk does not return to the default state", str(ch), "default")
    plain = "".join(c for c, _ in want)
    stripped = impl.CHText.strip_colors(s)
    if sgr.ESC in stripped and t.plain_text() == plain:                 # the stripper, not the text, is at fault
        return (f"strip-misses-sequence:{_leftover_form(stripped)}", "strip_colors(str(text)) != text.plain_text()",
                stripped, plain)
    if t.plain_text() != plain or len(t) != len(plain) or stripped != plain:
        return ("make:text-differs", "plain_text()/len()/strip_colors of CHText.make(chunks)",
                [t.plain_text(), len(t), impl.CHText.strip_colors(s)], plain)
    if sgr.visible(format(t, "_^7")) != format(plain, "_^7"):
        return ("make:format-differs", "format(CHText.make(chunks))", format(t, "_^7"), format(plain, "_^7"))
    return None


# ---------------------------------------------------------------------------------------------- grow in place
def check_grow(case, acc):
    """A text is rendered, extended in place (`+=`: same colour as its last chunk -> merged, other colour ->
    new chunk, plain after plain), and rendered again: every rendering must show the *current* text."""
    fm = case["formats"]
    fmts, states = [], []
    for c, b, effs in fm:
        c, b = dec(c), dec(b)
        fmts.append(impl.ColorFmt(c, bg_color=b, **{e: True for e in effs}))
        states.append((sgr.expected_index(c), sgr.expected_index(b), frozenset(effs)))
    t = impl.CHText(fmts[0]("ab"))
    want = [(ch, states[0]) for ch in "ab"]
    steps = [(fmts[0]("c"), states[0], "c"), (fmts[1]("de"), states[1], "de"), (fmts[1]("f"), states[1], "f"),
             ("x", sgr.DEFAULT, "x"), ("yz", sgr.DEFAULT, "yz"), (impl.CHText("w", fmts[0]("q")), None, "wq")]
    for k in range(len(steps) + 1):
        acc.trans(4)
        for rep_ in (0, 1):                         # every observation twice: it must not change anything
            s = str(t)
            cells, final, problems = sgr.run(s)
            if problems or final != sgr.DEFAULT or cells != want:
                return ("grow:stale-or-wrong-rendering", f"str() after {k} in-place extensions does not show the "
                        f"current text", s, [(c, st[0], st[1], sorted(st[2])) for c, st in want])
            plain = "".join(c for c, _ in want)
            if impl.CHText.strip_colors(s) != t.plain_text() or t.plain_text() != plain or len(t) != len(plain):
                stripped = impl.CHText.strip_colors(s)
                if sgr.ESC in stripped and t.plain_text() == plain:       # the stripper, not the text, is at fault
                    return (f"strip-misses-sequence:{_leftover_form(stripped)}",
                            "strip_colors(str(text)) != text.plain_text()", stripped, plain)
                return ("grow:strip-differs-from-plain_text", "strip_colors(str(x)) != x.plain_text() after "
                        "in-place extension", [stripped, t.plain_text(), len(t)], plain)
            f = format(t, "_^24")
            if sgr.visible(f) != format(plain, "_^24") or impl.CHText.strip_colors(f) != format(plain, "_^24"):
                return ("grow:format-differs", "format() after in-place extension", f, format(plain, "_^24"))
        if k < len(steps):
            x, st, txt = steps[k]
            t += x
            if st is None:
                want = want + [("w", sgr.DEFAULT), ("q", states[0])]
            else:
                want = want + [(ch, st) for ch in txt]
    return None


# ---------------------------------------------------------------------------------------------- sequences
# Values that compare/hash equal although only some of them are colour values: a construction must be judged
# the same whatever was constructed before it (E2: short histories from a pristine module state).
LOOKALIKES = [1, True, 1.0, 200, 200.0, (5, 0, 0), (5.0, 0, 0), "RED", 0, False, 0.0]
SEQ_STEPS = [(ctor, role, spec) for ctor in ("fmt", "bytes") for role in ("fg", "bg") for spec in LOOKALIKES]


def _pristine():
    """A pristine ak.color: the module is re-executed, so every cache it may hold (documented or not, e.g. a
    functools cache on a helper) starts empty."""
    import importlib
    importlib.reload(impl)


def _is_bool(spec):
    return isinstance(spec, bool)


def _judge_step(step, acc):
    """One construction judged by the reference alone (never by history).
    -> verdict string: 'ok', 'outside-domain', or a violation label; plus the rendering (for valid values)."""
    ctor, role, spec = step
    color, bg = (spec, None) if role == "fg" else (None, spec)
    if _is_bool(spec):
        # bool is not a documented colour value: whatever happens is outside the domain, but it is executed
        try:
            (impl.ColorFmt if ctor == "fmt" else impl.ColorBytes)(color, bg_color=bg)
        except Exception:  # noqa
            pass
        return "outside-domain", None, None
    case = {"kind": "fmt", "color": enc(color), "bg": enc(bg), "eff": {}, "no_color": False}
    v, outcome, feats, nt = check_case(case, acc)
    rendering = None
    if v is None and outcome in ("colored", "plain"):
        if ctor == "fmt":
            rendering = str(impl.ColorFmt(color, bg_color=bg)("x"))
        else:
            rendering = impl.ColorBytes(color, bg_color=bg)(b"x").decode()
    return ("ok" if v is None else v[0]), rendering, v


def check_sequence(case, acc):
    """case['steps'] = [[ctor, role, spec], ...] executed from a pristine module; the verdict and the rendering
    of the LAST construction must be those of the same construction alone in a pristine module."""
    steps = [(c, r, dec(sp)) for c, r, sp in case["steps"]]
    _pristine()
    alone_verdict, alone_render, _ = _judge_step(steps[-1], acc)
    _pristine()
    for st in steps[:-1]:
        _judge_step(st, acc)
    verdict, render, v = _judge_step(steps[-1], acc)
    acc.trans(len(steps) + 1)
    if alone_verdict == "outside-domain":
        return None, "seq-outside-domain"
    if verdict != alone_verdict:
        msg = (f"the construction {steps[-1]} is judged '{alone_verdict}' on its own but '{verdict}' after "
               f"{steps[:-1]}: the result depends on earlier constructions")
        sig = "sequence:" + (verdict if verdict != "ok" else "differs-from-single-shot")
        return (sig, msg, v[2] if v else render, v[3] if v else alone_verdict), "seq-bad"
    if render != alone_render:
        return (("sequence:rendering-depends-on-history", f"{steps[-1]} renders differently after {steps[:-1]}",
                 render, alone_render), "seq-bad")
    return None, ("seq-rejected" if verdict.startswith("invalid") or alone_render is None else "seq-same-rendering")


def _seq_features(steps):
    f = ["sequence"]
    (c1, r1, s1), (c2, r2, s2) = steps[-2], steps[-1]
    if r1 == r2 and type(s1) is not type(s2):
        try:
            if s1 == s2 and hash(s1) == hash(s2):
                f.append("sequence:hash-equal-lookalike-same-role")
                if sgr.expected_index(s2) == "invalid" and not _is_bool(s2) and sgr.expected_index(s1) != "invalid":
                    f.append("sequence:invalid-after-equal-valid")
                if _is_bool(s1) and sgr.expected_index(s2) != "invalid":
                    f.append("sequence:valid-after-equal-bool")
        except TypeError:
            pass
    return f


# ---------------------------------------------------------------------------------------------- shards
def run_shard(shard, tier, seed, acc):
    kind = shard[0]
    if kind == "single":
        _, pos, k, n = shard
        for idx, spec in enumerate(SINGLE):
            if idx % n != k:
                continue
            for sub in EFF_SUBSETS:
                eff = {e: True for e in EFFECTS if e in sub}
                if pos == "fg":
                    _do(acc, spec, None, eff, sample=(idx % 97 == 0 and len(sub) == 2))
                else:
                    _do(acc, None, spec, eff)
        return
    if kind == "single-tri":
        _, pos, k, n = shard
        for idx, spec in enumerate(SINGLE):
            if idx % n != k:
                continue
            for tri in EFF_TRI:
                eff = dict(zip(EFFECTS, tri))
                if pos == "fg":
                    _do(acc, spec, None, eff)
                else:
                    _do(acc, None, spec, eff)
        return
    if kind == "pairs":
        reps = _pair_reps(tier)
        a = reps[shard[1]]
        for b in reps:
            for sub in EFF_SUBSETS:
                _do(acc, a, b, {e: True for e in EFFECTS if e in sub})
        return
    if kind == "product":
        _, k, n = shard
        for idx, a in enumerate(SINGLE):
            if idx % n != k:
                continue
            for b in SINGLE:
                for effs in PRODUCT_EFFECTS:
                    _do(acc, a, b, {e: True for e in effs})
            if acc.expired():
                return
        return
    if kind == "tri":
        tri_reps = _tri_reps(tier)
        a = tri_reps[shard[1]]
        for b in tri_reps:
            for tri in EFF_TRI:
                _do(acc, a, b, dict(zip(EFFECTS, tri)), sample=(tri[0] is False and tri[1] is True and b == "g0"))
        return
    if kind == "nocolor":
        pos = shard[1]
        for spec in SINGLE:
            for sub in EFF_SUBSETS:
                eff = {e: True for e in EFFECTS if e in sub}
                if pos == "fg":
                    _do(acc, spec, None, eff, no_color=True)
                else:
                    _do(acc, "RED", spec, eff, no_color=True)
        return
    if kind == "seq":
        _, k, n = shard
        try:
            first = [st for st in SEQ_STEPS if st[0] == "fmt"]
            idx = 0
            for ia, a in enumerate(first):
                for b in SEQ_STEPS:
                    idx += 1
                    if idx % n != k:
                        continue
                    seqs = [[a, b]]
                    if tier == "thorough":
                        seqs += [[c, a, b] for ic, c in enumerate(first) if c[1] == a[1] and ic != ia]
                    for steps in seqs:
                        case = {"kind": "seq", "steps": [[c, r, enc(sp)] for c, r, sp in steps]}
                        try:
                            v, outcome = check_sequence(case, acc)
                        except Exception as e:  # noqa
                            v, outcome = (f"sequence:raises-{type(e).__name__}", "the package raised while a "
                                          "sequence of constructions was judged", repr(e), "no exception"), "seq-bad"
                        acc.case(nontrivial=(a[1] == b[1]), features=_seq_features(steps),
                                 outcome=outcome if v is None else v[0])
                        if a[2] == 200 and b[2] == 200.0 and len(steps) == 2:
                            acc.sample(case)
                        _report(acc, v, case)
                if acc.expired():
                    return
        finally:
            _pristine()
        return
    if kind == "multi":
        fm = _multi_formats(tier)
        for rot in (0, 1, 2):
            for trip in itertools.product(range(len(fm)), repeat=3):
                case = {"kind": "multi", "rot": rot,
                        "formats": [[enc(fm[i][0]), enc(fm[i][1]), list(fm[i][2])] for i in trip]}
                v = _guarded(check_multi, case, acc, "multi")
                acc.case(nontrivial=True, features=("multi-chunk",), outcome="multi-ok" if v is None else v[0])
                if trip == (1, 2, 4):
                    acc.sample(case)
                _report(acc, v, case)
        items = [(fi, txt) for fi in range(len(MAKE_FORMATS)) for txt in MAKE_TEXTS]
        for k in (1, 2, 3):
            for combo in itertools.product(items, repeat=k):
                case = {"kind": "make", "chunks": [list(x) for x in combo]}
                v = _guarded(check_make, case, acc, "make")
                feats = ["CHText.make"]
                if combo[0][1] == "" and k > 1 and combo[1][0] != combo[0][0]:
                    feats.append("CHText.make:leading-empty-chunk-then-other-colour")
                if any(txt == "" for _, txt in combo[1:]):
                    feats.append("CHText.make:inner-or-trailing-empty-chunk")
                acc.case(nontrivial=k > 1, features=feats, outcome="make-ok" if v is None else v[0])
                if combo == ((0, ""), (1, "x"), (2, "x")):
                    acc.sample(case)
                _report(acc, v, case)
        for pair in itertools.product(range(len(fm)), repeat=2):
            case = {"kind": "grow", "formats": [[enc(fm[i][0]), enc(fm[i][1]), list(fm[i][2])] for i in pair]}
            v = _guarded(check_grow, case, acc, "grow")
            acc.case(nontrivial=True, features=("render-extend-in-place-render",),
                     outcome="grow-ok" if v is None else v[0])
            _report(acc, v, case)
        return
    raise ValueError(shard)


def replay(case, acc):
    if case["kind"] == "multi":
        _report(acc, _guarded(check_multi, case, acc, "multi"), case)
    elif case["kind"] == "grow":
        _report(acc, _guarded(check_grow, case, acc, "grow"), case)
    elif case["kind"] == "make":
        _report(acc, _guarded(check_make, case, acc, "make"), case)
    elif case["kind"] == "seq":
        try:
            _report(acc, check_sequence(case, acc)[0], case)
        except Exception as e:  # noqa
            _report(acc, (f"sequence:raises-{type(e).__name__}", "the package raised while a sequence of "
                          "constructions was judged", repr(e), "no exception"), case)
        finally:
            _pristine()
    else:
        v, outcome, feats, nt = check_case(case, acc)
        _report(acc, v, case)
    acc.case()


def selftest():
    sgr.selftest()
    # literal expectations of tests/test_color.py read through the same path as the check
    from mc import core
    acc = core.Acc()
    for c, b, eff in [((4, 1, 1), None, {"bold": True}), (167, None, {"bold": True}), ("g5", None, {"bold": True}),
                      ("YELLOW", "BLUE", {"bold": True, "underline": True, "blink": True, "crossed": True})]:
        case = {"kind": "fmt", "color": enc(c), "bg": enc(b), "eff": eff, "no_color": False}
        v = check_case(case, acc)[0]
        assert v is None or v[0].startswith("strip-misses"), v
    for bad in (-5, 256, "g25", (1, 1, 6), (1, 1), "BAD_COLOR"):
        case = {"kind": "fmt", "color": enc(bad), "bg": None, "eff": {}, "no_color": False}
        v, outcome, _, _ = check_case(case, acc)
        assert v is None and outcome == "rejected", (bad, v, outcome)
