"""C03 — left-recursive grammars are rejected; accepted grammars always terminate (DESIGN.md §2 C03).

Space (every member is visited, nothing sampled)
  sized   : every grammar over the non-terminal names (A,B) / (A,B,C) and the terminal x (thorough: x,y)
            with <= 2 alternatives per symbol, alternative length <= 3 and total size <= the bound.
            Because *every* function name -> alternative list is enumerated, every assignment of names to
            roles is covered (the constructor walks symbols in name order); every symbol is tried as start
            symbol; thorough additionally hands the productions dict over in reversed insertion order.
  hidden  : directed family "recursive symbol behind nullable prefixes" (models.grammar.family_hidden)
            under all 24 assignments of the names A,B,C,E to the four roles, start symbol = role R
            (thorough: R and S).
  dictedit: 2-step construction sequences on ONE productions dict object that is edited in place between
            the calls (insert a cycle-closing alternative into an acyclic grammar / remove it again): every
            constructor call is judged on the current content of the dict.
  both smart_factorization settings; for every accepted grammar all token strings of length <= L.

Oracle 1: GrammarIsRecursive  <=>  the reference left-reach relation has a cycle.
Oracle 2: every parse of an accepted grammar ends with a tree / ParsingError within the stack depth bound
          of mc.llharness.depth_bound (a sound witness of unbounded growth); a step budget and a
          wall-clock watchdog are safety nets so that the check itself always terminates.
"""

import itertools

from mc import llharness as H
from models import grammar as G

ID = "C03"
TITLE = "Left-recursive grammars are rejected; accepted grammars always terminate"
TECHNIQUE = ("bounded exhaustive grammar enumeration over all name assignments; reference left-reach "
             "cycle test; parse-stack depth bound as non-termination witness")
DESIGN_REF = "§2 C03"
LEVEL_TEXT = ("Every grammar up to the size bound (2-3 non-terminals, all name assignments, every start "
              "symbol, both factorization modes) plus the directed 'recursion hidden behind nullable "
              "prefixes' family is given to the real constructor and compared with an independent "
              "left-reach cycle test; every accepted grammar parses every token string up to the length "
              "bound under a stack-depth bound that soundly witnesses unbounded growth.")
LEVEL_NOTE = ("Small-scope: grammars with more than 4 non-terminals, alternatives longer than 3, inputs "
              "longer than the bound are not covered. Trusted: models/grammar.py (nullable, left-reach), "
              "the argument in mc/llharness.depth_bound, the _StackElement seam.")
RULE = ("case = one (grammar, start symbol, dict order): the constructor verdict is compared with the "
        "reference cycle test in both factorization modes and every accepted mode parses all inputs up to "
        "the length bound. Distinct by construction (distinct alternative lists / names / start / order). "
        "Non-trivial: some alternative has a non-terminal behind a non-empty nullable prefix, so the "
        "recursion test has to look behind nullable symbols (grammars that are only trivially, "
        "first-position, recursive do not count).")
ASSUMPTIONS = [
    "constructor rejections other than GrammarIsRecursive (GrammarError, AssertionError) put a grammar "
    "outside the domain; they are counted, not alarmed on",
    "a parse-stack entry is one expansion (symbol, start position): the depth bound argument of "
    "mc/llharness.depth_bound",
    "inputs are tokenizable texts over the grammar's token alphabet (lexical errors are C04's business)",
]
REQUIRED_FEATURES = ["ref:left-recursive", "ref:not-left-recursive", "ref:cycle-behind-nullable-prefix",
                     "ref:cycle-first-position", "impl:GrammarIsRecursive", "impl:accepted",
                     "grammar:nullable-before-nonterminal", "parse:tree", "parse:ParsingError",
                     "names:recursive-symbol-sorts-after-nullable-prefix",
                     "names:recursive-symbol-sorts-before-nullable-prefix",
                     "history:same-productions-dict-edited-then-constructed-again",
                     "history:dict-edit:insert-cycle", "history:dict-edit:remove-cycle"]

_SIZED = {
    # name: (non-terminals, terminals, max_alts, max_len, max_size, input length, shards)
    "quick": [("AB", "x", 2, 3, 6, 3, 8), ("ABC", "x", 2, 2, 5, 3, 40)],
    "thorough": [("AB", "xy", 2, 3, 6, 4, 16), ("ABC", "x", 2, 3, 6, 4, 120), ("ABC", "xy", 2, 2, 5, 3, 40)],
}
_HIDDEN_L = {"quick": 3, "thorough": 4}
_HIDDEN_STARTS = {"quick": 1, "thorough": 2}      # start symbol: role R / roles R and S
_HIDDEN_PREFIX = {"quick": 2, "thorough": 3}      # longest nullable prefix in front of the recursive symbol
NAMES4 = ("A", "B", "C", "E")


def bounds(tier):
    b = {"sized_spaces": [
        {"non_terminals": list(n), "terminals": list(t), "max_alternatives": ma, "max_alt_len": ml,
         "max_total_size": ms, "grammars": G.count_sized(len(n), len(t), ma, ml, ms),
         "start_symbols": "every non-terminal", "input_len_max": L,
         "dict_orders": 2 if tier == "thorough" else 1}
        for n, t, ma, ml, ms, L, _ in _SIZED[tier]],
        "hidden_family": {"grammars_per_name_assignment":
                          sum(1 for _ in G.family_hidden(NAMES4, "xy", _HIDDEN_PREFIX[tier])),
                          "nullable_prefix_len_max": _HIDDEN_PREFIX[tier],
                          "name_assignments": 24, "start_symbols": _HIDDEN_STARTS[tier], "input_len_max": _HIDDEN_L[tier]},
        "modes": ["smart_factorization=True", "smart_factorization=False"],
        "dict_edit_sequences": {"base_grammars": "acyclic grammars over (A, B) / x, size <= 3",
                                "edits": len(_dict_edit_cases()), "directions": 2, "start_symbols": 2},
        "step_budget": H.STEP_BUDGET}
    return b


def _dict_edit_cases():
    """2-step construction sequences on ONE productions dict object: every acyclic grammar over (A, B) / x
    with total size <= 3 x every alternative of a small menu inserted (front / end) into one symbol's list
    such that the edited grammar is left recursive.  Each case is run in both directions: construct, insert
    in place, construct again -- and: construct the edited one, remove in place, construct again."""
    out = []
    for prods in G.enum_sized(("A", "B"), ("x",), 2, 2, 3):
        pm = dict(prods)
        if G.left_cycle(pm):
            continue
        for sym, other in (("A", "B"), ("B", "A")):
            for alt in ((sym,), (sym, "x"), (other,), (other, sym), (other, "x")):
                if alt in pm[sym]:
                    continue
                for pos in ("front", "end"):
                    new = ((alt,) + pm[sym]) if pos == "front" else (pm[sym] + (alt,))
                    if G.left_cycle(dict(pm, **{sym: new})):
                        out.append((prods, sym, alt, pos))
    return out


def run_dict_edits(acc, inputs_L=3, only=None):
    cfg = G.letters_cfg("x")
    inputs = _inputs(cfg, inputs_L)
    cases = _dict_edit_cases() if only is None else [only[:4]]
    for prods, sym, alt, pos in cases:
        for direction in (("insert", "remove") if only is None else (only[4],)):
            for smart in ((True, False) if only is None else (only[5],)):
                for start in ("A", "B"):
                    if only is not None and start != only[6]:
                        continue
                    # the dict object and its lists are owned here and edited in place
                    d = {x: [a if a else None for a in alts] for x, alts in prods}
                    item = alt
                    def put():
                        d[sym].insert(0, item) if pos == "front" else d[sym].append(item)
                    def take():
                        d[sym].remove(item)
                    if direction == "remove":
                        put()
                    feats = ["history:same-productions-dict-edited-then-constructed-again",
                             "history:dict-edit:" + direction + "-cycle"]
                    steps = []
                    bad = None
                    for step in (0, 1):
                        cur = tuple((x, tuple(a if a is not None else () for a in alts)) for x, alts in d.items())
                        cyc = G.left_cycle(dict(cur))
                        with H.Watchdog():
                            res, p = H.build_from_dict(cfg, start, d, smart)
                        acc.trans()
                        steps.append(res)
                        if res == "ok" and cyc:
                            bad = ("left-recursion-not-rejected:" + G.cycle_kind(dict(cur)), cur, cyc)
                            for toks in inputs:
                                r, _ = H.parse(p, cfg, toks)
                                acc.trans()
                                if r.startswith("abort"):
                                    feats.append("history:dict-edit:accepted-cycle-does-not-terminate")
                                    break
                        elif res == "recursive" and not cyc:
                            bad = ("grammar-without-left-recursion-rejected", cur, cyc)
                        if bad:
                            # is it the history, or does a fresh dict with the same content fail as well?
                            fres, _ = H.build(cfg, start, bad[1], smart)
                            acc.trans()
                            suffix = "" if fres == res else ":same-productions-dict-edited-in-place"
                            case = G.to_case(cfg, start, prods, smart=smart, dict_edit={
                                "symbol": sym, "alt": list(alt), "pos": pos, "direction": direction})
                            acc.violation("C03:" + bad[0] + suffix, case,
                                          f"construction {step + 1} of 2 from one productions dict object "
                                          f"({direction} {sym}→{' '.join(alt)} in place between the calls): the "
                                          f"constructor answered {res!r} for the current content "
                                          f"{G.show(bad[1], start)} (reference: cycle through {bad[2] or 'nothing'})",
                                          res, "GrammarIsRecursive" if bad[2] else "a parser")
                            break
                        if step == 0:
                            take() if direction == "remove" else put()
                    acc.case(nontrivial=True, features=feats, outcome="/".join(steps) + ("!" if bad else ""),
                             traces=2)


def shards(tier):
    sh = [("dictedit",)]
    for i, (n, t, ma, ml, ms, L, K) in enumerate(_SIZED[tier]):
        sh += [("sized", i, k, K) for k in range(K)]
    sh += [("hidden", list(p)) for p in itertools.permutations(NAMES4)]
    return sh


# ------------------------------------------------------------------------------------ one case
def _features(pm, cyc):
    nul = G.nullables(pm)
    feats = []
    before = False
    for x, alts in pm.items():
        for a in alts:
            for i, s in enumerate(a):
                if i > 0 and s in pm and all(u in nul for u in a[:i]):
                    before = True
                    if cyc and s in cyc:
                        # name order between the nullable prefix and the recursive symbol
                        if any(u < s for u in a[:i]):
                            feats.append("names:recursive-symbol-sorts-after-nullable-prefix")
                        if any(u > s for u in a[:i]):
                            feats.append("names:recursive-symbol-sorts-before-nullable-prefix")
    if before:
        feats.append("grammar:nullable-before-nonterminal")
    return sorted(set(feats)), before


def check_grammar(cfg, start, prods, inputs, acc, modes=(True, False), tag=None):
    """Explore one case.  -> (features, nontrivial, outcome label); violations go to acc."""
    pm = dict(prods)
    cyc = G.left_cycle(pm)
    kind = G.cycle_kind(pm)
    feats, before = _features(pm, cyc)
    feats.append("ref:left-recursive" if cyc else "ref:not-left-recursive")
    if cyc:
        feats.append("ref:cycle-" + kind)
    outcome = []
    n_sym = len(pm)

    def case(smart, toks=None):
        c = G.to_case(cfg, start, prods, smart=smart)
        if toks is not None:
            c["input"] = [list(t) for t in toks]
        if tag:
            c["tag"] = tag
        return c

    for smart in modes:
        with H.Watchdog():
            try:
                res, p = H.build(cfg, start, prods, smart)
            except H.Abort:
                res, p = "abort:watchdog", None
            acc.trans()
            if res == "recursive":
                feats.append("impl:GrammarIsRecursive")
                outcome.append("R")
                if not cyc:
                    acc.violation("C03:grammar-without-left-recursion-rejected", case(smart),
                                  f"GrammarIsRecursive for a grammar in which no symbol reaches itself "
                                  f"without consuming a token: {G.show(prods, start)}",
                                  "GrammarIsRecursive", "constructor accepts (reference: no cycle)")
                continue
            if res != "ok":
                # a left-recursive grammar must be answered with GrammarIsRecursive, whatever else is wrong
                # with it for the constructor; a constructor that does not come back answers nothing.
                # (Another exception for a grammar without left recursion is outside the statement.)
                if res.startswith("abort") or (cyc and res.startswith("raised")):
                    acc.violation("C03:constructor-" + res.replace(":", "-"), case(smart),
                                  f"constructor did not finish normally ({res}) on {G.show(prods, start)}",
                                  res, "GrammarIsRecursive" if cyc else "a parser")
                feats.append("impl:outside-domain:" + res)
                outcome.append("X")
                continue
            feats.append("impl:accepted")
            if cyc:
                outcome.append("a!")
                acc.violation("C03:left-recursion-not-rejected:" + kind, case(smart),
                              f"no GrammarIsRecursive although {cyc} reach themselves without consuming a "
                              f"token: {G.show(prods, start)}",
                              "constructor accepted the grammar", f"GrammarIsRecursive (cycle through {cyc})")
            else:
                outcome.append("a")
            # ---- oracle 2: every input terminates
            worst = None
            for toks in inputs:
                try:
                    r, payload = H.parse(p, cfg, toks)
                except H.Abort:
                    r, payload = "abort:watchdog", None
                acc.trans()
                acc.note_max("pushes_of_a_terminating_parse" if not r.startswith("abort") else "pushes_at_abort",
                             H.MON.pushes)
                if r == "tree":
                    feats.append("parse:tree")
                elif r == "ParsingError":
                    feats.append("parse:ParsingError")
                else:
                    worst = (r, toks, payload, H.MON.pushes, H.MON.max_depth, H.MON.depth_bound)
                    break        # the shortest failing input of this grammar is the witness
            if worst is not None:
                r, toks, payload, pushes, depth, bound = worst
                outcome.append("!" + r)
                if r == "abort:depth-bound":
                    sig = "C03:parse-does-not-terminate:" + \
                        ("accepted-left-recursive-grammar" if cyc else "grammar-without-left-recursion")
                    msg = (f"parse of {cfg.text(toks)!r} grows its stack without bound (depth {depth} > "
                           f"bound {bound} after {pushes} pushes): {G.show(prods, start)}")
                elif r.startswith("abort"):
                    sig = "C03:parse-" + r.replace(":", "-")
                    msg = f"parse of {cfg.text(toks)!r} did not finish ({r}, {pushes} pushes): {G.show(prods, start)}"
                else:
                    sig = "C03:parse-" + r.replace(":", "-")
                    msg = (f"parse of {cfg.text(toks)!r} neither returned a tree nor raised a parsing "
                           f"error: {payload}: {G.show(prods, start)}")
                acc.violation(sig, case(smart, toks), msg, r, "a tree or ParsingError")
    nontrivial = bool(before)
    return sorted(set(feats)), nontrivial, "".join(outcome) + ("/cyc" if cyc else "/acyc")


def _inputs(cfg, L):
    return G.all_inputs(cfg, L)


def run_shard(shard, tier, seed, acc):
    if shard[0] == "dictedit":
        run_dict_edits(acc, 3 if tier == "quick" else 4)
        return
    if shard[0] == "sized":
        _, i, k, K = shard
        nts, terms, ma, ml, ms, L, _ = _SIZED[tier][i]
        cfg = G.letters_cfg(terms)
        inputs = _inputs(cfg, L)
        orders = (False, True) if tier == "thorough" else (False,)
        n = 0
        for prods in G.enum_sized(tuple(nts), tuple(terms), ma, ml, ms, (k, K)):
            for rev in orders:
                pr = tuple(reversed(prods)) if rev else prods
                for start in nts:
                    feats, nt, out = check_grammar(cfg, start, pr, inputs, acc)
                    acc.case(nontrivial=nt, features=feats, outcome=out, traces=2)
                    n += 1
                    if nt and n % 97 == 0:
                        acc.sample(G.show(pr, start))
            if n % 512 == 0 and acc.expired():
                return
        return
    if shard[0] == "hidden":
        names = tuple(shard[1])
        cfg = G.letters_cfg("xy")
        inputs = _inputs(cfg, _HIDDEN_L[tier])
        n = 0
        for prods in G.family_hidden(names, "xy", _HIDDEN_PREFIX[tier]):
            for start in names[:_HIDDEN_STARTS[tier]]:
                feats, nt, out = check_grammar(cfg, start, prods, inputs, acc)
                acc.case(nontrivial=nt, features=feats + ["family:hidden"], outcome=out, traces=2)
                n += 1
                if n % 499 == 0:
                    acc.sample(G.show(prods, start))
            if n % 512 == 0 and acc.expired():
                return
        return
    raise ValueError(shard)


def replay(case, acc):
    cfg, start, prods = G.from_case(case)
    if case.get("dict_edit"):
        e = case["dict_edit"]
        run_dict_edits(acc, only=(prods, e["symbol"], tuple(e["alt"]), e["pos"], e["direction"],
                                  case["smart"], start))
        return
    if case.get("input") is not None:
        inputs = [tuple(tuple(t) for t in case["input"])]
    else:
        inputs = _inputs(cfg, 3)
    modes = (case["smart"],) if "smart" in case else (True, False)
    feats, nt, out = check_grammar(cfg, start, prods, inputs, acc, modes=modes, tag=case.get("tag"))
    acc.case(nontrivial=nt, features=feats, outcome=out)


def selftest():
    """The reference cycle test reproduces the expectation of TestBadGrammar.test_resursive_grammar and
    classifies the grammars of the other test classes as not left recursive (models.grammar.selftest);
    here: the real constructor agrees on the repository's own example."""
    G.selftest()
    cfg = G.TokCfg("t", r"(?P<SPACE>\s+)|(?P<WORD>[a-zA-Z_][a-zA-Z0-9_]*)", [("WORD", "w")])
    prods = (("E", (("X", "WORD"),)), ("X", (("NN",),)), ("NN", (("GG", "TT", "WORD"), ())),
             ("GG", (("WORD",), ())), ("TT", (("X", "WORD"), ())))
    assert G.left_cycle(dict(prods))
    res, _ = H.build(cfg, "E", prods, True)
    assert res == "recursive", res
