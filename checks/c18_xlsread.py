"""C18 — objects read from a sheet match their source cells (DESIGN.md §2 C18).

Every (sheet, rule set, mode) of the families below is read by the real ak.xlsread (read_table /
XlsTableReader.iter_table) from a duck-typed worksheet (models/xls_model.FakeSheet: .title,
.iter_rows() -> tuples of cells with .value/.coordinate/.parent, rows starting at column A) and
compared, object by object and attribute by attribute (value, get_attr_origin with and without
range key), with a reference reader over the raw grid (models/xls_model.reference_read).

Families (all members visited):
  layout : for each of 10 rule sets (plain int/str/bool, optional with default, external, CellRangeDict,
           CellRangeSet, two key columns, list/set cells, optional range, no key, two objects per row):
           every title row of <= 5 columns (quick) / <= 6 (thorough) made of the rule set's titles
           (required ones exactly once, optional ones at most once), unknown titles and blank titles
           x 0..2 leading blank rows x column anchor {0, 24: the table starts in column Y, so a
           three-column range spans Z, AA, AB} x mode {plain "blank all", plain "blank first", ladder}
           with two fully filled data rows
  rows   : for 7 rule sets and each of their small title rows (every permutation; up to one extra
           unknown / blank-titled column while the width stays <= 3 (quick) / <= 4 (thorough)):
           every blank / non-blank pattern of <= 3 (quick) / <= 4 (thorough; 3 for width 4) data rows
           x the three modes.  Ladder tables are all of these sheets read with ladder_format=True
           (this contains every sheet obtained from a plain one by blanking a prefix run), each also
           compared with the real reader's result on the filled-in sheet.
           Every pattern is visited twice: with generic values and with every int / bool cell holding the
           falsy value 0 / False (a cell that is not blank although it is falsy).
  seq    : two sheets with different title rows read one after the other with the same classes and rule objects
           in a freshly reloaded ak.xlsread (4 rule sets, every ordered pair of their small title rows).
  mixin  : the declarative spelling (class with the TableReader mixin: ATTR_RULES, STOP_ON, LADDER_FORMAT) for two
           rule sets x their title rows x every blank pattern of <= 2 data rows x the three modes.
  keep   : for the rule sets with two objects per row (and one single-object rule set) every sheet of the layout
           family at anchor 0 and of the rows family (generic values) is read a second time through XlsTableReader(...).iter_table by a consumer that keeps all
           yielded row lists (rows = list(...); zip(*rows)) and inspects them afterwards.
  shared : ONE XlsObjReadRules object used by two XlsTableReaders over two sheets (every ordered pair of the small title
           rows of 4 rule sets, 3 data rows each): the two iter_table generators consumed in turns (zip) and, as
           control, one after the other; each reader must read its own sheet's columns.
  classes: reader classes with the TableReader mixin: a base class, a subclass overriding ATTR_RULES (other title,
           converter, default; optionally STOP_ON), a subclass of that overriding nothing, an unrelated class; every
           sequence of <= 3 reads over the four classes (84) x 8 sheets (optional columns present / absent,
           column order) x {plain, subclass STOP_ON='blank first', base LADDER_FORMAT=True}, each from freshly loaded module and classes.
  cells  : every documented raw value of every cell type, whitespace variants of blank cells / titles.
"""

from models import xls_model as X

ID = "C18"
TITLE = "Objects read from a sheet match their source cells"
TECHNIQUE = "bounded exhaustive enumeration of sheets x rule sets x modes against a reference reader over the raw grid"
DESIGN_REF = "§2 C18"
LEVEL_TEXT = ("Every title row of up to 5/6 columns for 10 rule sets (x leading blank rows x column anchor 0/24 x "
              "plain both end rules / ladder) and every blank/non-blank pattern of up to 3/4 data rows over the small "
              "title rows of 7 rule sets are read by the real reader from a fake worksheet; values, None rows, "
              "origins (per attribute, per range key, range description) are compared with a reference reader, "
              "ladder results also with the real reader on the filled-in sheet.")
LEVEL_NOTE = ("Small scope: at most 6 table columns / 4 data rows; non-blank cells hold one generic valid value "
              "per column type in the row-pattern family (all documented raw values only in single-cell sheets); "
              "duplicate titles, required columns missing, text in int columns and whitespace-only key cells are "
              "outside the domain. Trusted: the fake worksheet mimics openpyxl (rows are tuples starting at column "
              "A), models/xls_model.py.")
RULE = ("case = one (sheet grid, rule set, stop rule, ladder flag); distinct by construction. Non-trivial: at least "
        "one object is produced and the sheet is not the canonical one (columns permuted, extra or blank-titled "
        "column, leading blank rows, anchor, blank cell, early end, None row, ladder substitution, ranged attribute).")
ASSUMPTIONS = [
    "titles are distinct; every required column is present (a missing one is documented to raise ValueError; counted only)",
    "cells hold values their column's converter accepts; key cells are never whitespace-only text",
    "ladder tables use the 'blank all' end rule (with 'blank first' a blank first cell would be both 'same as above' and 'end')",
    "a ladder cell standing for a blank cell above may report any cell of that blank run as its origin",
    "a ranged attribute collects the first contiguous run of titled columns not named by any rule (documented algorithm)",
]
REQUIRED_FEATURES = [
    "mode:plain-blank-all", "mode:plain-blank-first", "mode:ladder", "anchor:0", "anchor:24",
    "lead:0", "lead:1", "lead:2", "layout:permuted", "layout:unknown-extra-column", "layout:blank-title-column",
    "cell:blank", "cell:falsy-not-blank", "end:content-after-end-row", "end:blank-first-cuts-nonblank-row", "row:none",
    "attr:optional-present", "attr:optional-absent", "attr:external", "attr:range-dict", "attr:range-set",
    "range:spans-Z-AA", "range:empty", "range:single", "range:several", "range:stray-second-run",
    "ladder:filled", "ladder:blank-after-first-nonblank", "ladder:multi-row-chain", "ladder:fill-across-range",
    "type:int", "type:str", "type:bool", "type:list", "type:set", "objects:two-per-row", "keys:two",
    "cells:whitespace-blank", "outside-domain", "seq:two-reads", "via:table-reader-mixin",
    "classes:subclass-after-base", "classes:base-after-subclass", "classes:unrelated-class-between",
    "classes:rules-inherited-unchanged", "consumer:keeps-yielded-rows",
    "consumer:keeps-yielded-rows-of-several-objects", "shared-rules:interleaved", "shared-rules:sequential",
    "shared-rules:different-column-order",
]


# ------------------------------------------------------------------------------------------ rule sets
def _p(name, title, typ, **kw):
    d = {"name": name, "kind": "plain", "title": title, "type": typ}
    d.update(kw)
    return d


RULESETS = {
    "plain3": {"objects": [{"num_id": 1, "attrs": [_p("id", "Id", "int"), _p("name", "Name", "str"),
                                                  _p("flag", "Flag", "bool")]}]},
    "plain2": {"objects": [{"num_id": 1, "attrs": [_p("id", "Id", "int"), _p("name", "Name", "str")]}]},
    "optional": {"objects": [{"num_id": 1, "attrs": [_p("id", "Id", "int"), _p("name", "Name", "str"),
                                                    _p("opt", "Opt", "int", default=42)]}]},
    "external": {"objects": [{"num_id": 1, "attrs": [
        _p("id", "Id", "int"), {"name": "ext", "kind": "external", "default": 17, "spelling": "tuple"},
        {"name": "skip", "kind": "external", "default": None, "spelling": "none"}, _p("name", "Name", "str")]}]},
    "rdict": {"objects": [{"num_id": 1, "attrs": [_p("id", "Id", "int"), _p("name", "Name", "str"),
                                                 {"name": "grades", "kind": "range", "type": "dict:int"}]}]},
    "rset": {"objects": [{"num_id": 0, "attrs": [_p("id", "Id", "int"),
                                                {"name": "tags", "kind": "range", "type": "set:bool"},
                                                _p("name", "Name", "str")]}]},
    "twokey": {"objects": [{"num_id": 2, "attrs": [_p("k1", "K1", "int"), _p("k2", "K2", "str"),
                                                  _p("v", "V", "int")]}]},
    "lists": {"objects": [{"num_id": 1, "attrs": [_p("id", "Id", "int"), _p("items", "Items", "list"),
                                                 _p("uniq", "Uniq", "set")]}]},
    "rdictopt": {"objects": [{"num_id": 1, "attrs": [
        _p("id", "Id", "int"), {"name": "grades", "kind": "range", "type": "dict:int", "default": None}]}]},
    "nokey": {"objects": [{"num_id": 0, "attrs": [_p("a", "A", "int"), _p("b", "B", "str")]}]},
    "twoobj": {"objects": [
        {"num_id": 1, "attrs": [_p("id", "Id", "int"), {"name": "grades", "kind": "range", "type": "dict:int"}]},
        {"num_id": 1, "attrs": [_p("name", "Name", "str"), _p("score", "Score", "int")]}]},
}
# reader classes of the 'classes' family: TrBase(XlsObject, TableReader); TrSub(TrBase) overrides ATTR_RULES (other
# title, other converter, other default); TrSub2(TrSub) overrides nothing; TrOther is unrelated.
RULESETS["tr_base"] = {"objects": [{"num_id": 1, "attrs": [
    _p("id", "Id", "int"), _p("name", "Name", "str"), _p("opt", "Opt", "int", default=42)]}]}
RULESETS["tr_sub"] = {"objects": [{"num_id": 1, "attrs": [
    _p("id", "Id", "int"), _p("name", "Full name", "str"), _p("opt", "Tags", "list", default=0)]}]}
RULESETS["tr_other"] = {"objects": [{"num_id": 1, "attrs": [
    _p("id", "Key", "int"), _p("name", "Name", "str"),
    {"name": "opt", "kind": "external", "default": 7, "spelling": "tuple"}]}]}
TR_RULESET = {"base": "tr_base", "sub": "tr_sub", "sub2": "tr_sub", "other": "tr_other"}
_TR = {}          # name -> real class, set by run_classes for the duration of one case

RULESETS["twoobj2"] = {"objects": [{"num_id": 1, "attrs": [_p("id", "Id", "int")]},
                                   {"num_id": 1, "attrs": [_p("name", "Name", "str")]}]}
LAYOUT_RULESETS = ["plain3", "optional", "external", "rdict", "rset", "twokey", "lists", "rdictopt", "nokey",
                   "twoobj", "twoobj2", "plain2"]
ROWS_RULESETS = ["plain2", "twokey", "rdict", "rset", "nokey", "optional", "rdictopt", "twoobj2"]
KEEP_RULESETS = ("twoobj", "twoobj2", "plain2")     # also read through XlsTableReader by a consumer that keeps the rows


def _vias(rsname):
    return ("function", "reader-keep") if rsname in KEEP_RULESETS else ("function",)

_REAL = {}


def _real(rsname):
    """Real classes and rule dicts for a rule set (built once per process; they hold no per-read state)."""
    r = _REAL.get(rsname)
    if r is not None:
        return r
    from ak import xlsread as xr
    types = {"int": xr.cell_int, "str": xr.cell_str, "bool": xr.cell_bool, "list": xr.cell_list,
             "set": xr.cell_set, "list0": xr.CellList(none_values=[])}
    out = []
    for k, o in enumerate(RULESETS[rsname]["objects"]):
        cls = type(f"Xl_{rsname}_{k}", (xr.XlsObject,),
                   {"_ATTRS": [a["name"] for a in o["attrs"]], "_NUM_ID_ATTRS": o["num_id"]})
        rules = _rules_from_spec(o, xr, types)
        out.append((cls, rules))
    _REAL[rsname] = out
    return out


def _cell_types(xr):
    return {"int": xr.cell_int, "str": xr.cell_str, "bool": xr.cell_bool, "list": xr.cell_list,
            "set": xr.cell_set, "list0": xr.CellList(none_values=[])}


def _rules_from_spec(o, xr, types):
    if True:
        rules = {}
        for a in o["attrs"]:
            if a["kind"] == "plain":
                if "default" in a:
                    rules[a["name"]] = (a["title"], types[a["type"]], {"default_val": a["default"]})
                else:
                    rules[a["name"]] = (a["title"], types[a["type"]])
            elif a["kind"] == "external":
                if a["spelling"] == "none":
                    rules[a["name"]] = None
                else:
                    rules[a["name"]] = (None, None, {"default_val": a["default"]})
            else:
                kind, ctype = a["type"].split(":")
                reader = (xr.CellRangeDict if kind == "dict" else xr.CellRangeSet)(types[ctype])
                if "default" in a:
                    rules[a["name"]] = ("*", reader, {"default_val": a["default"]})
                else:
                    rules[a["name"]] = ("*", reader)
        return rules


def real_read(rsname, grid, stop_on, ladder, via="function"):
    """-> list of rows, each a list with one entry (object or None) per object of the rule set."""
    from ak import xlsread as xr
    ws = X.FakeSheet("sheet1", grid)
    if via.startswith("tr:"):
        return [[o] for o in _TR[via[3:]].read_list(ws)]
    real = _real(rsname)
    if via == "reader-keep":
        # a consumer of the public multi-object entry point that keeps every yielded row and looks afterwards
        reader = xr.XlsTableReader(*[xr.XlsObjReadRules(cls, rules) for cls, rules in real])
        kept = list(reader.iter_table(ws, stop_on=stop_on, ladder_format=ladder))
        by_object = list(zip(*kept)) if kept else []
        return [[col[r] for col in by_object] for r in range(len(kept))]
    if via == "mixin":
        # the declarative spelling: a class with the TableReader mixin carrying rules and table options
        cls, rules = real[0]
        mixed = type(cls.__name__ + "_T", (cls, xr.TableReader),
                     {"ATTR_RULES": rules, "STOP_ON": stop_on, "LADDER_FORMAT": ladder})
        return [[o] for o in mixed.read_list(ws)]
    if len(real) == 1:
        cls, rules = real[0]
        return [[o] for o in xr.read_table(ws, cls, rules, stop_on=stop_on, ladder_format=ladder)]
    reader = xr.XlsTableReader(*[xr.XlsObjReadRules(cls, rules) for cls, rules in real])
    return [list(r) for r in reader.iter_table(ws, stop_on=stop_on, ladder_format=ladder)]


# ------------------------------------------------------------------------------------------ sheets
ANCHORS = (0, 24)


def make_grid(case):
    """case["rows"]: title row + data rows of the table part; "lead" blank rows above; "anchor" blank columns left."""
    width = len(case["rows"][0])
    pad = [None] * case["anchor"]
    grid = [pad + [None] * width for _ in range(case["lead"])]
    grid += [pad + list(r) for r in case["rows"]]
    return grid


def _attr_of_title(rs):
    m = {}
    for o in rs["objects"]:
        for a in o["attrs"]:
            if a["kind"] == "plain":
                m[a["title"]] = a
    return m


def _range_type(rs):
    for o in rs["objects"]:
        for a in o["attrs"]:
            if a["kind"] == "range":
                return a["type"].split(":")[1]
    return None


def generic_value(rs, title, r, c, falsy=False):
    """The one valid non-blank value used for column `title` in data row r, column c.
    falsy=True: the variant in which every cell that can hold a falsy non-blank value does (0 / False)."""
    a = _attr_of_title(rs).get(title)
    if a is not None:
        t = a["type"]
    elif title == "":
        return 0 if falsy else f"j{r}{c}"      # junk under a blank title
    else:
        t = _range_type(rs) or "stray"
    if t == "int":
        return 0 if falsy else 10 * (r + 1) + c
    if t == "str":
        return f"s{r}{c}"
    if t == "bool":
        return False if falsy else "v"
    if t == "stray" and falsy:
        return 0
    if t in ("list", "list0"):
        return f"a{r},b{c}"
    if t == "set":
        return f"x{r}\ny{c}, x{r}"
    return f"u{r}{c}"


def title_rows(rs, maxlen, max_u=3, max_b=2):
    """Every title row of length <= maxlen: required titles exactly once, optional at most once,
    unknown titles U1.. (numbered left to right) and blank titles."""
    plain = [a for o in rs["objects"] for a in o["attrs"] if a["kind"] == "plain"]
    required = [a["title"] for a in plain if "default" not in a]
    optional = [a["title"] for a in plain if "default" in a]
    need_u = any(a["kind"] == "range" and "default" not in a for o in rs["objects"] for a in o["attrs"])
    out = []

    def rec(seq, used, nu, nb):
        if len(seq) >= len(required) and all(t in used for t in required):
            if not need_u or nu > 0:
                out.append(list(seq))
        if len(seq) == maxlen:
            return
        for t in required + optional:
            if t not in used:
                rec(seq + [t], used | {t}, nu, nb)
        if nu < max_u:
            rec(seq + [f"U{nu + 1}"], used, nu + 1, nb)
        if nb < max_b:
            rec(seq + [""], used, nu, nb + 1)

    rec([], frozenset(), 0, 0)
    # a title row must hold at least one title, which `required` guarantees (every rule set has one)
    return out


def small_title_rows(rs, maxlen):
    """Title rows of the row-pattern family: all permutations of the minimal column set (+1 unknown column for a
    required range) and, while the width stays <= maxlen, one extra unknown or blank-titled column anywhere."""
    plain = [a for o in rs["objects"] for a in o["attrs"] if a["kind"] == "plain"]
    nreq = len([a for a in plain if "default" not in a])
    need_u = any(a["kind"] == "range" and "default" not in a for o in rs["objects"] for a in o["attrs"])
    base = nreq + (1 if need_u else 0)
    return [t for t in title_rows(rs, maxlen, max_u=2, max_b=1) if len(t) <= base + 1]


# ------------------------------------------------------------------------------------------ judging one case
def _attr_kind(a, bd):
    if a["kind"] == "plain":
        if "default" in a:
            return "optional-present" if bd[0] == "col" else "optional-absent"
        return "plain"
    if a["kind"] == "external":
        return "external"
    return "range-" + a["type"].split(":")[0]


def _mode(case):
    return "ladder" if case["ladder"] else "plain-" + case["stop_on"].replace(" ", "-")


def _features(case, rs, exp, info, grid):
    f = {"mode:" + _mode(case), f"anchor:{case['anchor']}", f"lead:{case['lead']}"}
    titles = info.get("titles", [])
    plain_order = [a["title"] for o in rs["objects"] for a in o["attrs"] if a["kind"] == "plain"]
    present = [t for t in titles if t in plain_order]
    if present != [t for t in plain_order if t in present]:
        f.add("layout:permuted")
    if any(t for t in titles if t not in plain_order):
        f.add("layout:unknown-extra-column")
    if "" in titles:
        f.add("layout:blank-title-column")
    if any(v is None for r in case["rows"][1:] for v in r):
        f.add("cell:blank")
    if any(v is not None and not v and not X.is_blank(v) for r in case["rows"][1:] for v in r):
        f.add("cell:falsy-not-blank")
    f |= {x for x in info["flags"] if x != "lead-skipped"}
    if len(rs["objects"]) > 1:
        f.add("objects:two-per-row")
    if any(o["num_id"] >= 2 for o in rs["objects"]):
        f.add("keys:two")
    for o, b in zip(rs["objects"], info.get("bindings", [])):
        for a, bd in zip(o["attrs"], b):
            f.add("attr:" + _attr_kind(a, bd))
            if a["kind"] == "plain":
                f.add("type:" + a["type"])
            if bd[0] == "range":
                cols = [i for _, i in bd[1]]
                f.add("range:empty" if not cols else ("range:single" if len(cols) == 1 else "range:several"))
                if cols and cols[0] <= 25 < cols[-1]:
                    f.add("range:spans-Z-AA")
                known = set(plain_order)
                tt = info["titles"]
                if cols and any(t and t not in known for t in tt[cols[-1] + 1:]):
                    f.add("range:stray-second-run")
                if case["ladder"] and cols:
                    k = rs["objects"].index(o)
                    for ri, row in enumerate(exp):
                        if row[k] is not None and any(X.split_coord(c)[0] != info["title_row"] + 1 + ri
                                                      for c in row[k][a["name"]][1]["keys"].values()):
                            f.add("ladder:fill-across-range")
    return f


def judge(case, acc, got_given=None):
    """-> (features, outcome label, nontrivial, list of violations (sig, msg, observed, expected)).
    got_given: rows already read by the caller (or the exception the read raised) instead of reading here."""
    rs = RULESETS[case["rs"]]
    grid = make_grid(case)
    stop_on, ladder = case["stop_on"], bool(case["ladder"])
    try:
        exp, info = X.reference_read(grid, rs, stop_on, ladder)
    except X.OutsideDomain as e:
        return {"outside-domain"}, "outside-domain:" + str(e), False, []
    feats = _features(case, rs, exp, info, grid)
    if case.get("via") == "mixin":
        feats.add("via:table-reader-mixin")
    if case.get("via") == "reader-keep":
        feats.add("consumer:keeps-yielded-rows")
        if len(rs["objects"]) > 1:
            feats.add("consumer:keeps-yielded-rows-of-several-objects")
    viol = []
    lad = ":ladder" if ladder else ""
    acc.trans()
    try:
        if isinstance(got_given, Exception):
            raise got_given
        got = got_given if got_given is not None else \
            real_read(case["rs"], grid, stop_on, ladder, case.get("via", "function"))
    except Exception as e:  # noqa
        viol.append(("raises:" + type(e).__name__, f"reading the sheet raised {type(e).__name__}: {str(e)[:200]}",
                     type(e).__name__, f"{len(exp)} rows"))
        return feats, "violation", True, viol
    nobj = sum(1 for row in exp for o in row if o is not None)
    label = f"{len(exp)}rows/{sum(1 for row in exp for o in row if o is None)}none/" + \
        "+".join(sorted(x for x in info["flags"]))
    nontrivial = nobj > 0 and bool(feats - {"mode:plain-blank-all", "anchor:0", "lead:0", "type:int", "type:str",
                                            "type:bool", "attr:plain"})
    if len(got) != len(exp):
        viol.append((f"row-count:{_mode(case)}:" + ("too-many" if len(got) > len(exp) else "too-few"),
                     "number of data rows read differs from the end-of-table rule",
                     len(got), len(exp)))
        return feats, label, nontrivial, viol
    t0 = info["title_row"]

    def ok_coord(ri, col, want, have):
        return have == want or have in info["alt"].get((ri, col), ())

    for ri, (erow, grow) in enumerate(zip(exp, got)):
        for k, (e, g) in enumerate(zip(erow, grow)):
            o = rs["objects"][k]
            if (e is None) != (g is None):
                viol.append(("none-row" + lad, f"data row {ri}: object/None mismatch",
                             "None" if g is None else "object", "None" if e is None else "object"))
                continue
            if e is None:
                continue
            for a, bd in zip(o["attrs"], info["bindings"][k]):
                name = a["name"]
                kind = _attr_kind(a, bd)
                ev, eo = e[name]
                acc.trans()
                try:
                    gv = getattr(g, name)
                    go = g.get_attr_origin(name)
                except Exception as ex:  # noqa
                    viol.append((f"raises:{type(ex).__name__}", f"reading attribute {name} raised", repr(ex), "value"))
                    continue
                try:
                    gw = g.get_attr_origin(name, incl_ws=True)
                except Exception as ex:  # noqa
                    gw = "raised " + type(ex).__name__
                if gw != "sheet1 " + go:
                    viol.append(("origin-incl-ws", f"data row {ri}: origin of '{name}' with the worksheet name",
                                 gw, "sheet1 " + go))
                if not X.same(gv, ev):
                    viol.append((f"value:{kind}{lad}", f"data row {ri}: attribute '{name}' differs from the "
                                 f"converted source cell(s)", repr(gv), repr(ev)))
                if bd[0] == "col":
                    if not ok_coord(ri, bd[1], eo, go):
                        viol.append((f"origin:{kind}{lad}", f"data row {ri}: origin of '{name}'", go, eo))
                elif bd[0] == "default":
                    if go != eo:
                        viol.append((f"origin:{kind}", f"data row {ri}: origin of '{name}'", go, eo))
                else:
                    cols = eo["cols"]
                    keys = eo["keys"]
                    # per key
                    for (title, col) in bd[1]:
                        acc.trans()
                        try:
                            gk = g.get_attr_origin(name, title)
                        except Exception as ex:  # noqa
                            gk = "raised " + type(ex).__name__
                        if not ok_coord(ri, col, keys[title], gk):
                            viol.append((f"range-key-origin{lad}", f"data row {ri}: origin of '{name}'['{title}']",
                                         gk, keys[title]))
                    # whole range
                    if not cols:
                        okd = go == "<skipped column>"
                    elif len(cols) == 1:
                        okd = ok_coord(ri, cols[0], eo["descr"], go)
                    else:
                        first, last = eo["descr"].split(":")
                        parts = go.split(":")
                        okd = len(parts) == 2 and ok_coord(ri, cols[0], first, parts[0]) and \
                            ok_coord(ri, cols[-1], last, parts[1])
                    if not okd:
                        parts = go.split(":")
                        # both endpoints are source cells of this range, but not (first, last) in sheet order
                        inside = len(cols) >= 2 and len(parts) == 2 and parts[0] != parts[1] and \
                            all(p in keys.values() for p in parts)
                        sig = "range-origin-order" if inside else "range-origin-descr" + lad
                        viol.append((sig, f"data row {ri}: get_attr_origin('{name}') does not describe the source "
                                     f"cells {sorted(keys.values(), key=lambda c: X.split_coord(c)[::-1])} first:last "
                                     f"in sheet order", go, eo["descr"]))
    # ladder table == filled-in table (the real reader on both)
    if ladder and not viol:
        filled = X.fill_ladder(grid)
        acc.trans()
        try:
            got2 = real_read(case["rs"], filled, "blank all", False)
            sig = None
            if len(got2) != len(got):
                sig = ("rows", len(got), len(got2))
            else:
                for ri, (r1, r2) in enumerate(zip(got, got2)):
                    for k, (g1, g2) in enumerate(zip(r1, r2)):
                        if (g1 is None) != (g2 is None):
                            sig = ("none", ri, k)
                        elif g1 is not None:
                            for a in rs["objects"][k]["attrs"]:
                                if not X.same(getattr(g1, a["name"]), getattr(g2, a["name"])):
                                    sig = (a["name"], repr(getattr(g1, a["name"])), repr(getattr(g2, a["name"])))
            if sig:
                viol.append(("ladder-differs-from-filled-in", "ladder table and filled-in table give different objects",
                             list(sig), "same objects"))
        except Exception as ex:  # noqa
            viol.append(("ladder-filled-in-raises", "reading the filled-in table raised", repr(ex), "objects"))
    return feats, label, nontrivial, viol


def _reads_as_default_options(case):
    """Does the reader class give what the default options ('blank all', plain) would give for this sheet?"""
    if (case["stop_on"], bool(case["ladder"])) == ("blank all", False):
        return False                      # the class declares the defaults: nothing to ignore
    grid = make_grid(case)
    try:
        as_default, _ = X.reference_read(grid, RULESETS[case["rs"]], "blank all", False)
        got = real_read(case["rs"], grid, case["stop_on"], bool(case["ladder"]), case["via"])
        return len(got) == len(as_default) and all(
            (g[0] is None) == (e[0] is None) and
            (g[0] is None or all(X.same(getattr(g[0], n), e[0][n][0]) for n in e[0]))
            for g, e in zip(got, as_default))
    except Exception:  # noqa
        return False


_PRIORITY = ["raises", "row-count", "none-row", "value", "range-key-origin", "range-origin-order",
             "range-origin-descr", "origin:", "origin-incl-ws", "ladder-"]


def _prio(sig):
    for k, p in enumerate(_PRIORITY):
        if sig.startswith(p):
            return k
    return len(_PRIORITY)


def run_case(case, acc, count=True):
    feats, label, nontrivial, viol = judge(case, acc)
    if count:
        acc.case(nontrivial=nontrivial, features=sorted(feats),
                 outcome=label if not viol else "violation:" + viol[0][0])
    if count and not viol and nontrivial and acc.evaluations % 101 == 0 and \
            ("ladder:multi-row-chain" in feats or "range:spans-Z-AA" in feats or "row:none" in feats):
        acc.sample({"case": case, "read_as": label})
    if viol:
        # one report per case: the most basic disagreement (a wrong row count explains wrong values, a wrong
        # value usually comes with a wrong origin ...)
        sig, msg, obs, exp = min(viol, key=lambda v: _prio(v[0]))
        if case.get("via") == "reader-keep":
            from mc import core
            if not judge(dict(case, via="function"), core.Acc())[3]:
                # right while streaming, wrong when the yielded rows are kept
                sig = "kept-rows-differ-from-streamed-rows"
                msg = "rows = list(XlsTableReader(...).iter_table(ws)) inspected afterwards: " + msg
        elif case.get("via") == "mixin":
            # does the mixin read the sheet as if the class declared the default options?
            sig = "mixin-ignores-class-options" if _reads_as_default_options(case) else sig + ":mixin"
            msg = "TableReader.read_list with STOP_ON / LADDER_FORMAT declared on the class: " + msg
        elif case["ladder"] and sig.endswith(":ladder"):
            # ladder-specific only if the same sheet read as a plain table does not show the same disagreement
            from mc import core
            plain = dict(case, ladder=0)
            base = sig[:-len(":ladder")]
            if any(v[0] == base for v in judge(plain, core.Acc())[3]):
                sig = base
        acc.violation("C18:" + sig, case, msg, obs, exp)
    return viol


MODES = [("blank all", 0), ("blank first", 0), ("blank all", 1)]      # (stop_on, ladder flag as 0/1)


# ------------------------------------------------------------------------------------------ enumeration
def _bounds(tier):
    q = tier == "quick"
    return {"layout_maxlen": 5 if q else 6, "rows_max_width": 3 if q else 4,
            "rows_max_data_rows": 3 if q else 4, "rows_max_data_rows_width4": 3}


def bounds(tier):
    b = _bounds(tier)
    b.update({"rule_sets_layout": LAYOUT_RULESETS, "rule_sets_rows": ROWS_RULESETS, "anchors": list(ANCHORS),
              "leading_blank_rows": [0, 1, 2], "modes": ["plain/blank all", "plain/blank first", "ladder/blank all"],
              "title_rows_layout": {n: len(title_rows(RULESETS[n], b["layout_maxlen"])) for n in LAYOUT_RULESETS},
              "title_rows_rows": {n: len(small_title_rows(RULESETS[n], b["rows_max_width"])) for n in ROWS_RULESETS}})
    return b


def shards(tier):
    b = _bounds(tier)
    out = [("cells",), ("mixin",)] + [("shared", n) for n in ("plain2", "rdict", "optional", "twoobj2")] + [("classes", k, 6) for k in range(6)] + [("seq", "plain2"), ("seq", "rdict"), ("seq", "optional"), ("seq", "rdictopt")]
    for n in LAYOUT_RULESETS:
        nt = len(title_rows(RULESETS[n], b["layout_maxlen"]))
        step = 1 if nt < 600 else (4 if nt < 4000 else 16)
        for anchor in ANCHORS:
            for k in range(step):
                out.append(("layout", n, anchor, k, step))
    for n in ROWS_RULESETS:
        trs = small_title_rows(RULESETS[n], b["rows_max_width"])
        for i, t in enumerate(trs):
            if len(t) <= 3 and tier == "quick":
                out.append(("rows", n, i, 0, 1))
            else:
                parts = 8 if len(t) * b["rows_max_data_rows"] >= 12 else 1
                for k in range(parts):
                    out.append(("rows", n, i, k, parts))
    return out


def run_shard(shard, tier, seed, acc):
    b = _bounds(tier)
    kind = shard[0]
    if kind == "cells":
        _cells(acc)
        return
    if kind == "seq":
        _seq_block(acc, shard[1])
        return
    if kind == "mixin":
        _mixin_block(acc)
        return
    if kind == "classes":
        _classes_block(acc, shard[1], shard[2])
        return
    if kind == "shared":
        _shared_block(acc, shard[1])
        return
    if kind == "layout":
        _, n, anchor, k, step = shard
        rs = RULESETS[n]
        for t in title_rows(rs, b["layout_maxlen"])[k::step]:
            data = [[generic_value(rs, title, r, c) for c, title in enumerate(t)] for r in range(2)]
            for lead in (0, 1, 2):
                for stop_on, ladder in MODES:
                    for via in (_vias(n) if anchor == 0 else ("function",)):
                        case = {"rs": n, "anchor": anchor, "lead": lead, "rows": [t] + data,
                                "stop_on": stop_on, "ladder": ladder}
                        if via != "function":
                            case["via"] = via
                        run_case(case, acc)
            if acc.expired():
                return
        return
    if kind == "rows":
        _, n, i, k, parts = shard
        rs = RULESETS[n]
        t = small_title_rows(rs, b["rows_max_width"])[i]
        w = len(t)
        maxr = b["rows_max_data_rows"] if w <= 3 else b["rows_max_data_rows_width4"]
        for nr in range(1, maxr + 1):
            ncell = nr * w
            for falsy in (False, True):
                full = [[generic_value(rs, title, r, c, falsy) for c, title in enumerate(t)] for r in range(nr)]
                if falsy and full == [[generic_value(rs, title, r, c) for c, title in enumerate(t)]
                                      for r in range(nr)]:
                    continue                  # no column of this title row can hold 0 / False
                for mask in range(k, 1 << ncell, parts):
                    data = [[None if mask >> (r * w + c) & 1 else full[r][c] for c in range(w)] for r in range(nr)]
                    for stop_on, ladder in MODES:
                        for via in (_vias(n) if not falsy else ("function",)):
                            case = {"rs": n, "anchor": 0, "lead": 0, "rows": [t] + data, "stop_on": stop_on,
                                    "ladder": ladder}
                            if via != "function":
                                case["via"] = via
                            run_case(case, acc)
                    if (mask & 1023) == 0 and acc.expired():
                        return
            # the anchored variant of the widest sheets: ladder substitution across a range spanning Z -> AA
            if n in ("rdict", "rset") and nr == min(2, maxr):
                for mask in range(k, 1 << ncell, parts):
                    data = [[None if mask >> (r * w + c) & 1 else full[r][c] for c in range(w)] for r in range(nr)]
                    for anchor in (24, 25):
                        run_case({"rs": n, "anchor": anchor, "lead": 1, "rows": [t] + data, "stop_on": "blank all",
                                  "ladder": 1}, acc)
        return
    raise ValueError(shard)


def _cells(acc):
    """Single-cell conversions, whitespace variants of blank cells and titles."""
    def one(rsname, rows, stop_on="blank all", ladder=0, anchor=0, lead=0):
        run_case({"rs": rsname, "anchor": anchor, "lead": lead, "rows": rows, "stop_on": stop_on,
                  "ladder": ladder}, acc)
    raw = {"int": [None, 0, 5, -1, 10 ** 12], "str": [None, "x", " x ", "", 12, 1.5, True, "a,b"],
           "bool": [None, "v", 1, "1", True, "True", "", False, "False"],
           "list": [None, "a", "a,b", "a\n b,,c", " , ", "a, a"], "set": [None, "a", "a,b", "a\n b,,c", " , ", "a, a"]}
    for v in raw["str"]:
        for stop_on, ladder in MODES:
            one("plain3", [["Id", "Name", "Flag"], [1, v, "v"], [2, "y", None]], stop_on, ladder)
    for v in raw["bool"]:
        for stop_on, ladder in MODES:
            one("plain3", [["Id", "Name", "Flag"], [1, "x", v], [2, "y", v]], stop_on, ladder)
    for v in raw["int"]:
        for stop_on, ladder in MODES:
            one("optional", [["Id", "Name", "Opt"], [1, "x", v], [2, None, v]], stop_on, ladder)
            one("rdict", [["Id", "U1", "U2", "Name"], [1, v, 3, "x"], [2, None, v, "y"]], stop_on, ladder)
    for v in raw["list"]:
        for w in raw["set"]:
            one("lists", [["Id", "Items", "Uniq"], [1, v, w], [2, w, v]])
    for v in raw["bool"]:
        for w in raw["bool"]:
            for stop_on, ladder in MODES:
                one("rset", [["Id", "U1", "U2", "Name"], [1, v, w, "x"]], stop_on, ladder)
    # whitespace: blank cells that are not None, titles with surrounding blanks / numeric titles
    for ws in (" ", "   ", "\t", ""):
        acc.feat("cells:whitespace-blank")
        for stop_on, ladder in MODES:
            one("plain2", [["Id", "Name"], [1, "a"], [None, ws], [3, "c"]], stop_on, ladder)      # blank row = end
            one("plain2", [["Name", "Id"], ["a", 1], [ws, 2], ["c", 3]], stop_on, ladder)         # blank first cell
            one("plain2", [[ws, None], ["Id", "Name"], [1, "a"]], stop_on, ladder, lead=1)       # leading blank row
            one("plain2", [["Id", ws, "Name"], [1, "j", "a"], [2, None, "b"]], stop_on, ladder)   # blank title
            one("plain2", [[" Id ", "Name" + ws], [1, "a"], [2, "b"]], stop_on, ladder)
            one("twokey", [["K1", "K2", "V"], [1, "a", 5], [None, ws, 6], [None, "b", 7]], stop_on, ladder)
    for z in (0, 0.0, False, "0", "False"):
        for stop_on, ladder in MODES:
            one("plain2", [["Name", "Id"], ["a", 1], [z, 2], ["c", 3]], stop_on, ladder)          # first cell falsy
            one("plain2", [["Name", "", "Id"], ["a", "j", 1], [z, None, None], ["c", "j", 3]], stop_on, ladder)
            one("nokey", [["B", "A"], ["a", 1], [z, None], [None, 3]], stop_on, ladder)           # row = one falsy cell
    one("rdict", [["Id", 2024, 2025, "Name"], [1, 5, 6, "x"]])                                      # numeric titles
    # outside the domain (counted, never judged): text in an int column, missing required column, duplicate titles
    one("plain2", [["Id", "Name"], ["x", "a"]])
    one("plain2", [["Id", "Other"], [1, "a"]])
    one("plain2", [["Id", "Name", "Name"], [1, "a", "b"]])
    one("rdict", [["Id", "Name"], [1, "a"]])
    one("plain2", [["Id", "Name"], [" ", "a"]])


def _pristine():
    import importlib
    import ak.xlsread
    importlib.reload(ak.xlsread)
    _REAL.clear()


def run_seq(case, acc, count=True):
    """Two sheets read one after the other with the same classes / rule objects in a freshly loaded ak.xlsread:
    the second read must not be influenced by the first."""
    from mc import core
    first, second = case["seq"]
    _pristine()
    f1, _l1, _n1, v1 = judge(first, core.Acc())
    f2, _l2, _n2, v2 = judge(second, core.Acc()) if not v1 else (set(), "", False, [])
    acc.trans(2)
    feats = set(f1) | set(f2) | {"seq:two-reads"}
    report = []
    if v2:
        _pristine()
        if not judge(second, core.Acc())[3]:
            report = v2
        else:
            feats.add("seq:fails-already-alone")
    elif v1:
        feats.add("seq:fails-already-alone")
    _REAL.clear()
    if count:
        acc.case(nontrivial=True, features=sorted(feats),
                 outcome="seq:ok" if not report else "violation:second-read:" + report[0][0])
    for sig, msg, obs, exp in report[:1]:
        acc.violation("C18:second-read:" + sig, case, "second sheet read with the same rules: " + msg, obs, exp)
    return report


def _seq_block(acc, n):
    rs = RULESETS[n]
    trs = small_title_rows(rs, 3)

    def sheet(t, ladder):
        data = [[generic_value(rs, title, r, c) for c, title in enumerate(t)] for r in range(2)]
        return {"rs": n, "anchor": 0, "lead": 0, "rows": [t] + data, "stop_on": "blank all", "ladder": ladder}
    for t1 in trs:
        for t2 in trs:
            for ladder in (0, 1):
                run_seq({"seq": [sheet(t1, ladder), sheet(t2, ladder)]}, acc)
        if acc.expired():
            return


def _mixin_block(acc):
    for n in ("plain2", "twokey"):
        rs = RULESETS[n]
        for t in small_title_rows(rs, 3):
            w = len(t)
            if w > len([a for a in rs["objects"][0]["attrs"]]):
                continue
            for nr in (1, 2):
                full = [[generic_value(rs, title, r, c) for c, title in enumerate(t)] for r in range(nr)]
                for mask in range(1 << (nr * w)):
                    data = [[None if mask >> (r * w + c) & 1 else full[r][c] for c in range(w)] for r in range(nr)]
                    for stop_on, ladder in MODES:
                        run_case({"rs": n, "anchor": 0, "lead": 0, "rows": [t] + data, "stop_on": stop_on,
                                  "ladder": ladder, "via": "mixin"}, acc)


TR_COLUMNS = ["Id", "Name", "Full name", "Tags", "Opt", "Key"]
TR_DATA = [[1, "n0", "f0", "a,b", 5, 11], [None, "n1", "f1", None, None, 12], [3, "n2", "f2", "c", 7, 13]]


def _tr_sheets():
    out = []
    for drop in ((), ("Opt",), ("Tags",), ("Opt", "Tags")):
        for rev in (False, True):
            idx = [i for i, t in enumerate(TR_COLUMNS) if t not in drop]
            if rev:
                idx = idx[::-1]
            out.append([[TR_COLUMNS[i] for i in idx]] + [[row[i] for i in idx] for row in TR_DATA])
    return out


def _tr_build(opts):
    """Fresh ak.xlsread, fresh classes.  opts = {"base_ladder": 0|1, "sub_stop": "-"|"blank first"}"""
    _pristine()
    from ak import xlsread as xr
    types = _cell_types(xr)
    attrs = {"_ATTRS": ["id", "name", "opt"], "_NUM_ID_ATTRS": 1}
    base = type("TrBase", (xr.XlsObject, xr.TableReader),
                dict(attrs, ATTR_RULES=_rules_from_spec(RULESETS["tr_base"]["objects"][0], xr, types),
                     LADDER_FORMAT=bool(opts["base_ladder"])))
    sub_ns = {"ATTR_RULES": _rules_from_spec(RULESETS["tr_sub"]["objects"][0], xr, types)}
    if opts["sub_stop"] != "-":
        sub_ns["STOP_ON"] = opts["sub_stop"]
    sub = type("TrSub", (base,), sub_ns)
    sub2 = type("TrSub2", (sub,), {})
    other = type("TrOther", (xr.XlsObject, xr.TableReader),
                 dict(attrs, ATTR_RULES=_rules_from_spec(RULESETS["tr_other"]["objects"][0], xr, types)))
    _TR.clear()
    _TR.update({"base": base, "sub": sub, "sub2": sub2, "other": other})


def _tr_subcase(case, name):
    opts = case["classes"]
    if name == "other":
        stop_on, ladder = "blank all", 0
    else:
        ladder = opts["base_ladder"]                        # inherited by the subclasses
        stop_on = opts["sub_stop"] if (name != "base" and opts["sub_stop"] != "-") else "blank all"
    return {"rs": TR_RULESET[name], "anchor": 0, "lead": 0, "rows": case["rows"], "stop_on": stop_on,
            "ladder": ladder, "via": "tr:" + name}


def run_classes(case, acc, count=True):
    """Reads through several TableReader classes one after the other (base class, a subclass overriding
    ATTR_RULES, a subclass of that, an unrelated class) from pristine module state: every class must be read
    with the rules and options declared for it, whatever was read before."""
    from mc import core
    reads = case["reads"]
    _tr_build(case["classes"])
    feats = {"classes:reader-class-sequence"}
    for a, b in zip(reads, reads[1:]):
        if a == "base" and b in ("sub", "sub2"):
            feats.add("classes:subclass-after-base")
        if a in ("sub", "sub2") and b == "base":
            feats.add("classes:base-after-subclass")
        if "other" in (a, b) and a != b:
            feats.add("classes:unrelated-class-between")
    if "sub2" in reads:
        feats.add("classes:rules-inherited-unchanged")
    report = None
    for pos, name in enumerate(reads):
        acc.trans()
        f, _label, _nt, v = judge(_tr_subcase(case, name), core.Acc())
        feats |= {x for x in f if x.startswith(("attr:", "mode:", "ladder:", "row:"))}
        if v:
            sig, msg, obs, exp = min(v, key=lambda t: _prio(t[0]))
            _tr_build(case["classes"])
            alone = judge(_tr_subcase(case, name), core.Acc())[3]
            if alone:
                if _reads_as_default_options(_tr_subcase(case, name)):
                    sig = "mixin-ignores-class-options"
                else:
                    sig += ":reader-class"
                report = (sig, f"class '{name}' read alone: " + msg, obs, exp)
            else:
                report = ("class-sequence:" + sig.split(":")[0],
                          f"class '{name}' read after {reads[:pos]}: " + msg, obs, exp)
            break
    _TR.clear()
    _REAL.clear()
    if count:
        acc.case(nontrivial=len(reads) >= 2, features=sorted(feats),
                 outcome="classes:ok" if report is None else "violation:" + report[0])
    if report is not None:
        acc.violation("C18:" + report[0], case, report[1], report[2], report[3])
    return report


def _classes_block(acc, k, step):
    import itertools
    names = ["base", "sub", "sub2", "other"]
    seqs = [list(t) for ln in (1, 2, 3) for t in itertools.product(names, repeat=ln)]
    for reads in seqs[k::step]:
        for rows in _tr_sheets():
            # (ladder + 'blank first' is outside the domain, see ASSUMPTIONS)
            for base_ladder, sub_stop in ((0, "-"), (0, "blank first"), (1, "-")):
                if True:
                    run_classes({"classes": {"base_ladder": base_ladder, "sub_stop": sub_stop}, "reads": reads,
                                 "rows": rows}, acc)
        if acc.expired():
            return


# ---- one XlsObjReadRules object used by two readers ----------------------------------------------------------------
def _shared_read(rsname, grids, mode):
    """ONE set of XlsObjReadRules objects, one XlsTableReader per sheet; the generators are consumed one after
    the other ('sequential') or in turns, one row each ('interleaved', as in zip(reader1..., reader2...))."""
    from ak import xlsread as xr
    rules_objs = [xr.XlsObjReadRules(cls, rules) for cls, rules in _real(rsname)]
    readers = [xr.XlsTableReader(*rules_objs) for _ in grids]
    sheets = [X.FakeSheet("sheet1", g) for g in grids]
    try:
        if mode == "sequential":
            return [[list(r) for r in rd.iter_table(ws)] for rd, ws in zip(readers, sheets)]
        gens = [rd.iter_table(ws) for rd, ws in zip(readers, sheets)]
        outs = [[] for _ in gens]
        live = [True] * len(gens)
        while any(live):
            for i, g in enumerate(gens):
                if live[i]:
                    try:
                        outs[i].append(list(next(g)))
                    except StopIteration:
                        live[i] = False
        return outs
    except Exception as e:  # noqa
        return [e for _ in grids]


def run_shared(case, acc, count=True):
    from mc import core
    q = case["shared_rules"]
    subs = [{"rs": q["rs"], "anchor": 0, "lead": 0, "rows": rows, "stop_on": "blank all", "ladder": 0}
            for rows in q["sheets"]]

    def judge_all(mode):
        gots = _shared_read(q["rs"], [make_grid(c) for c in subs], mode)
        feats, found = set(), None
        for k, (sub, got) in enumerate(zip(subs, gots)):
            f, _l, _n, v = judge(sub, core.Acc(), got)
            feats |= {x for x in f if x.startswith(("layout:", "attr:", "objects:"))}
            if v and found is None:
                sig, msg, obs, exp = min(v, key=lambda t: _prio(t[0]))
                found = (sig, f"sheet {k + 1} of 2 read through a reader sharing its XlsObjReadRules object with the "
                         f"reader of the other sheet ({mode}): " + msg, obs, exp)
        return feats, found

    acc.trans(2)
    feats, found = judge_all(q["mode"])
    feats |= {"shared-rules:" + q["mode"]}
    if q["sheets"][0][0] != q["sheets"][1][0]:
        feats.add("shared-rules:different-column-order")
    report = None
    if found is not None:
        sig, msg, obs, exp = found
        if q["mode"] == "interleaved" and judge_all("sequential")[1] is None:
            report = ("shared-rules-readers-interleaved:" + sig.split(":")[0], msg, obs, exp)
        else:
            report = (sig + ":shared-rules", msg, obs, exp)
    if count:
        acc.case(nontrivial=q["mode"] == "interleaved" and "shared-rules:different-column-order" in feats,
                 features=sorted(feats), outcome="shared-rules:ok" if report is None else "violation:" + report[0])
    if report is not None:
        acc.violation("C18:" + report[0], case, report[1], report[2], report[3])
    return report


def _shared_block(acc, n):
    rs = RULESETS[n]
    trs = small_title_rows(rs, 3)
    for t1 in trs:
        rows1 = [t1] + [[generic_value(rs, title, r, c) for c, title in enumerate(t1)] for r in range(3)]
        for t2 in trs:
            rows2 = [t2] + [[generic_value(rs, title, r + 4, c) for c, title in enumerate(t2)] for r in range(3)]
            for mode in ("interleaved", "sequential"):
                run_shared({"shared_rules": {"rs": n, "sheets": [rows1, rows2], "mode": mode}}, acc)
        if acc.expired():
            return


def replay(case, acc):
    if "shared_rules" in case:
        run_shared(case, acc)
        return
    if "reads" in case:
        run_classes(case, acc)
        return
    if "seq" in case:
        run_seq(case, acc)
        return
    run_case(case, acc)


def selftest():
    X.selftest()
    from mc import core
    acc = core.Acc()
    # tests/test_xlsread.py::test_range_set (first sheet) goes through the harness silently at anchor 0
    case = {"rs": "rset", "anchor": 0, "lead": 0, "stop_on": "blank all", "ladder": 0,
            "rows": [["Id", "math", "science", "history", "cs", "Name"], [0, 1, "v", False, None, "Arnold"],
                     [1, None, None, None, None, "Henry"]]}
    assert run_case(case, acc) == [], acc.violations
    assert title_rows(RULESETS["plain2"], 2) == [["Id", "Name"], ["Name", "Id"]]
