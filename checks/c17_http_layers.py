"""C17 — layered HTTP connections compose adapters without side effects (DESIGN.md §2 C17).

Technique: explicit-state search over operation histories on the real objects (engine E2: a state is
the history that reaches it; every history is replayed on a freshly built world), compared request by
request with the reference request builder ``models/http_model.py``.

Three exhaustive families of histories (bounds per tier in ``bounds()``):

  H1  derivation trees: every sequence of <= D derivations from the layer alphabet below (at most one
      authenticating layer per chain, add_adapter only on a connection nothing was derived from yet);
      after *every* derivation every live connection / method caller is (re-)probed with the probe
      request set — so every original is re-examined after every derivation;
  H0  argument shapes: for every family of <= D0 derivations, every live node x the full product
      verb x path x params x body x caller headers x raw_response;
  H3  canned responses: for every family of <= D3 derivations, every live node x entry point x every
      canned response body {default JSON object, empty, "0", "null", "[]", "{}", non-JSON text} x
      raw_response {False, True}: the response processors of the whole chain must each run once, in
      reverse order, on the value the reference model defines (a non-JSON body with raw_response=False
      has no defined result: counted, not judged);
  H4  falsy processor outputs: every chain of 1-2 response processors drawn from a tagging processor and
      processors whose legitimate output is None, 0, [], "" (built by wraps, lists, clones): the next outer
      processor / the caller must receive exactly that value;
  H5  characters a URL-quoting step would change: paths with a percent-encoded segment, "?", "#", a blank,
      a non-ASCII character (and one such prefix), with and without params, through root / prefix / caller /
      clone chains: the url must be address + path exactly as given;
  H2  request sequences: every interleaving of D2 derivations and K requests (no probing in between),
      requests taken from node x entry point x a small shape alphabet; caller-owned header/param/body
      objects are *shared* between the requests of one history.

Layer alphabet: plain wrap, prefix "/p1", prefix "p2/", basic / token / client auth (as connection
classes and as clone adapters), response post-processor, [prefix, post-processor] list, add_adapter
(header adapter, basic-auth adapter), MCallerHttp with a component->prefix map (prefixes "/cmpA",
"cmpB/", ""), clone(), clone(adapter), clone([a1, a2]), clone([a]), clone([]); and form "list*": the
*same caller-owned list object* (and adapter objects) handed to every derivation of the history that
uses it — HttpConn(c, adapters=COMMON) / caller.clone(COMMON) repeated on different parents.  Tuples of adapters are
outside the statement ("one adapter or a list of adapters"): they are exercised as the last derivation
of a history, counted, never judged.

Seams: ``urllib.request.build_opener`` returns a recorder (no sockets, no ssl set-up); ``random.seed(0)``.
"""

import base64
import copy
import itertools
import json
import random
import urllib.request

from ak import conn_http
from ak import mcaller_http
from ak.mcaller_http import MCallerHttp, method_http
from mc.core import jdump
from mc.sched import ModuleState
from models import http_model as hm

ID = "C17"
TITLE = "Layered HTTP connections compose adapters without side effects"
TECHNIQUE = ("explicit-state search over derivation/request histories on the real connection objects "
             "(replay from a fresh world), every request compared with a reference request builder")
DESIGN_REF = "§2 C17"
LEVEL_TEXT = ("Every family of connections and method-caller clones reachable by a bounded number of "
              "derivations from the layer alphabet is built on the real classes; after every derivation every "
              "live object is probed, every bounded interleaving of derivations and requests is run, and the "
              "full product of argument shapes is sent through every node of the small families; each "
              "urllib Request, each return value and every caller-owned object is compared with the "
              "reference model.")
LEVEL_NOTE = ("Bounded: derivation depth, request-sequence length, finite alphabets of layers and argument "
              "values. Histories are not merged by a canonical state (each distinct history is run), so no "
              "state-equivalence argument is needed. Trusted: models/http_model.py, urllib.request.Request, "
              "urllib.parse.parse_qsl, json. Slashes at joints, parameter order, the request-id header and "
              "error texts are not compared.")
RULE = ("case = one history (sequence of derivations and requests on one root), distinct by construction of "
        "the enumeration; every request in it is one validated trace. Non-trivial: a history containing a "
        "request whose adapter chain is contributed by >= 2 different connections, or a re-probe of an "
        "original after a later derivation.")
ASSUMPTIONS = [
    "at most one authenticating layer per chain (the code asks callers not to build others)",
    "adapters are given as one adapter or a list; tuples of adapters are outside the statement",
    "add_adapter is applied only to a connection from which nothing has been derived yet",
    "the caller passes no Authorization header of its own through an authenticating chain",
    "paths, prefixes and values come from the finite alphabets listed in bounds()",
]
REQUIRED_FEATURES = [
    "layer:prefix", "layer:basic", "layer:token", "layer:client", "layer:resp", "layer:hdr",
    "derive:wrap-none", "derive:wrap-single", "derive:wrap-list", "derive:add", "derive:caller",
    "derive:clone-none", "derive:clone-single", "derive:clone-list", "clone-list:two", "clone-list:one",
    "derive:wrap-list*", "derive:clone-list*", "adapter-list-object-reused",
    "adapter-list-object-reused:after-use-on-a-parent-with-adapters",
    "clone-list:empty", "entry:conn", "entry:wrapper", "entry:wrapper+component-prefix",
    "entry:wrapper+empty-prefix", "arg:params", "body:none", "body:str", "body:bytes", "body:json",
    "body:falsy", "hdr:caller", "hdr:content-type", "hdr:own-request-id", "raw-response",
    "reprobe-of-original", "chain:2+contributors", "chain:prefix-under-prefix", "chain:resp-under-resp",
    "response:empty-body:with-processors", "response:empty-body:raw:with-processors",
    "response:json-falsy:with-processors", "response:json-falsy:raw:with-processors",
    "response:non-json:raw:with-processors", "response:non-json:undefined-not-judged",
    "response:empty-body:2-processors",
    "arg:params-pairs-list", "arg:params-pairs-tuple", "arg:params-repeated-name", "arg:params-empty",
    "auth:basic:b64-sextet-62", "auth:basic:b64-sextet-63", "auth:basic:non-ascii",
    "auth:client:b64-sextet-62", "auth:client:b64-sextet-63", "auth:client:non-ascii",
    "auth:clone-adapter:b64-sextet-62+63",
    "processor:returns-null", "processor:returns-0", "processor:returns-[]", 'processor:returns-""',
    "processor:falsy-output-into-outer-processor", "processor:falsy-output-to-caller",
    "path:percent-encoded", "path:question-mark", "path:hash", "path:space", "path:non-ascii",
    "path:question-mark+params", "prefix:special-characters",
    "root:tuple-slash", "root:dict-slash", "root:str-2slash",
    "url:address-ends-with-slash+relative-path", "url:address-ends-with-slash+relative-prefix",
    "shared-caller-object-reused", "root:str", "root:str-slash", "root:list", "root:dict-noids",
    "verb:get", "verb:post", "verb:put", "verb:delete", "verb:patch",
]

# ------------------------------------------------------------------------------------ alphabets
ROOTS = {
    "str": {"conn_data": "http://h:8080", "address": "http://h:8080", "ids": True},
    "str-slash": {"conn_data": "http://h:8080/", "address": "http://h:8080/", "ids": True},
    "list": {"conn_data": ["http://h:8080/api/"], "address": "http://h:8080/api/", "ids": True},
    "dict-noids": {"conn_data": {"address": "http://h:8080/api", "_send_request_ids": False},
                   "address": "http://h:8080/api", "ids": False},
    # addresses that still end with "/" at request time (only a str conn_data is stripped, and only once)
    "tuple-slash": {"conn_data": ["http://h:8080/api/"], "as_tuple": True, "address": "http://h:8080/api/", "ids": True},
    "dict-slash": {"conn_data": {"address": "http://h:8080/svc/"}, "address": "http://h:8080/svc/", "ids": True},
    "str-2slash": {"conn_data": "http://h:8080/x//", "address": "http://h:8080/x//", "ids": True},
}
SLASH_ROOTS = ("list", "tuple-slash", "dict-slash", "str-2slash")
PREFIX_MAP = {"compA": "/cmpA", "compB": "cmpB/", "compE": "", "other": "/other"}
ENTRY_COMPONENT = {"m_plain": None, "m_a": "compA", "m_b": "compB", "m_e": "compE"}

P1, P2, PQ, PC1, PC2 = (["prefix", p] for p in ("/p1", "p2/", "/q", "/c1", "/c2"))
# Credentials are chosen so that their *standard* base64 text contains '/' (sextet 63), '+' (sextet 62) and
# the encoding of a non-ASCII character: an encoder using another alphabet (url-safe '-', '_') or another
# charset is visible only then.  ``_b64_profile`` measures it; the features are REQUIRED.
BASIC = ["basic", "ab?", "p>:\u00ff"]
TOKEN = ["token", "tok123"]
CLIENT = ["client", "cname", "c?d", "s>cret\u00ff"]
HDR = ["hdr", "X-Layer", "on"]
RS = ["resp", "s"]
COMMON_W = [PQ, RS]          # the layers of the shared list object used by wrap "list*"
COMMON_C = [PC2, RS]         # ... and by clone "list*"
AUTH_LAYER = {"basic": BASIC, "token": TOKEN, "client": CLIENT}

VERBS = ["get", "post", "put", "delete", "patch"]
PATHS = ["/r/s", "r/s", ""]
# paths / one prefix containing what a URL-quoting step would change (url-encoding applies to params only)
SPECIAL_PATHS = {"percent-encoded": "/files/reports%2F2024.txt", "question-mark": "/q/what?now=1",
                 "hash": "/docs/a#b", "space": "/my docs/x y", "non-ascii": "/caf\u00e9/\u00fc"}
SPECIAL_PREFIX = ["prefix", "/pre fix%2F\u00e9"]
PAIRS = [["tag", "red"], ["tag", "blue"], ["limit", 5], ["b c", "x&y=é"]]     # a repeated name: needs pairs
# None | mapping | list of pairs (realised as a list of tuples) | {"pairs-tuple": ...} (tuple of tuples) | empty
PARAMS = [None, {"a": "1", "b c": "x&y=é"}, PAIRS, {"pairs-tuple": PAIRS}, {}, []]
DATAS = [["none"], ["str", "text-é"], ["bytes", "00ff7261"], ["json", {"k": [1, "é"]}],
         ["json", []], ["str", ""]]
HEADERS = [None, {"X-Custom": "v"},
           {"Content-Type": "text/plain", "X-Request-ID": "my-id-1", "Accept": "a/b"}]


RESP_BODIES = [None, "", "0", "null", "[]", "{}", "plain text, not json"]   # None: {"n": <request counter>}


def shape(verb, path, params=None, data=("none",), headers=None, raw=False, resp=None):
    """resp: canned response body the recorder answers with (None = the default JSON object)."""
    return {"verb": verb, "path": path, "params": params, "data": list(data), "headers": headers, "raw": raw,
            "resp": resp}


PROBE = [
    shape("get", "/r/s"),
    shape("get", "r/s", params=PARAMS[1]),
    shape("post", "/r/s", data=DATAS[1], headers=HEADERS[1]),
    shape("post", "", data=DATAS[2]),
    shape("put", "/r/s", params=PARAMS[1], data=DATAS[3], headers=HEADERS[2]),
    shape("delete", "r/s", headers=HEADERS[1]),
    shape("patch", "/r/s", data=DATAS[3], raw=True),
    shape("get", "/r/s", resp=""),
    shape("get", "r/s", params=PAIRS, headers=HEADERS[1]),
]
RESP_SHAPES = [shape("get", "/r/s", raw=raw, resp=body) for body in RESP_BODIES for raw in (False, True)]
CALLER_PROBE = [PROBE[4], PROBE[6]]
PROBE_LIGHT = [PROBE[1], PROBE[4], PROBE[6]]
CALLER_PROBE_LIGHT = [PROBE[4]]
SEQ_SHAPES = [PROBE[0], PROBE[4], shape("post", "r/s", data=DATAS[3], headers=HEADERS[1])]
CALLER_SEQ = [PROBE[0], PROBE[4]]


def full_shapes():
    for verb, path, params, data, headers, raw in itertools.product(VERBS, PATHS, PARAMS, DATAS, HEADERS,
                                                                    (False, True)):
        yield shape(verb, path, params, data, headers, raw)


TIERS = {
    # H1: (root, derivation depth, probing)   H0: root -> family depth   H2: (root, derivations, requests)
    #     probing "full": full probe set after every derivation; "light-last": light set after the last one
    "quick": {"H1": [("str", 3, "full"), ("str-slash", 2, "full"), ("list", 2, "full"), ("dict-noids", 2, "full"),
                     ("tuple-slash", 2, "full"), ("dict-slash", 2, "full"), ("str-2slash", 2, "full")],
              "H0": {"str": 1, "str-slash": 0, "list": 0, "dict-noids": 0, "tuple-slash": 0, "dict-slash": 0,
                     "str-2slash": 0},
              "H4": ["str", "list"],
              "H3": {"str": 2, "dict-noids": 1},
              "H2": [("str", 2, 2)]},
    "thorough": {"H1": [("str", 3, "full"), ("str", 4, "light-last"), ("str-slash", 3, "full"), ("list", 3, "full"),
                        ("dict-noids", 3, "full"), ("tuple-slash", 3, "full"), ("dict-slash", 2, "full"),
                        ("str-2slash", 2, "full")],
                 "H0": {"str": 2, "str-slash": 1, "list": 1, "dict-noids": 1, "tuple-slash": 1, "dict-slash": 1,
                        "str-2slash": 1},
                 "H4": ["str", "list", "dict-noids", "tuple-slash"],
                 "H3": {"str": 3, "dict-noids": 2, "list": 2, "str-slash": 1},
                 "H2": [("str", 2, 2), ("str", 2, 3), ("dict-noids", 2, 2), ("list", 2, 2)]},
}


def bounds(tier):
    t = TIERS[tier]
    return {"H1_derivation_depth_per_root": t["H1"], "H0_family_depth_per_root": t["H0"],
            "H2_root_derivations_requests": t["H2"], "H3_family_depth_per_root": t["H3"],
            "H4_processor_chain_roots": t["H4"], "processor_outputs": CONSTS,
            "H5_special_paths": SPECIAL_PATHS, "H5_special_prefix": SPECIAL_PREFIX[1],
            "canned_response_bodies": RESP_BODIES,
            "roots": {k: v["conn_data"] for k, v in ROOTS.items()},
            "layers": [P1, P2, PQ, PC1, PC2, BASIC, TOKEN, CLIENT, HDR, ["resp", "<position>"], RS],
            "shared_adapter_list_objects": {"wrap list*": COMMON_W, "clone list*": COMMON_C},
            "component_prefixes": PREFIX_MAP,
            "probe_shapes": {"full": [len(PROBE), len(CALLER_PROBE)], "light": [len(PROBE_LIGHT), len(CALLER_PROBE_LIGHT)]},
            "full_shape_product": len(VERBS) * len(PATHS) * len(PARAMS) * len(DATAS) * len(HEADERS) * 2,
            "paths": PATHS, "params": PARAMS, "bodies": DATAS, "caller_headers": HEADERS, "verbs": VERBS}


# ------------------------------------------------------------------------------------ real side
class RespTag(conn_http.RequestAdapter):
    def __init__(self, tag):
        self.tag = tag

    def process_response(self, return_value):
        return ["resp", self.tag, return_value]


class ConstResp(conn_http.RequestAdapter):
    """Response processor whose legitimate output is a fixed (possibly None / falsy) value."""
    def __init__(self, value):
        self.value = value

    def process_response(self, return_value):
        return copy.deepcopy(self.value)


CONSTS = [None, 0, [], ""]


class HdrAdapter(conn_http.RequestAdapter):
    def __init__(self, name, value):
        self.name, self.value = name, value

    def process_req_args(self, req_args):
        req_args.headers[self.name] = self.value


class Caller(MCallerHttp):
    """Method caller used by the C17 exploration."""
    _HTTP_PREFIX_MAP = dict(PREFIX_MAP)

    @method_http
    def m_plain(self, verb, path, kw):
        """no component"""
        return getattr(self.get_conn(), verb)(path, **kw)

    @method_http(None, "compA")
    def m_a(self, verb, path, kw):
        """component with prefix /cmpA"""
        return getattr(self.get_conn(), verb)(path, **kw)

    @method_http("basic", ["compB", "not-configured"])
    def m_b(self, verb, path, kw):
        """one of two components is configured: prefix cmpB/"""
        return getattr(self.get_conn(), verb)(path, **kw)

    @method_http(None, "compE")
    def m_e(self, verb, path, kw):
        """component with an empty prefix"""
        return getattr(self.get_conn(), verb)(path, **kw)


def mk_adapter(layer):
    k = layer[0]
    if k == "prefix":
        return conn_http.RequestAdapterAddPathPrefix(layer[1])
    if k == "basic":
        return conn_http.BAuthConn.Adapter(layer[1], layer[2])
    if k == "token":
        return conn_http.TokenAuthConn.Adapter(layer[1])
    if k == "client":
        return conn_http.ClientAuthConn.Adapter(layer[1], layer[2], layer[3])
    if k == "resp":
        return RespTag(layer[1])
    if k == "const":
        return ConstResp(layer[1])
    if k == "hdr":
        return HdrAdapter(layer[1], layer[2])
    raise ValueError(layer)


class _Resp:
    def __init__(self, method, data):
        self.data = data
        self._method = method
        self.code = 200

    def __enter__(self):
        return self

    def __exit__(self, *a):
        return False

    def read(self):
        return self.data

    def getheaders(self):
        return {}


class Recorder:
    def __init__(self):
        self.requests = []
        self.responses = []
        self.n = 0

    next_body = None      # canned body (str) for the next response; None: the default JSON object

    def open(self, request, *a, **kw):
        self.n += 1
        self.requests.append(request)
        body = json.dumps({"n": self.n}) if self.next_body is None else self.next_body
        self.last_body = body
        r = _Resp(request.get_method(), body.encode("utf-8"))
        self.responses.append(r)
        return r


_real_build_opener = urllib.request.build_opener
_SEAM = [0]


class _Seam:
    def __enter__(self):
        _SEAM[0] += 1
        urllib.request.build_opener = lambda *h: Recorder()
        return self

    def __exit__(self, *a):
        _SEAM[0] -= 1
        if _SEAM[0] == 0:
            urllib.request.build_opener = _real_build_opener
        return False


_KEYS = {}
_MODSTATE = None


def _key(value):
    """jdump(value), memoised per object (the object is kept alive, so its id() stays unique)."""
    k = _KEYS.get(id(value))
    if k is None or k[0] is not value:
        if len(_KEYS) > 20000:
            _KEYS.clear()
        k = _KEYS[id(value)] = (value, jdump(value))
    return k[1]


def made_by(op):
    """Label of a derivation for signatures (a shared list object is still 'a list of adapters')."""
    if op[0] == "wrap":
        return "wrap-" + op[3].rstrip("*")
    if op[0] == "auth":
        return "auth-" + op[2]
    if op[0] == "clone":
        return "clone-" + op[3].rstrip("*")
    return op[0]


class World:
    """Real objects and reference family, advanced in lock step."""

    def __init__(self, rootname):
        spec = ROOTS[rootname]
        random.seed(0)
        _MODSTATE.restore()
        self.rootname = rootname
        self.rec = Recorder()
        cd = copy.deepcopy(spec["conn_data"])
        root = conn_http.HttpConn(tuple(cd) if spec.get("as_tuple") else cd)
        root.conn_impl.opener = self.rec
        self.real = [root]
        self.fam = hm.Family(spec["address"], spec["ids"], PREFIX_MAP)
        self.objs = {}
        self._chains = {}         # (node, component) -> (chain, features); dropped at every derivation
        self.common = {}          # layers-key -> the one list object (of adapter objects) of this history
        self.common_used_on_chain = set()
        self.passed = set()
        self.reused = False
        self.last_deriv = "root"
        self.last_new = 0
        self.feats = {"root:" + rootname}

    # ---- derivations ------------------------------------------------------------------------
    def _adapters(self, op):
        """Adapter objects for a wrap/clone op; form "list*" hands out the history's shared list object."""
        layers, form = op[2], op[3]
        if form != "list*":
            return [mk_adapter(l) for l in layers]
        key = jdump(layers)
        if key in self.common:
            self.feats.add("adapter-list-object-reused")
            if key in self.common_used_on_chain:
                self.feats.add("adapter-list-object-reused:after-use-on-a-parent-with-adapters")
        else:
            self.common[key] = [mk_adapter(l) for l in layers]
        target = op[1]
        tconn = self.fam.nodes[target]["conn"] if self.fam.nodes[target]["kind"] == "caller" else target
        if self.fam.chain(tconn):
            self.common_used_on_chain.add(key)
        return self.common[key]

    def derive(self, op):
        """-> None | ("outside", text) | ("violation", class, text)"""
        kind = op[0]
        mb = made_by(op)
        self._chains.clear()
        self.feats.add("derive:" + mb)
        if len(op) > 3 and op[3] == "list*":
            self.feats.add("derive:" + mb + "*")
        if kind == "clone" and op[3] == "list":
            self.feats.add("clone-list:" + {0: "empty", 1: "one"}.get(len(op[2]), "two"))
        try:
            if kind == "wrap":
                _, t, layers, form = op
                ads = self._adapters(op)
                if form == "none":
                    new = [conn_http.HttpConn(self.real[t])]
                elif form == "single":
                    new = [conn_http.HttpConn(self.real[t], adapters=ads[0])]
                elif form in ("list", "list*"):
                    new = [conn_http.HttpConn(self.real[t], adapters=ads)]
                else:
                    new = [conn_http.HttpConn(self.real[t], adapters=tuple(ads))]
            elif kind == "auth":
                _, t, which = op
                if which == "basic":
                    new = [conn_http.BAuthConn(self.real[t], BASIC[1], BASIC[2])]
                elif which == "token":
                    new = [conn_http.TokenAuthConn(self.real[t], TOKEN[1])]
                else:
                    new = [conn_http.ClientAuthConn(self.real[t], CLIENT[1], CLIENT[2], CLIENT[3])]
            elif kind == "add":
                _, t, layer = op
                self.real[t].add_adapter(mk_adapter(layer))
                new = []
            elif kind == "caller":
                new = [Caller(self.real[op[1]])]
            elif kind == "clone":
                _, k, layers, form = op
                ads = self._adapters(op)
                if form == "none":
                    c = self.real[k].clone()
                elif form == "single":
                    c = self.real[k].clone(ads[0])
                elif form in ("list", "list*"):
                    c = self.real[k].clone(ads)
                else:
                    c = self.real[k].clone(tuple(ads))
                new = [c.http_conn, c]
            else:
                raise ValueError(op)
        except Exception as e:  # noqa - judged below
            if len(op) > 3 and op[3] == "tuple":
                self.feats.add("outside-domain:tuple-raises-" + type(e).__name__)
                return ("outside", f"{type(e).__name__}: {e}")
            return ("violation", "derivation-raises-" + type(e).__name__, f"{type(e).__name__}: {e}")
        # model
        if kind == "wrap":
            self.fam.wrap(op[1], op[2], mb)
        elif kind == "auth":
            self.fam.wrap(op[1], [AUTH_LAYER[op[2]]], mb)
        elif kind == "add":
            self.fam.add(op[1], op[2])
        elif kind == "caller":
            self.fam.caller(op[1])
        else:
            self.fam.clone(op[1], op[2], mb)
        self.real.extend(new)
        assert len(self.real) == len(self.fam.nodes)
        self.last_deriv = mb
        self.last_new = len(self.real) - 1 if new else op[1]
        if len(op) > 3 and op[3] == "tuple":
            self.feats.add("outside-domain:tuple-accepted")
        return None

    # ---- requests ---------------------------------------------------------------------------
    def _obj(self, what, value):
        """Caller-owned object for this value; one object per history and value (shared by requests)."""
        if value is None:
            return None
        key = (what, _key(value))
        if key in self.objs:
            self.reused = True
            self.feats.add("shared-caller-object-reused")
            return self.objs[key]
        if what == "data":
            tag = value[0]
            obj = None if tag == "none" else value[1] if tag == "str" else \
                bytes.fromhex(value[1]) if tag == "bytes" else copy.deepcopy(value[1])
        elif what == "params" and isinstance(value, list):
            obj = [tuple(p) for p in value]                     # caller-owned list of (name, value) pairs
        elif what == "params" and isinstance(value, dict) and "pairs-tuple" in value:
            obj = tuple(tuple(p) for p in value["pairs-tuple"])
        else:
            obj = copy.deepcopy(value)
        self.objs[key] = obj
        return obj

    def request(self, node, entry, shp):
        """-> list of (class, text, observed, expected)"""
        fam = self.fam
        n = fam.nodes[node]
        comp = ENTRY_COMPONENT[entry] if entry != "conn" else None
        ck = (node, comp)
        cached = self._chains.get(ck)
        if cached is None:
            chain = fam.chain(node, comp)
            kinds = [l[0] for l in chain]
            cf = {"layer:" + k for k in kinds}
            if kinds.count("prefix") >= 2:
                cf.add("chain:prefix-under-prefix")
            if kinds.count("resp") >= 2:
                cf.add("chain:resp-under-resp")
            if fam.contributors(node, comp) >= 2:
                cf.add("chain:2+contributors")
            for l in chain:
                if l[0] in ("basic", "client"):
                    prof = _b64_profile(l[0], hm.expected_auth([l])[1])
                    cf |= prof
                    cn = n if n["kind"] == "conn" else fam.nodes[n["conn"]]
                    if l[0] == "basic" and n["made_by"].startswith("clone") and len(prof) >= 2 and l in cn["own"]:
                        cf.add("auth:clone-adapter:b64-sextet-62+63")
            if SPECIAL_PREFIX in chain:
                cf.add("prefix:special-characters")
            procs = [l for l in chain if l[0] in ("resp", "const")]
            for i, l in enumerate(procs):
                if l[0] == "const":
                    cf.add("processor:returns-" + json.dumps(l[1]))
                    cf.add("processor:falsy-output-into-outer-processor" if i > 0
                           else "processor:falsy-output-to-caller")
            if self.fam.address.endswith("/"):
                first = next((l[1] for l in reversed(chain) if l[0] == "prefix"), None)
                if first is not None and not first.startswith("/"):
                    cf.add("url:address-ends-with-slash+relative-prefix")
            cf.add("entry:conn" if entry == "conn" else "entry:wrapper")
            if comp is not None:
                cf.add("entry:wrapper+component-prefix" if PREFIX_MAP[comp] else "entry:wrapper+empty-prefix")
            cached = self._chains[ck] = (chain, cf)
        chain, chain_feats = cached
        verb, path = shp["verb"], shp["path"]
        headers = self._obj("headers", shp["headers"])
        params = self._obj("params", shp["params"])
        data = self._obj("data", shp["data"]) if shp["data"][0] != "none" else None
        snap = (None if headers is None else dict(headers),
                None if params is None else copy.deepcopy(params),
                copy.deepcopy(data) if isinstance(data, (dict, list)) else data)
        kw = {}
        if params is not None:
            kw["params"] = params
        if data is not None:
            kw["data"] = data
        if headers is not None:
            kw["headers"] = headers
        if shp["raw"]:
            kw["raw_response"] = True
        # features (measured: what this request really exercised)
        f = self.feats
        f |= chain_feats
        f |= _shape_features(shp)
        if fam.address.endswith("/") and not shp["path"].startswith("/") and \
                not any(l[0] == "prefix" for l in chain):
            f.add("url:address-ends-with-slash+relative-path")
        if node != self.last_new and self.last_deriv != "root":
            f.add("reprobe-of-original")
        # the call
        rec = self.rec
        before = len(rec.requests)
        rec.next_body = shp.get("resp")
        nresp = sum(1 for l in chain if l[0] == "resp")
        if shp.get("resp") is not None:
            rk = "empty-body" if shp["resp"] == "" else "non-json" if not hm.expected_leaf(shp["resp"], False)[0] \
                else "json-falsy"
            if rk == "non-json" and not shp["raw"]:
                f.add("response:non-json:undefined-not-judged")
            else:
                f.add(f"response:{rk}" + (":raw" if shp["raw"] else "") + (":with-processors" if nresp else ""))
                if nresp >= 2:
                    f.add(f"response:{rk}:2-processors")
        try:
            if entry == "conn":
                ret = getattr(self.real[node], verb)(path, **kw)
            else:
                ret = getattr(self.real[node], entry)(verb, path, kw)
        except Exception as e:  # noqa - judged
            rec.next_body = None
            if not hm.expected_leaf(rec.last_body if len(rec.requests) > before else "", shp["raw"])[0]:
                return []        # non-JSON body, decoded mode: no result defined by the statement
            return [("request-raises-" + type(e).__name__, f"request raised {type(e).__name__}: {e}",
                     f"{type(e).__name__}: {e}", "request is sent")]
        out = []
        sent = rec.requests[before:]
        if len(sent) != 1:
            return [("sent-count", f"{len(sent)} requests reached the opener", len(sent), 1)]
        rq = sent[0]
        obs = {"url": rq.full_url, "method": rq.get_method(),
               "headers": {k.lower(): v for k, v in rq.header_items()}, "body": rq.data}
        out.extend(hm.compare_request(fam, chain, verb, path, params if params is None else snap[1],
                                      snap[2], snap[0], obs))
        # return value
        rec.next_body = None
        defined, leaf = hm.expected_leaf(rec.last_body, shp["raw"])
        if defined:
            want = hm.expected_response(chain, leaf)
            got = _normalise_ret(ret, rec.responses[-1] if shp["raw"] else None, nresp)
            if got != want:
                cls = "response" if shp.get("resp") is None else \
                    "response-" + ("empty-body" if shp["resp"] == "" else "canned-body")
                out.append((cls, "response processors not applied once each in reverse order to the response",
                            got, want))
        # caller-owned objects
        for name, obj, was in (("headers", headers, snap[0]), ("params", params, snap[1]), ("data", data, snap[2])):
            if obj != was or type(obj) is not type(was):
                out.append(("caller-object-modified-" + name, f"the caller's {name} object was modified",
                            repr(obj), repr(was)))
        return out


_SHAPE_FEATS = {}


def _shape_features(shp):
    k = _SHAPE_FEATS.get(id(shp))
    if k is None or k[0] is not shp:
        f = {"verb:" + shp["verb"], "body:" + shp["data"][0]}
        for name, sp in SPECIAL_PATHS.items():
            if shp["path"] == sp:
                f.add("path:" + name)
                if name == "question-mark" and shp["params"]:
                    f.add("path:question-mark+params")
        pr = shp["params"]
        if pr is not None:
            f.add("arg:params")
            pairs = pr if isinstance(pr, list) else pr.get("pairs-tuple") if isinstance(pr, dict) else None
            if not pr:
                f.add("arg:params-empty")
            elif pairs is not None:
                f.add("arg:params-pairs-list" if isinstance(pr, list) else "arg:params-pairs-tuple")
                if len({p[0] for p in pairs}) < len(pairs):
                    f.add("arg:params-repeated-name")
        if shp["data"][0] != "none" and not shp["data"][1]:
            f.add("body:falsy")
        if shp["headers"] is not None:
            f.add("hdr:caller")
            if "Content-Type" in shp["headers"]:
                f.add("hdr:content-type")
            if "X-Request-ID" in shp["headers"]:
                f.add("hdr:own-request-id")
        if shp["raw"]:
            f.add("raw-response")
        if len(_SHAPE_FEATS) > 20000:
            _SHAPE_FEATS.clear()
        k = _SHAPE_FEATS[id(shp)] = (shp, f)
    return k[1]


def _b64_profile(kind, creds):
    std = base64.b64encode(creds.encode("utf-8")).decode("ascii")
    f = set()
    if "+" in std:
        f.add(f"auth:{kind}:b64-sextet-62")
    if "/" in std:
        f.add(f"auth:{kind}:b64-sextet-63")
    if any(ord(c) > 127 for c in creds):
        f.add(f"auth:{kind}:non-ascii")
    return f


def _normalise_ret(ret, raw_obj, depth=99):
    if raw_obj is not None and ret is raw_obj:
        return "<raw-response>"
    if depth > 0 and isinstance(ret, list) and len(ret) == 3 and ret[0] == "resp":
        return ["resp", ret[1], _normalise_ret(ret[2], raw_obj, depth - 1)]
    if isinstance(ret, (dict, list, str, int, float, bool)) or ret is None:
        return ret
    return repr(type(ret))


# ------------------------------------------------------------------------------------ enumeration
def derivation_choices(fam, pos, last, with_tuple=True):
    """Derivations enabled in the family ``fam``; ``pos`` makes the post-processor tags distinct."""
    out = []
    tag = ["resp", f"r{pos}"]
    for t, n in enumerate(fam.nodes):
        if n["kind"] == "conn":
            out.append(["wrap", t, [], "none"])
            out.append(["wrap", t, [P1], "single"])
            out.append(["wrap", t, [P2], "single"])
            out.append(["wrap", t, [tag], "single"])
            out.append(["wrap", t, [PQ, tag], "list"])
            out.append(["wrap", t, COMMON_W, "list*"])
            auth = fam.has_auth(t)
            if not auth:
                out.extend(["auth", t, k] for k in ("basic", "token", "client"))
            if n["children"] == 0:
                out.append(["add", t, HDR])
                if not auth:
                    out.append(["add", t, BASIC])
            out.append(["caller", t])
            if last and with_tuple:
                out.append(["wrap", t, [P1, tag], "tuple"])
        else:
            auth = fam.has_auth(t)
            out.append(["clone", t, [], "none"])
            out.append(["clone", t, [PC1], "single"])
            out.append(["clone", t, [tag], "single"])
            out.append(["clone", t, [PC2, tag], "list"])
            out.append(["clone", t, COMMON_C, "list*"])
            out.append(["clone", t, [HDR], "list"])
            out.append(["clone", t, [], "list"])
            if not auth:
                out.append(["clone", t, [BASIC], "single"])
                out.append(["clone", t, [BASIC, HDR], "list"])
            if last and with_tuple:
                out.append(["clone", t, [PC1], "tuple"])
    return out


def model_apply(fam, op):
    mb = made_by(op)
    if op[0] == "wrap":
        fam.wrap(op[1], op[2], mb)
    elif op[0] == "auth":
        fam.wrap(op[1], [AUTH_LAYER[op[2]]], mb)
    elif op[0] == "add":
        fam.add(op[1], op[2])
    elif op[0] == "caller":
        fam.caller(op[1])
    else:
        fam.clone(op[1], op[2], mb)


def _fresh_family(rootname):
    spec = ROOTS[rootname]
    return hm.Family(spec["address"], spec["ids"], PREFIX_MAP)


def derivation_sequences(rootname, depth, first=None, second=None):
    """All derivation sequences of exactly ``depth`` ops (shorter ones are their prefixes); if ``first``
    is given only those starting with the first-level choice of that index."""
    def rec(ops, d):
        fam = _fresh_family(rootname)
        for op in ops:
            model_apply(fam, op)
        if d == depth:
            yield list(ops)
            return
        ch = derivation_choices(fam, d, last=(d == depth - 1))
        if d == 0 and first is not None:
            ch = ch[first:first + 1]
        if d == 1 and second is not None:
            ch = ch[second[0]::second[1]]
        for op in ch:
            if len(op) > 3 and op[3] == "tuple":
                yield list(ops) + [op]       # a tuple derivation ends the history
            else:
                yield from rec(ops + [op], d + 1)
    if depth == 0:
        yield []
    else:
        yield from rec([], 0)


def n_first_choices(rootname, last):
    return len(derivation_choices(_fresh_family(rootname), 0, last))


def probe_ops(fam, seed, probe="full"):
    conn_shapes, caller_shapes = (PROBE, CALLER_PROBE) if probe == "full" else (PROBE_LIGHT, CALLER_PROBE_LIGHT)
    nodes = list(range(len(fam.nodes)))
    k = seed % len(nodes)
    nodes = nodes[k:] + nodes[:k]
    for node in nodes:
        if fam.nodes[node]["kind"] == "conn":
            for s in conn_shapes:
                yield ["req", node, "conn", s]
        else:
            for entry in ENTRY_COMPONENT:
                for s in caller_shapes:
                    yield ["req", node, entry, s]


def request_choices(fam):
    for node, n in enumerate(fam.nodes):
        if n["kind"] == "conn":
            for s in SEQ_SHAPES:
                yield ["req", node, "conn", s]
        else:
            for entry in ENTRY_COMPONENT:
                for s in CALLER_SEQ:
                    yield ["req", node, entry, s]


def interleavings(rootname, pattern, first=None):
    """All histories following ``pattern`` (string of 'D'/'R')."""
    def rec(ops, i, nd):
        if i == len(pattern):
            yield list(ops)
            return
        fam = _fresh_family(rootname)
        for op in ops:
            if op[0] != "req":
                model_apply(fam, op)
        if pattern[i] == "D":
            ch = derivation_choices(fam, nd, last=False, with_tuple=False)
            if nd == 0 and first is not None:
                ch = ch[first:first + 1]
            for op in ch:
                yield from rec(ops + [op], i + 1, nd + 1)
        else:
            for op in request_choices(fam):
                yield from rec(ops + [op], i + 1, nd)
    yield from rec([], 0, 0)


PROC_SHAPES = [shape("get", "r/s"), shape("post", "/r/s", data=DATAS[3], raw=True), shape("get", "", resp=""),
               shape("get", "r/s", resp="null")]


def processor_histories():
    """H4: every chain of 1-2 response processors from {tagging processor} + {processors whose output is
    None, 0, [], ""}, built by two wraps, by one list, by a clone with a list, and by a clone of a wrap."""
    procs = [["resp", "t"]] + [["const", v] for v in CONSTS]
    for p1 in procs:
        yield [["wrap", 0, [p1], "single"]]
        yield [["caller", 0], ["clone", 1, [p1], "single"]]
        for p2 in procs:
            if p1[0] == "resp" and p2[0] == "resp":
                continue
            yield [["wrap", 0, [p1], "single"], ["wrap", 1, [p2], "single"]]
            yield [["wrap", 0, [p1, p2], "list"]]
            yield [["caller", 0], ["clone", 1, [p1, p2], "list"]]
            yield [["wrap", 0, [p1], "single"], ["caller", 1], ["clone", 2, [p2], "single"]]


def patterns(nd, nr):
    return sorted({"".join(p) for p in itertools.permutations("D" * nd + "R" * nr)})


H0_PARTS = 3     # the (family, node, entry point) histories of one H0 first-choice are dealt out over 3 shards


def shards(tier):
    t = TIERS[tier]
    out = []
    for root, depth, probe in t["H1"]:
        m = 1 if depth < 3 else 4 if depth == 3 else 16
        for i in range(n_first_choices(root, last=(depth == 1))):
            for r in range(m):
                out.append(("H1", root, depth, i, (r, m), probe))
    for root, dmax in t["H0"].items():
        out.append(("H0", root, 0, None, (0, 1)))
        for depth in range(1, dmax + 1):
            for i in range(n_first_choices(root, last=(depth == 1))):
                for r in range(H0_PARTS):
                    out.append(("H0", root, depth, i, (r, H0_PARTS)))
    for root, dmax in t["H3"].items():
        out.append(("H3", root, 0, None))
        for depth in range(1, dmax + 1):
            for i in range(n_first_choices(root, last=(depth == 1))):
                out.append(("H3", root, depth, i))
    for root in t["H4"]:
        out.append(("H4", root))
        out.append(("H5", root))
    for root, nd, nr in t["H2"]:
        for pat in patterns(nd, nr):
            for i in range(n_first_choices(root, last=False) - 0):
                out.append(("H2", root, pat, i))
    return out


# ------------------------------------------------------------------------------------ running histories
def _signature(world, node, entry, cls, altered):
    """Class of the mismatch + where it was seen.  Failures to build or to send keep the exact kind of
    the derivation that made the node (``clone-list`` ...); mismatching requests are grouped coarsely."""
    n = world.fam.nodes[node]
    mb = n["made_by"]
    comp = ENTRY_COMPONENT[entry] if entry != "conn" else None
    if altered:
        return f"C17:original-altered:{cls}:after-{world.last_deriv.split('-')[0]}"
    if cls.startswith("request-raises"):
        return f"C17:{cls}:{mb}"
    where = "clone" if mb.startswith("clone") else "caller" if n["kind"] == "caller" else "conn"
    if comp is not None and PREFIX_MAP[comp]:
        where += "+component"
    return f"C17:{cls}:{where}"


def run_ops(rootname, ops, probes_after_derivation=None, seed=0):
    """Run one history on a fresh world.  ``ops`` mixes derivations and ["req", node, entry, shape].
    probes_after_derivation: None, or a function(fam, k, n) -> request ops issued after the k-th of the
    history's n derivations.
    -> (world, findings, executed)  findings = [(signature, text, observed, expected, explicit ops so far)]"""
    w = World(rootname)
    findings = []
    executed = []
    nreq = 0
    nderiv = sum(1 for o in ops if o[0] != "req")
    kderiv = 0

    def do_req(op, probing):
        nonlocal nreq
        _, node, entry, shp = op
        nreq += 1
        res = w.request(node, entry, shp)
        key = (node, entry, _key(shp))
        if not res:
            w.passed.add(key)
            return
        altered = key in w.passed
        for cls, text, obs, exp in res[:1]:
            findings.append((_signature(w, node, entry, cls, altered), text, obs, exp,
                             [o for o in executed] + [op]))

    for op in ops:
        if op[0] == "req":
            do_req(op, False)
            executed.append(op)
            continue
        r = w.derive(op)
        executed.append(op)
        if r is not None:
            if r[0] == "violation":
                findings.append((f"C17:{r[1]}:{made_by(op)}", "derivation failed: " + r[2], r[2],
                                 "a new connection / caller", list(executed)))
            break
        kderiv += 1
        if probes_after_derivation is not None:
            for p in list(probes_after_derivation(w.fam, kderiv, nderiv)):
                do_req(p, True)
                executed.append(p)
    w.nreq = nreq
    return w, findings, executed


def _derivs(ops):
    return [o for o in ops if o[0] != "req"]


def _drop(ops, i):
    """ops without ops[i]; later ops that depend on a node created by it are dropped or renumbered.
    -> new list or None if the last op would disappear."""
    counts = []          # nodes created by each op (in the unshrunk history)
    n = 1
    first_new = []
    for o in ops:
        c = 0 if o[0] in ("req", "add") else 2 if o[0] == "clone" else 1
        first_new.append(n)
        counts.append(c)
        n += c
    lo, c = first_new[i], counts[i]
    dead = set(range(lo, lo + c))
    out = []
    for j, o in enumerate(ops):
        if j == i:
            continue
        t = o[1]
        if t in dead:
            # everything created by a dropped-dependent op dies too
            dead.update(range(first_new[j], first_new[j] + counts[j]))
            continue
        shift = sum(1 for d in dead if d < t)
        o2 = list(o)
        o2[1] = t - shift
        out.append(o2)
    if not out or out[-1][2:] != ops[-1][2:] or out[-1][0] != ops[-1][0]:
        return None
    return out


def shrink(rootname, ops, sig):
    """Greedy: drop single ops while the last op still yields the same signature."""
    def fails(cand):
        try:
            _, f, ex = run_ops(rootname, cand)
        except Exception:  # noqa
            return False
        return any(s == sig and len(e) == len(cand) for s, _, _, _, e in f)
    # first try: derivations + the failing op only
    last = ops[-1]
    cand = _derivs(ops[:-1]) + [last] if last[0] == "req" else None
    if cand is not None and len(cand) < len(ops) and fails(cand):
        ops = cand
    changed = True
    while changed:
        changed = False
        for i in range(len(ops) - 2, -1, -1):
            cand = _drop(ops, i)
            if cand is not None and fails(cand):
                ops = cand
                changed = True
                break
    return ops


MAX_SHRINKS_PER_SHARD = 4


def _report(acc, rootname, findings, shrunk_sigs):
    """Every history with a finding is counted under the signature of its first finding; per shard the
    first case of a signature is shrunk (bounded work), further ones are kept only while small."""
    for sig, text, obs, exp, ops in findings[:1]:
        if sig not in shrunk_sigs and len(shrunk_sigs) < MAX_SHRINKS_PER_SHARD:
            shrunk_sigs[sig] = 1
            ops = shrink(rootname, ops, sig)
            acc.violation(sig, {"root": rootname, "ops": ops}, text, obs, exp)
        elif acc.viol_count[sig] < 50 and len(ops) <= 12:
            acc.violation(sig, {"root": rootname, "ops": ops}, text, obs, exp)
        else:
            acc.viol_count[sig] += 1


def _outcome(w):
    best = (0, "")
    for i in range(len(w.fam.nodes)):
        ch = w.fam.chain(i)
        kinds = [l[0] for l in ch]
        auth = next((k for k in kinds if k in hm.AUTH_KINDS), "noauth")
        lab = f"len{len(ch)}:{auth}:p{kinds.count('prefix')}:r{kinds.count('resp')}:h{kinds.count('hdr')}"
        best = max(best, (len(ch), lab))
    return best[1]


def _account(acc, w, findings, nops, sample=None):
    nontrivial = "chain:2+contributors" in w.feats or "reprobe-of-original" in w.feats
    acc.case(nontrivial=nontrivial, features=sorted(w.feats),
             outcome=("ok " if not findings else "VIOL ") + _outcome(w), traces=w.nreq)
    acc.trans(nops)
    acc.note_max("nodes_in_family", len(w.fam.nodes))
    acc.note_max("requests_in_history", w.nreq)
    if sample is not None:
        acc.sample(sample)


def run_shard(shard, tier, seed, acc):
    kind, rootname = shard[0], shard[1]
    shrunk = {}
    with _Seam():
        if kind == "H1":
            _, _, depth, first, second, probe = shard
            for k, ops in enumerate(derivation_sequences(rootname, depth, first, second)):
                w, findings, executed = run_ops(
                    rootname, ops, lambda fam, k, n: probe_ops(fam, seed, probe) if probe == "full" or k == n else (),
                    seed)
                _account(acc, w, findings, len(executed),
                         {"H1": rootname, "derivations": ops} if k % 97 == seed % 97 else None)
                _report(acc, rootname, findings, shrunk)
                if k % 64 == 0 and acc.expired():
                    return
        elif kind == "H0":
            _, _, depth, first, (part, nparts) = shard
            idx = -1
            for ops in derivation_sequences(rootname, depth, first):
                if any(len(o) > 3 and o[3] == "tuple" for o in ops):
                    continue
                fam = _fresh_family(rootname)
                for o in ops:
                    model_apply(fam, o)
                for node, n in enumerate(fam.nodes):
                    entries = ["conn"] if n["kind"] == "conn" else list(ENTRY_COMPONENT)
                    for entry in entries:
                        idx += 1
                        if idx % nparts != part:
                            continue
                        reqs = [["req", node, entry, s] for s in full_shapes()]
                        w, findings, executed = run_ops(rootname, ops + reqs)
                        _account(acc, w, findings, len(executed))
                        _report(acc, rootname, findings, shrunk)
                if acc.expired():
                    return
        elif kind == "H5":
            shapes = [shape(v, pth, params=prm) for pth in list(SPECIAL_PATHS.values()) + ["/r/s", "r/s"]
                      for v, prm in (("get", None), ("get", PARAMS[1]), ("post", PAIRS))]
            for ops in ([], [["wrap", 0, [P1], "single"]], [["wrap", 0, [SPECIAL_PREFIX], "single"]], [["caller", 0]],
                        [["caller", 0], ["clone", 1, [SPECIAL_PREFIX], "single"]],
                        [["wrap", 0, [SPECIAL_PREFIX], "single"], ["wrap", 1, [P2], "single"]]):
                fam = _fresh_family(rootname)
                for o in ops:
                    model_apply(fam, o)
                reqs = []
                for node, n in enumerate(fam.nodes):
                    for entry in (["conn"] if n["kind"] == "conn" else ["m_plain", "m_a"]):
                        reqs.extend(["req", node, entry, s] for s in shapes)
                w, findings, executed = run_ops(rootname, ops + reqs)
                _account(acc, w, findings, len(executed))
                _report(acc, rootname, findings, shrunk)
        elif kind == "H4":
            for ops in processor_histories():
                fam = _fresh_family(rootname)
                for o in ops:
                    model_apply(fam, o)
                reqs = []
                for node, n in enumerate(fam.nodes):
                    for entry in (["conn"] if n["kind"] == "conn" else ["m_plain", "m_b"]):
                        reqs.extend(["req", node, entry, s] for s in PROC_SHAPES)
                w, findings, executed = run_ops(rootname, ops + reqs)
                _account(acc, w, findings, len(executed))
                _report(acc, rootname, findings, shrunk)
        elif kind == "H3":
            _, _, depth, first = shard
            for ops in derivation_sequences(rootname, depth, first):
                if any(len(o) > 3 and o[3] == "tuple" for o in ops):
                    continue
                fam = _fresh_family(rootname)
                for o in ops:
                    model_apply(fam, o)
                reqs = []
                for node, n in enumerate(fam.nodes):
                    for entry in (["conn"] if n["kind"] == "conn" else list(ENTRY_COMPONENT)):
                        reqs.extend(["req", node, entry, s] for s in RESP_SHAPES)
                w, findings, executed = run_ops(rootname, ops + reqs)
                _account(acc, w, findings, len(executed))
                _report(acc, rootname, findings, shrunk)
                if acc.expired():
                    return
        elif kind == "H2":
            _, _, pat, first = shard
            for k, ops in enumerate(interleavings(rootname, pat, first)):
                w, findings, executed = run_ops(rootname, ops)
                _account(acc, w, findings, len(executed),
                         {"H2": rootname, "pattern": pat, "ops": ops} if k % 9973 == seed % 9973 else None)
                _report(acc, rootname, findings, shrunk)
                if k % 256 == 0 and acc.expired():
                    return
        else:
            raise ValueError(shard)


def replay(case, acc):
    with _Seam():
        w, findings, executed = run_ops(case["root"], case["ops"])
        w2, findings2, _ = run_ops(case["root"], case["ops"])
    if [f[:4] for f in findings] != [f[:4] for f in findings2]:
        raise RuntimeError("replay diverged: nondeterminism not owned")
    acc.case(nontrivial=True, features=sorted(w.feats), outcome=_outcome(w), traces=w.nreq)
    acc.trans(len(executed))
    for sig, text, obs, exp, ops in findings:
        acc.violation(sig, case, text, obs, exp)


_MODSTATE = ModuleState(conn_http, mcaller_http)     # after Caller exists: its class dicts are owned too


def selftest():
    hm.selftest()
    # the model and the enumeration agree on indices; the repository test's expectations hold on the harness
    with _Seam():
        w, findings, _ = run_ops("str", [["caller", 0], ["clone", 1, [BASIC], "single"],
                                         ["req", 3, "m_a", PROBE[4]], ["req", 1, "m_a", PROBE[0]]])
    assert not findings, findings
    assert _drop([["caller", 0], ["wrap", 0, [], "none"], ["req", 2, "conn", PROBE[0]]], 0) == \
        [["wrap", 0, [], "none"], ["req", 1, "conn", PROBE[0]]]
