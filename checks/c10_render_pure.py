"""C10 — rendering is pure: colors never change layout, output has no memory (DESIGN.md §2 C10).

What is explored (all of it, nothing sampled), on the real ak.color / ak.ppobj / ak.ghist / ak.hdoc:

  static   every (printable object x colors configuration x palette variant x route) rendered in its own
           fresh interpreter: colored text with escape sequences removed == no_color text, no ESC in
           no_color output, line-by-line == whole, global configuration == explicitly passed one.
  hist     every history of <= depth operations over the alphabet of bounds(): render whole / by lines /
           through a suspended line iterator, under the global configuration, an explicit one, no_color,
           a palette class, a palette object; drop a configuration (+gc), replace the global one; change
           a table's record limits; build a second table from the first one's format object; each
           history replayed from a pristine world (mc.hist_render.World.reset: documented cache reset +
           freshly built objects), with adversarial id() answers.  Oracle: the rendering obtained at the
           end of the history must be the one a fresh process produces for the same (object, format,
           configuration in force, palette variant) with *no* rendering before it.
  merge    two line iterators over the same table under different palettes advanced in *every* merge
           order (E3); each must deliver its pristine text.
  reset    self check of the harness: a block of histories is run in two different orders and must
           observe the same texts (proves reset_world complete; a difference is a harness error).
"""

import itertools
import os
import sys

from mc import core
from mc import hist_render as H
from models import render_objs as R

ID = "C10"
TITLE = "Rendering is pure: colors never change layout and output has no memory"
TECHNIQUE = ("explicit-state search over rendering histories on the real objects, all interleavings of "
             "two line iterators, adversarial id() answers; oracle = pristine-process rendering")
DESIGN_REF = "§2 C10"
LEVEL_TEXT = ("Every history of at most `depth` operations (render whole / by lines / suspended iterator under "
              "global, explicit, no_color, palette-class and palette-object colors; drop and replace "
              "configurations) over five kinds of printable objects and four configurations is executed "
              "from a pristine world and its final rendering compared with the rendering of a fresh "
              "interpreter; every merge order of two line iterators of one table is executed.")
LEVEL_NOTE = ("Bounded: history depth, one object of each kind, four configurations. id() answers follow one "
              "adversarial policy (lowest free slot). Trusted: the independent SGR stripper in "
              "models/render_objs.py, the subprocess plumbing. Content of the renderings is not judged here.")
RULE = ("case = one history (sequence of operations, enabled by the model, ending in an observable rendering) "
        "or one merge order of two iterators or one pristine (object, configuration, variant, route) entry; "
        "histories are distinct as sequences. Non-trivial: a history with >= 2 operations of which an earlier "
        "one differs from the observed one (something could have been left behind); a merge order with >= 1 "
        "switch between the iterators; every static entry with a colored configuration.")
ASSUMPTIONS = [
    "colors configurations are self-contained: a description refers only to built-in syntaxes or to syntaxes "
    "defined in the same map (a reference to a syntax some component registers later resolves differently "
    "before and after that component's first use; this is by design of lazy registration and not judged)",
    "records are never modified; a table's format is changed only between renderings, never while one of its "
    "line iterators is suspended (the generator re-reads the table's format object: mixing two formats in one "
    "rendering is outside the property); a PPRecordFmt keeps the widths negotiated for its first record: "
    "formatter + record is treated as one printable object",
    "a palette *object* carries the configuration it was created from; an HCommand carries the palette it "
    "captured when it was created (observed and counted, not judged)",
    "texts contain no escape characters",
]
REQUIRED_FEATURES = [
    "obj:pp", "obj:table", "obj:recfmt", "obj:ghist", "obj:hdoc",
    "how:global", "how:conf", "how:no_color", "how:palette-class", "how:palette-class-from-factory",
    "how:palette-object", "hist:shared-enum-saw-long-unknown-value", "hist:iterator-abandoned", "hist:derived-text-modified",
    "merge:two-results-of-one-printer",
    "hist:drop", "hist:glob", "hist:config-recreated", "hist:fmt-change", "iter:suspended-across-op",
    "iter:by-lines",
    "merge:interleaved", "static:colored-differs-per-config", "static:palette-class-differs",
    "static:strip-eq-no_color", "kept:line-objects-read-after-exhaustion", "reset:orders-agree",
]

# ------------------------------------------------------------------------------------ alphabet
_RENDER_Q = {
    "tbl": ["g", "cA", "cB", "cC", "nc", "pc", "po", "f1", "f2"],
    "tbl2": ["g"],
    "tblu": ["g", "nc"],
    "recu": ["cA"],
    "pp": ["g", "cA", "nc", "pc", "f1", "f2"],
    "pp2": ["g", "nc"],
    "rec1": ["g", "cA", "cB", "nc"],
    "rec2": ["cB"],
    "recr": ["g"],
    "gh": ["g", "cA", "cB", "nc"],
    "hd": ["g"],
}
_LINES_Q = [("tbl", "cA"), ("pp", "g")]
_OPEN_Q = [("tbl", "cA"), ("tbl", "cB"), ("tbl", "g")]
_CONTROL = [["drop", "A"], ["drop", "B"], ["glob", "A"], ["glob", "B"], ["glob", "N"], ["glob", "C"], ["glob", "-"],
            ["fmt", "tbl", "*"], ["fmt", "tbl", "1:1"], ["f"], ["hnew"], ["hp"],
            ["ab", "pp", "g", 9], ["ab", "pp2", "nc", 4], ["fl", "pp", "g"]]
# extra operations of the thorough tier: base + these = 'ext', explored to length 3 (the quick tier explores
# 'base' to length 3; the thorough tier additionally explores the sub-alphabet _CORE at length 4)
_EXTRA_T = ([["r", "tbl", h] for h in ("cN", "pcA", "pcB", "ponc")] +
            [["r", "pp", h] for h in ("cB", "po", "pcB")] +
            [["r", "gh", h] for h in ("pc", "po")] + [["r", "tbl2", "nc"], ["r", "tbl2", "cB"]] +
            [["r", "rec1", "pc"], ["r", "tbl_s", "cA"], ["r", "tbl_s", "cB"]] +
            [["l", "gh", "cA"], ["l", "tbl", "pc"], ["o0", "tbl", "cA"], ["o0", "pp", "cB"], ["o", "pp", "cA"],
             ["drop", "N"], ["drop", "C"], ["l", "pp2", "g"], ["r", "pp2", "cA"], ["ab", "pp", "nc", 12],
             ["ab", "tbl", "cA", 5], ["fl", "tbl", "cA"], ["fl", "gh", "g"], ["r", "tblu", "cC"], ["r", "tblu", "cB"], ["r", "recu", "g"], ["r", "tbl", "f1A"], ["r", "tbl", "f2A"],
             ["r", "pp", "f2A"], ["l", "tblu", "cA"], ["r", "tbl2", "cA"], ["r", "rec2", "cA"], ["r", "recr", "cB"], ["o", "gh", "cB"]])


# the operations explored one level deeper in the thorough tier (histories of exactly 4 operations)
_CORE = ([["r", "tbl", h] for h in ("g", "cA", "cB", "nc", "pc", "po")] +
         [["r", "pp", "g"], ["r", "pp", "cA"], ["r", "rec1", "g"], ["r", "rec1", "cA"], ["r", "rec1", "cB"],
          ["r", "gh", "g"], ["r", "gh", "cB"], ["r", "hd", "g"], ["r", "tbl2", "g"],
          ["r", "tbl", "f1"], ["r", "tbl", "f2"], ["r", "tblu", "g"], ["r", "recu", "cA"],
          ["r", "pp2", "g"], ["ab", "pp", "g", 9],
          ["o", "tbl", "cA"], ["o", "tbl", "g"], ["f"], ["l", "tbl", "cA"],
          ["fmt", "tbl", "*"], ["fmt", "tbl", "1:1"],
          ["drop", "A"], ["drop", "B"], ["glob", "A"], ["glob", "B"], ["glob", "N"], ["glob", "-"]])


def alphabet(name):
    """'base' (quick tier), 'ext' (thorough, superset of base), 'core' (thorough, subset of base)."""
    if name == "core":
        return [list(c) for c in _CORE]
    ops = [["r", o, h] for o, hows in _RENDER_Q.items() for h in hows]
    ops += [["l", o, h] for o, h in _LINES_Q]
    ops += [["o", o, h] for o, h in _OPEN_Q]
    ops += [list(c) for c in _CONTROL]
    if name == "ext":
        ops += [list(c) for c in _EXTRA_T]
    return ops


_MERGE_PAIRS = [("cA", "cB"), ("cA", "g"), ("nc", "cB"), ("pc", "cA"), ("cA", "cA"), ("po", "g")]
_MERGE_PREFIX = [[], [["r", "tbl_s", "cB"]], [["glob", "B"]], [["r", "tbl_s", "cA"], ["drop", "A"]]]
# two *different* multi-line results of the one shared printer, consumed in turns: every order with at most
# 3 changes of turn plus the two strict alternations
_PP_MERGE = [(["pp", "g"], ["pp2", "g"]), (["pp", "nc"], ["pp2", "nc"]), (["pp2", "cA"], ["pp", "nc"])]
_SPLIT = 4            # second-operation classes per first operation (shard granularity)


def bounds(tier):
    b = {"objects": sorted(R.OBJECT_KINDS), "configurations": sorted(R.CONF_SPECS),
         "merge": {"table": "tbl_s (7 lines)", "pairs": len(_MERGE_PAIRS),
                   "prefixes": 1 if tier == "quick" else len(_MERGE_PREFIX), "orders_per_pair": 3432},
         "id_policy": "adversarial: lowest free slot, freed when the object dies",
         "static_entries": len(R.reference_requests())}
    if tier == "quick":
        b["histories"] = [{"operations": len(alphabet("base")), "length": "1..3"}]
    else:
        b["histories"] = [{"operations": len(alphabet("ext")), "length": "1..3"},
                          {"operations": len(alphabet("core")), "length": "4"}]
    return b


def shards(tier):
    if os.path.basename(sys.argv[0]) == "runner.py":
        _reference()                  # computed once, in fresh processes, before the workers are forked
                                      # (other callers only list the shards; workers fall back to computing it)
    sh = [("static",), ("reset", 0), ("reset", 1)]
    if tier == "quick":
        for i in range(len(alphabet("base"))):
            for j in range(_SPLIT):
                sh.append(("hist", "base", 1, 3, i, j, _SPLIT))
    else:
        for i in range(len(alphabet("ext"))):
            for j in range(3):
                sh.append(("hist", "ext", 1, 3, i, j, 3))
        for i in range(len(alphabet("core"))):
            for j in range(6):
                sh.append(("hist", "core", 4, 4, i, j, 6))
    for pi in range(len(_PP_MERGE)):
        sh.append(("ppmerge", pi))
    prefixes = range(1) if tier == "quick" else range(len(_MERGE_PREFIX))
    for pi in range(len(_MERGE_PAIRS)):
        for xi in prefixes:
            for head in ("aa", "ab", "ba", "bb"):
                sh.append(("merge", pi, xi, head))
    return sh


# ------------------------------------------------------------------------------------ reference
_REF = None


def _reference():
    global _REF
    if _REF is None:
        reqs = R.reference_requests()
        try:
            res = R.pristine(reqs, repo=core.REPO)
        except Exception as e:  # noqa
            # without pristine renderings nothing can be judged: a harness error, never a verdict
            print(f"HARNESS-ERROR: C10 cannot obtain the pristine reference renderings: {e}")
            raise SystemExit(2)
        _REF = {R.req_key(q): r for q, r in zip(reqs, res)}
    return _REF


def expected(name, key):
    """Pristine text for object `name` under reference key (format state, spec, variant)."""
    ref = _reference()
    fmt, spec, variant = key
    if spec == "nc":
        return ref[(name, fmt, "nc", "std", "explicit")]["whole"]
    route = "global" if R.OBJECT_KINDS[name] == "hdoc" else "explicit"
    return ref[(name, fmt, spec, variant, route)]["whole"]


def same_text(a, b):
    return a == b or R.styled(a) == R.styled(b)


# ------------------------------------------------------------------------------------ model of enabledness
def enabled(ops):
    """Cheap model run: is every operation enabled, and is anything observed at the end?"""
    slots, open_objs, hcmd = set(), [], False
    for op in ops:
        k = op[0]
        if k == "drop":
            if op[1] not in slots:
                return False
            slots.discard(op[1])
        elif k == "glob":
            if op[1] != "-":
                slots.add(op[1])
        elif k == "f":
            if not open_objs:
                return False
            open_objs.pop(0)
        elif k == "hnew":
            if hcmd:
                return False
            hcmd = True
        elif k == "hp":
            if not hcmd:
                return False
        elif k == "fmt":
            if op[1] in open_objs:
                return False               # the object is modified while one of its renderings is in progress
        elif k in ("ab", "fl"):
            if op[2][0] == "c":
                slots.add(op[2][1])
        else:
            how = op[2]
            if how[0] == "c":
                slots.add(how[1])
            elif len(how) == 3 and (how.startswith("pc") or how[0] == "f"):
                slots.add(how[2])
            if k in ("o", "o0"):
                open_objs.append(op[1])
    if ops[-1][0] in ("drop", "glob", "hnew", "fmt", "ab") and not open_objs:
        return False                       # nothing observable at the end: same as the prefix
    return True


_HOW_FEATURE = {"g": "how:global", "nc": "how:no_color", "pc": "how:palette-class", "po": "how:palette-object",
                "ponc": "how:palette-object"}


def how_feature(how):
    if how in _HOW_FEATURE:
        return _HOW_FEATURE[how]
    if how[0] == "c":
        return "how:conf"
    if how[0] == "f":
        return "how:palette-class-from-factory"
    return "how:palette-class"


# ------------------------------------------------------------------------------------ judging
def judge(obs, case, acc):
    """Compare observations with the pristine reference; -> outcome label."""
    label = "ok"
    for ob in obs:
        name, key, text, via = ob[0], ob[1], ob[2], ob[3]
        kind = R.OBJECT_KINDS[name]
        want = expected(name, key)
        if via == "hp":
            # console help through a long-lived HCommand: judged against the palette it captured
            if key[1] != case.get("_global_spec", key[1]):
                acc.feat("hdoc:long-lived-command-shows-colors-of-creation-time")
        if not ob[4]["kept_ok"]:
            acc.violation(f"C10:kept-lines-differ:{kind}", _pub(case),
                          f"line objects of {name} kept by the consumer read differently after the iterator went on "
                          f"than when they were delivered", _diff(text, ob[4]["imm"]), _diff(ob[4]["imm"], text))
            label = "viol:kept-lines"
            continue
        if key[1] in ("nc", "N") and R.ESC in text:
            acc.violation(f"C10:escape-in-no-color:{kind}", _pub(case),
                          f"no_color rendering of {name} contains an escape character", text[:600], want[:600])
            label = "viol:escape-in-no-color"
            continue
        if same_text(text, want):
            continue
        what = "colors" if R.strip_sgr(text) == R.strip_sgr(want) else "text"
        how = "memory" if via in ("whole", "hp") else ("memory-lines" if via == "lines" else "memory-iter")
        acc.violation(
            f"C10:{how}:{kind}:{what}", _pub(case),
            f"{name} (format state {key[0]}) rendered ({via}) for configuration {key[1]}/{key[2]} at the end of this "
            f"history differs from "
            f"the rendering of a pristine process ({what} differ)",
            _diff(text, want), _diff(want, text))
        label = f"viol:{how}:{what}"
    return label


def _pub(case):
    return {k: v for k, v in case.items() if not k.startswith("_")}


def _diff(a, b):
    """The lines of a that differ from b (for the report), bounded."""
    la, lb = a.split("\n"), b.split("\n")
    out = []
    for i, line in enumerate(la):
        if i >= len(lb) or lb[i] != line:
            out.append(f"{i}: {line}")
    return out[:6] or [a[:300]]


# ------------------------------------------------------------------------------------ shards
def run_history(ops, acc, w):
    case = {"kind": "hist", "ops": ops, "ids": "adversarial"}
    try:
        obs, suspended = w.run(ops)
    except H.HistoryDisabled:
        acc.feat("disabled-at-run-time")
        return
    except Exception as e:  # noqa  -- every operation of the alphabet works in a pristine world (static shard)
        acc.trans(w.n_ops)
        acc.violation(f"C10:rendering-raises-after-history:{type(e).__name__}", case,
                      "an operation that works in a pristine process raised at the end of / during this history",
                      f"{type(e).__name__}: {e}"[:400], "a rendering")
        acc.case(nontrivial=len(ops) >= 2, features=["len:%d" % len(ops)], outcome="viol:raises")
        return
    acc.trans(w.n_ops + len(obs))
    case["_global_spec"] = w.global_spec
    last = ops[-1]
    feats = ["len:%d" % len(ops)]
    for ob in obs:
        feats.append("obj:" + R.OBJECT_KINDS[ob[0]])
    if last[0] in ("r", "l", "o", "o0", "fl"):
        feats.append(how_feature(last[2]))
    if last[0] == "l":
        feats.append("iter:by-lines")
    if suspended and last[0] not in ("o", "o0"):
        feats.append("iter:suspended-across-op")
    for ev in w.events:
        feats.append("hist:" + ev)
    if any(len(op) == 3 and op[1] in ("tblu", "recu") for op in ops[:-1]) and any(
            ob[0] not in ("tblu", "recu") and R.OBJECT_KINDS[ob[0]] in ("table", "recfmt") for ob in obs):
        feats.append("hist:shared-enum-saw-long-unknown-value")
    if w.ids.reuses:
        feats.append("env:id-slot-reused")
    if w.ids.calls:
        feats.append("env:id()-consulted")
    nontrivial = len(ops) >= 2 and any(op != last for op in ops[:-1])
    label = judge(obs, case, acc)
    specs = ",".join(sorted({f"{ob[1][1]}/{ob[1][2]}" for ob in obs}))
    acc.case(nontrivial=nontrivial, features=feats,
             outcome=f"{label}:{last[0]}:{specs}:{'reuse' if w.ids.reuses else 'noreuse'}", traces=max(1, len(obs)))
    acc.note_max("live_tracked_palettes", w.ids.max_live)
    acc.note_sum("id_slot_reuses", w.ids.reuses)
    if nontrivial and len(ops) == 3:
        acc.sample(_pub(case))


def _hist_shard(shard, acc):
    """All enabled histories with minlen <= length <= maxlen that start with operation i and whose
    second operation has index = j modulo split (the one-operation history goes with j == 0)."""
    _, alpha, minlen, maxlen, i, j, split = shard
    w = H.world()
    ops_all = alphabet(alpha)
    first = ops_all[i]
    if j == 0 and minlen <= 1 and enabled([first]):
        run_history([first], acc, w)
    for k2, second in enumerate(ops_all):
        if k2 % split != j:
            continue
        base = [first, second]
        if minlen <= 2 <= maxlen and enabled(base):
            run_history(base, acc, w)
        for rest_len in range(max(1, minlen - 2), maxlen - 1):
            for rest in itertools.product(ops_all, repeat=rest_len):
                ops = base + [list(r) for r in rest]
                if not enabled(ops):
                    continue
                run_history(ops, acc, w)
            if acc.expired():
                return


def _merge_shard(shard, acc):
    _, pi, xi, head = shard
    w = H.world()
    ha, hb = _MERGE_PAIRS[pi]
    prefix = _MERGE_PREFIX[xi]
    n = len(_reference()[("tbl_s", None, "nc", "std", "explicit")]["lines"])
    for order in H.merge_orders(n, n):
        if not order.startswith(head):
            continue
        run_merge(prefix, ["tbl_s", ha], ["tbl_s", hb], order, acc, w)
        if acc.expired():
            return


def _ppmerge_shard(shard, acc):
    w = H.world()
    a, b = _PP_MERGE[shard[1]]
    ref = _reference()
    na = len(ref[(a[0], None, "nc", "std", "explicit")]["lines"])
    nb = len(ref[(b[0], None, "nc", "std", "explicit")]["lines"])
    orders = set(H.merge_orders(na, nb, 3))
    for first, other in (("a", "b"), ("b", "a")):          # strict alternation, the rest of the longer one last
        left = {"a": na, "b": nb}
        s, turn = "", first
        while left["a"] or left["b"]:
            if left[turn]:
                s += turn
                left[turn] -= 1
            turn = other if turn == first else first
        orders.add(s)
    for order in sorted(orders):
        run_merge([], list(a), list(b), order, acc, w)
        if acc.expired():
            return


def run_merge(prefix, a, b, order, acc, w):
    case = {"kind": "merge", "prefix": prefix, "a": a, "b": b, "order": order, "ids": "adversarial"}
    obs = w.run_merge(prefix, a, b, order)
    acc.trans(len(order) + len(prefix) + 2)
    switches = sum(1 for x, y in zip(order, order[1:]) if x != y)
    kind_a = R.OBJECT_KINDS[a[0]]
    feats = ["merge:interleaved" if switches else "merge:sequential", how_feature(a[1]), how_feature(b[1]),
             "obj:" + kind_a]
    if a[0] != b[0] and switches:
        feats.append("merge:two-results-of-one-printer")
    for ob in obs:
        if ob[4]["leftover"]:
            acc.violation(f"C10:iterator-length:{kind_a}", case, "a line iterator delivered a different number of "
                          "lines than the pristine rendering has", ob[4]["leftover"], 0)
    label = judge(obs, case, acc)
    acc.case(nontrivial=switches >= 1, features=feats, outcome=f"{label}:merge:sw{min(switches, 6)}", traces=2)
    if switches == 5 and order.startswith("abba"):
        acc.sample(case)


def _static_shard(acc):
    ref = _reference()
    for key in sorted(ref, key=repr):
        check_static(key, ref, acc)
    # vacuity guard: the configurations (and the alternative palette classes) must be distinguishable;
    # counted per object -- REQUIRED_FEATURES makes the run fail as vacuous if none is
    for name in R.OBJECT_KINDS:
        route = "global" if R.OBJECT_KINDS[name] == "hdoc" else "explicit"
        texts = [ref[(name, None, s, "std", route)]["whole"] for s in R.COLORED_SPECS]
        if len(set(texts)) == len(texts) and all(R.ESC in t for t in texts):
            acc.feat("static:colored-differs-per-config")
        else:
            acc.feat("static:configs-not-distinguishable:" + name)
        if name in R.HAS_PALETTE_CLASS:
            if ref[(name, None, "A", "pc", "explicit")]["whole"] != ref[(name, None, "A", "std", "explicit")]["whole"]:
                acc.feat("static:palette-class-differs")


def check_static(key, ref, acc):
    name, fmt, spec, variant, route = key
    kind = R.OBJECT_KINDS[name]
    ent = ref[key]
    plain = ref[(name, fmt, "nc", "std", "explicit")]["whole"]
    case = {"kind": "static", "req": {"obj": name, "fmt": fmt, "spec": spec, "variant": variant, "route": route}}
    acc.trans(2 if "lines" in ent else 1)
    feats = ["obj:" + kind, "static:" + ("no_color" if spec in ("nc", "N") else "colored")]
    label = "ok"
    whole = ent["whole"]
    if spec in ("nc", "N") and R.ESC in whole:
        acc.violation(f"C10:escape-in-no-color:{kind}", case, "no_color rendering contains an escape character",
                      whole[:600], plain[:600])
        label = "viol:esc"
    if R.strip_sgr(whole) != plain:
        acc.violation(f"C10:colors-change-layout:{kind}", case,
                      f"rendering of {name} under {spec}/{variant} with escape sequences removed is not the "
                      f"no_color rendering", _diff(R.strip_sgr(whole), plain), _diff(plain, R.strip_sgr(whole)))
        label = "viol:layout"
    else:
        feats.append("static:strip-eq-no_color")
    if "lines" in ent:
        joined = "\n".join(ent["lines"])
        feats.append("iter:by-lines")
        if not same_text(joined, whole):
            acc.violation(f"C10:lines-vs-whole:{kind}", case, "line-by-line consumption differs from the whole text",
                          _diff(joined, whole), _diff(whole, joined))
            label = "viol:lines"
        if ent["lines_str"] != ent["lines"]:
            # the items of the iterator are not text-like: str(line) is not the line's text
            acc.violation(f"C10:line-object-not-text:{kind}", case,
                          "str() of the items delivered by the line iterator, joined, is not the whole text "
                          "(items are not CHText objects)",
                          [x[:120] for x in _diff("\n".join(ent["lines_str"]), whole)][:3], _diff(whole, "")[:3])
            label = "viol:line-object"
    kept = ent["kept"]
    feats.append("kept:line-objects-read-after-exhaustion")
    acc.trans(2)
    problems = []
    for tag in ("imm", "late", "only_late"):
        if not same_text(kept["sep"].join(kept[tag]), whole):
            problems.append(f"texts '{tag}' joined differ from the whole text")
        lens = kept[tag + "_len"]
        if any(n is not None and n != len(R.strip_sgr(t)) for n, t in zip(lens, kept[tag])):
            problems.append(f"len() of a line object ('{tag}') is not the length of its text")
    if kept["late"] != kept["imm"] or kept["only_late"] != kept["imm"]:
        problems.append("a kept line object reads differently after the iterator went on")
    if problems:
        acc.violation(f"C10:kept-lines-differ:{kind}", case,
                      "consuming the result piece by piece while keeping the line objects does not give the whole "
                      "text: " + "; ".join(problems),
                      {"late": kept["late"][:8], "late_len": kept["late_len"][:8]},
                      {"delivered": kept["imm"][:8]})
        label = "viol:kept-lines"
    if route == "global" and kind != "hdoc" and spec != "nc":
        other = ref[(name, fmt, spec, variant, "explicit")]["whole"]
        feats.append("how:global")
        if not same_text(whole, other):
            acc.violation(f"C10:global-vs-explicit:{kind}", case,
                          "rendering under a global configuration differs from passing the same configuration "
                          "explicitly", _diff(whole, other), _diff(other, whole))
            label = "viol:route"
    acc.case(nontrivial=spec in R.COLORED_SPECS, features=feats, outcome=f"{label}:static:{spec}:{variant}")


def _reset_shard(shard, acc):
    """Harness self check: same histories, two visiting orders, same observations."""
    w = H.world()
    ops_all = alphabet("base")
    half = shard[1]
    hists = [[a, b] for ia, a in enumerate(ops_all) for b in ops_all if ia % 2 == half and enabled([a, b])]
    runs = []
    for order in (hists, list(reversed(hists))):
        seen = {}
        for ops in order:
            try:
                seen[core.jdump(ops)] = [(o[0], o[1], o[2]) for o in w.run_all(ops)]
            except H.HistoryDisabled:
                seen[core.jdump(ops)] = "disabled"
            except Exception as e:  # noqa  -- judged by the hist shards; here only order-independence matters
                seen[core.jdump(ops)] = "raised:" + type(e).__name__
            acc.trans(len(ops))
        runs.append(seen)
    if runs[0] != runs[1]:
        bad = [k for k in runs[0] if runs[0][k] != runs[1][k]][:3]
        raise RuntimeError(f"reset_world incomplete: observations depend on the visiting order of histories: {bad}")
    acc.feat("reset:orders-agree", len(hists))
    acc.case(nontrivial=False, features=(), outcome="reset-ok", states=0, traces=len(hists))


def run_shard(shard, tier, seed, acc):
    kind = shard[0]
    if kind == "static":
        return _static_shard(acc)
    if kind == "reset":
        return _reset_shard(shard, acc)
    if kind == "hist":
        return _hist_shard(shard, acc)
    if kind == "merge":
        return _merge_shard(shard, acc)
    if kind == "ppmerge":
        return _ppmerge_shard(shard, acc)
    raise ValueError(shard)


def replay(case, acc):
    if case["kind"] == "hist":
        run_history([list(op) for op in case["ops"]], acc, H.world())
    elif case["kind"] == "merge":
        run_merge([list(op) for op in case["prefix"]], list(case["a"]), list(case["b"]), case["order"], acc,
                  H.world())
    elif case["kind"] == "static":
        req = case["req"]
        reqs = [req, {"obj": req["obj"], "fmt": req.get("fmt"), "spec": "nc", "variant": "std", "route": "explicit"},
                dict(req, route="explicit")]
        if R.OBJECT_KINDS[req["obj"]] == "hdoc":
            reqs[2] = req
        res = R.pristine(reqs, repo=core.REPO)
        ref = {R.req_key(q): r for q, r in zip(reqs, res)}
        check_static(R.req_key(req), ref, acc)
    else:
        raise ValueError(case)


def selftest():
    """The independent SGR reader agrees with literal sequences spelled out in tests/test_color.py and
    tests/test_ppobj.py; the enabledness model agrees with the world."""
    assert R.strip_sgr("\x1b[32;1mab\x1b[0mc\x1b[38:5:100;48:5:18md\x1b[0m") == "abcd"
    assert R.styled("\x1b[31ma\x1b[0mb") == (("a", ("31",)), ("b", ()))
    assert R.styled("\x1b[31ma\x1b[0m\x1b[31mb\x1b[0m") == R.styled("\x1b[31mab\x1b[0m")
    assert enabled([["r", "tbl", "cA"], ["drop", "A"], ["r", "tbl", "cB"]])
    assert not enabled([["drop", "A"], ["r", "tbl", "cB"]])
    assert not enabled([["r", "tbl", "cA"], ["drop", "A"]])
    assert len(H.merge_orders(7, 7)) == 3432 and len(H.merge_orders(2, 2, 1)) == 2
