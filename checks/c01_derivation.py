"""C01 — every parse result is a valid derivation of the user's grammar (DESIGN.md §2 C01).

Space (every member is visited, nothing sampled)
  sized   : every grammar over the non-terminals (E,A) / (E,A,B) and the terminals of the token
            configuration, with <= 2 (thorough 3) distinct ordered alternatives per symbol, alternative
            length <= 2 (3) and total size <= the bound (size = sum of max(1, len(alternative)));
            configurations: letters a,b / a; keyword+synonym configuration WORD / IF / '+'.
  split   : directed family "shared leading part in alternatives that are not adjacent"
            (models.grammar.family_split): roll-back between alternatives with children already collected.
  seq     : directed family "sequence under roll-back" (models.grammar.family_seq): a ProdSequence symbol
            over 1-2 terminals or a non-terminal, 2-3 alternatives of E mixing it with leading / trailing
            terminals; also with a factorized symbol (common-prefix alternatives, suffix symbol kept) as
            item.  A sequence node carries its matched elements as a list; they are its children.
  blank   : sized space over the terminals a, SPACE x the constructor option skip_tokens in
            {None, set(), [], (), {SPACE}, {COMMENT}, [SPACE, COMMENT]}; tokenizer with SPACE and COMMENT
            groups, blanks and comments written explicitly into the texts.  The leaves must be the tokens
            that are not skipped as configured (an explicit empty collection skips nothing).
  span    : tokenizer with a non-skipped multi-line span token TEXT (<<...>>, constructor argument
            span_matchers) and six tiny grammars over a / TEXT; the token values run over all strings of
            <= 2 pieces of {p, blank, newline, form feed, \x0b, \x1c-\x1e, \x85, U+2028, U+2029, lone \r}:
            the leaf value must be the value the harness put between the marks.
            Histories of two calls on ONE parser object: a text whose span is never closed (LexicalError),
            then every valid text of <= 1 token; the second tree is judged like a fresh parser's.
  kwskip  : sized space over the terminals a, PRAGMA, TAB with a tokenizer whose keywords promote a
            COMMENT ("%pragma;") and a SPACE (one tab) token -- types of the default skip set -- to the
            ordinary tokens PRAGMA / TAB: they are not skipped and must be among the leaves.
  spanline: tokenizer whose span closer ">>" is also an ordinary token; texts in which one line text is
            once the closing line of a multi-line span token and once a stand-alone line, in one text and in
            two consecutive calls on one parser object (models.grammar.spanline_texts).
  diverge : directed family "three alternatives with one first symbol, non-monotone divergence"
            (models.grammar.family_diverge), all six orders.
  twice   : directed family "one symbol completed twice in one text under different lookaheads"
            (models.grammar.family_twice): A = every ordered list of 2-4 alternatives (length <= 2,
            thorough 3) with a common-first-terminal group next to a plain alternative; E -> A A [t].
  prefix  : directed family for factorization (models.grammar.family_prefix): common prefixes of length
            1-3 starting with a terminal or a non-terminal, 2-7 remainders (crossing the "more than 5
            alternatives" rule of smart factorization), nested common prefixes, nullable remainders.
  x both smart_factorization settings x all token strings of length <= L over the configuration's tokens
  x (sized and split spaces) every non-terminal handed to parse as ``start_symbol_name`` -- the public
    start-symbol override; the tree must then be a derivation from *that* symbol.  A ParsingError for an
    override is never judged (FOLLOW sets belong to the constructor's start symbol).  The spaces contain
    symbols that are nullable only through their children (no empty alternative of their own) at the end
    of the text; returned trees with such a node are counted.

Oracle: models.grammar.validate_tree on every tree returned by parse(do_cleanup=False): root = start
symbol, every inner node with its child names is a user production, childless node <=> empty production,
leaves left-to-right = the tokens put into the text (names and values), no symbol outside the user
grammar (helper symbols contain "__").
"""

from mc import llharness as H
from models import grammar as G

ID = "C01"
TITLE = "Every parse result is a valid derivation of the user's grammar"
TECHNIQUE = ("bounded exhaustive grammar x input enumeration in both factorization modes; derivation "
             "validator over the user grammar")
DESIGN_REF = "§2 C01"
LEVEL_TEXT = ("Every grammar up to the size bound (2-3 non-terminals, nullable, ambiguous and common-prefix "
              "alternatives, keyword/synonym tokens) plus a directed common-prefix family, in both "
              "smart_factorization modes, parses every token string up to the length bound on the real "
              "parser; every returned tree is validated as a derivation of the user's grammar.")
LEVEL_NOTE = ("Small-scope: more than 3 non-terminals, alternatives longer than 3 (prefix family: 6), inputs "
              "longer than the bound, span tokens and production templates are not covered. Trusted: "
              "models/grammar.validate_tree; the harness knows the tokens because it builds the text.")
RULE = ("case = one grammar: constructed in both factorization modes, every token string up to the length "
        "bound parsed in each accepted mode (and again from every other non-terminal as overridden start "
        "symbol), every returned tree validated. Distinct by construction "
        "(distinct alternative lists). Non-trivial: some validated parse rolled back at least once, went "
        "through a retained factorization suffix symbol, or contains an empty-production node.")
ASSUMPTIONS = [
    "grammars the constructor rejects (GrammarError, GrammarIsRecursive, AssertionError) are outside the "
    "property's domain and only counted",
    "the property speaks about returned trees only: ParsingError outcomes are counted, not judged (C02), "
    "parses stopped by the non-termination guard are counted, not judged (C03)",
    "the two factorization modes need not agree for grammars with table conflicts; disagreements are a "
    "reported statistic",
]
REQUIRED_FEATURES = ["grammar:nullable", "grammar:ambiguous-table", "grammar:common-prefix",
                     "grammar:nested-common-prefix", "grammar:suffix-retained-in-smart-mode",
                     "grammar:modes-differ-in-productions", "cfg:keywords-synonyms",
                     "parse:tree", "parse:ParsingError", "parse:rollback", "parse:through-suffix-symbol",
                     "tree:empty-production-node", "mode:smart", "mode:full",
                     "start-override:returned-tree", "start-override:ParsingError",
                     "start-override:nullable-by-chain-at-end",
                     "grammar:sequence-symbol", "sequence:tree-after-rollback",
                     "sequence:re-entered-inside-earlier-span-after-rollback",
                     "config:skip_tokens-empty", "config:skip_tokens-None", "config:skip_tokens-SPACE",
                     "config:skip_tokens-empty:tree-with-blank-or-comment-leaf",
                     "grammar:non-monotone-divergence-in-a-group",
                     "span:multi-line-value-among-the-leaves",
                     "span:value-with-exotic-line-boundary-character",
                     "sequence:item-parsed-through-kept-suffix-symbol",
                     "history:first-call-LexicalError", "history:failed-span-then-valid-text:tree",
                     "config:keyword-on-skipped-token-type-among-the-leaves",
                     "span:closing-line-text-repeated-as-plain-line", "history:two-calls:span-first",
                     "history:two-calls:plain-first", "spanline:tree"]

_SPACES = {
    # (kind, non-terminals, cfg key, max_alts, max_len, max_size, input length, shards)
    "quick": [("sized", "EA", "ab", 2, 2, 5, 4, 32), ("sized", "EAB", "a", 2, 2, 5, 4, 32),
              ("sized", "EA", "kw", 2, 2, 4, 3, 16), ("prefix", "EA", "ab", 0, 0, 0, 4, 48),
              ("split", "EA", "ab", 0, 0, 0, 4, 8), ("seq", "EWA", "wvxy", 0, 0, 0, 3, 24),
              ("blank", "EA", "blank", 2, 2, 4, 3, 16), ("diverge", "EA", "pabcdxy", 0, 0, 0, 3, 8),
              ("span", "EA", "span", 0, 0, 0, 2, 6), ("kwskip", "EA", "kwskip", 2, 2, 3, 3, 8),
              ("spanline", "EA", "span2", 0, 0, 0, 0, 1), ("twice", "EA", "ab", 4, 2, 0, 4, 16)],
    "thorough": [("sized", "EA", "ab", 3, 3, 6, 5, 64), ("sized", "EA", "ab", 3, 3, 7, 4, 200),
                 ("sized", "EAB", "a", 2, 3, 6, 5, 64), ("sized", "EAB", "ab", 2, 2, 5, 4, 48),
                 ("sized", "EA", "kw", 2, 2, 5, 3, 48), ("prefix", "EA", "ab", 0, 0, 0, 5, 64),
                 ("split", "EA", "ab", 0, 0, 0, 5, 16), ("seq", "EWA", "wvxy", 0, 0, 0, 5, 48),
                 ("blank", "EA", "blank", 2, 2, 5, 5, 48), ("diverge", "EA", "pabcdxy", 0, 0, 0, 4, 24),
                 ("span", "EA", "span", 0, 0, 0, 3, 6), ("kwskip", "EA", "kwskip", 2, 2, 4, 4, 16),
                 ("spanline", "EA", "span2", 0, 0, 0, 0, 1), ("twice", "EA", "ab", 4, 3, 0, 5, 64)],
}
# the prefix family is enumerated completely in both tiers; the tiers differ in its input length only


def _cfg(key):
    return G.cfg_from_key(key)


def _span_inputs(cfg, L):
    """All token strings of length <= 2 over the whole menu (a, every TEXT value) and, for L = 3, the
    strings of three tokens with exactly one TEXT."""
    out = G.all_inputs(cfg, min(L, 2))
    if L >= 3:
        texts = [t for t in cfg.tokens if t[0] == "TEXT"]
        a = ("a", "a")
        for t in texts:
            out += [(t, a, a), (a, t, a), (a, a, t)]
    return out


def _skip_options(tier):
    """quick: None, the three empty collections, {SPACE}; thorough: all of models.grammar.SKIP_OPTIONS."""
    return G.SKIP_OPTIONS if tier == "thorough" else G.SKIP_OPTIONS[:5]


def bounds(tier):
    out = []
    for kind, nts, key, ma, ml, ms, L, _ in _SPACES[tier]:
        cfg = _cfg(key)
        if kind == "spanline":
            out.append({"space": "same line text as closing line of a multi-line span token and as a stand-alone "
                                 "line (closing characters are also an ordinary token); one text and two "
                                 "consecutive calls on one parser", "histories": len(G.spanline_texts()),
                        "grammar": G.show(G.SPANLINE_GRAMMAR)})
            continue
        if kind == "kwskip":
            out.append({"space": "sized x keywords on skipped token types (COMMENT '%pragma;' -> PRAGMA, "
                                 "SPACE tab -> TAB; default skip set)", "non_terminals": list(nts),
                        "terminals": ["a", "PRAGMA", "TAB"], "max_alternatives": ma, "max_alt_len": ml,
                        "max_total_size": ms, "grammars": G.count_sized(len(nts), 3, ma, ml, ms),
                        "input_len_max": L, "inputs_per_mode": len(G.all_inputs(cfg, L))})
            continue
        if kind == "span":
            out.append({"space": "span-token family: non-skipped multi-line token TEXT <<...>> (span_matchers)",
                        "grammars": len(G.family_span()), "token_values": len(G.span_bodies()),
                        "value_alphabet": ["p", " ", "\\n"] + [repr(c)[1:-1] for c in G.EXOTIC_LINE_ENDS],
                        "input_len_max": L, "inputs_per_mode": len(_span_inputs(cfg, L))})
        elif kind == "seq":
            out.append({"space": "sequence-under-roll-back family (ProdSequence symbols)",
                        "grammars": sum(1 for _ in G.family_seq(cfg.terms)), "input_len_max": L,
                        "inputs_per_mode": len(G.all_inputs(cfg, L))})
        elif kind == "diverge":
            out.append({"space": "non-monotone-divergence family (three alternatives, one first symbol)",
                        "grammars": sum(1 for _ in G.family_diverge(cfg.terms)), "input_len_max": L,
                        "inputs_per_mode": len(G.all_inputs(cfg, L))})
        elif kind == "blank":
            out.append({"space": "sized x constructor option skip_tokens", "non_terminals": list(nts),
                        "terminals": list(cfg.terms), "tokenizer_groups": ["SPACE", "COMMENT", "a"],
                        "skip_tokens_values": [repr(G.skip_value(o)) for o in _skip_options(tier)],
                        "max_alternatives": ma, "max_alt_len": ml, "max_total_size": ms,
                        "grammars": G.count_sized(len(nts), 2, ma, ml, ms),
                        "input_len_max": L, "inputs_per_mode": len(G.all_inputs(cfg, L))})
        elif kind == "sized":
            out.append({"space": "sized", "non_terminals": list(nts), "terminals": list(cfg.terms),
                        "max_alternatives": ma, "max_alt_len": ml, "max_total_size": ms,
                        "grammars": G.count_sized(len(nts), len(cfg.terms), ma, ml, ms),
                        "input_len_max": L, "inputs_per_mode": len(G.all_inputs(cfg, L))})
        elif kind == "twice":
            out.append({"space": "symbol-completed-twice family (group next to a plain alternative)",
                        "grammars": sum(1 for _ in G.family_twice(cfg.terms, max_alt_len=ml, max_alts=ma)),
                        "input_len_max": L, "inputs_per_mode": len(G.all_inputs(cfg, L))})
        elif kind == "split":
            out.append({"space": "split-family (shared leading part, not adjacent)",
                        "grammars": sum(1 for _ in G.family_split(cfg.terms)),
                        "input_len_max": L, "inputs_per_mode": len(G.all_inputs(cfg, L))})
        else:
            out.append({"space": "prefix-family" + ("" if tier == "thorough" else " (reduced)"),
                        "grammars": sum(1 for _ in G.family_prefix(cfg.terms, full=(tier == "thorough"))),
                        "input_len_max": L, "inputs_per_mode": len(G.all_inputs(cfg, L))})
    return {"spaces": out, "modes": ["smart_factorization=True", "smart_factorization=False"],
            "start_symbol": "E",
            "parse_start_symbol_overrides": "every non-terminal, in the sized and split spaces"}


def shards(tier):
    return [(i, k, sp[7]) for i, sp in enumerate(_SPACES[tier]) for k in range(sp[7])]


# ------------------------------------------------------------------------------------ one case
_ABSENT = "absent"      # the constructor argument skip_tokens is not given at all


def _has_node(shape, names):
    name, v = shape
    if name in names:
        return True
    return isinstance(v, tuple) and any(_has_node(c, names) for c in v)


# texts whose span token is never closed (the tokenizer raises LexicalError)
_BAD_SPAN_TEXTS = ("<<", "a <<p", "<<p\nq a")


def check_grammar(cfg, start, prods, inputs, acc, modes=(True, False), overrides=(), only_start=False,
                  skip=_ABSENT, after_bad=None):
    """One case.  ``overrides``: non-terminals additionally handed to parse as ``start_symbol_name``
    (every input again); ``only_start``: replay of one recorded parse (no default-start loop when the
    recorded parse used an override); ``skip``: value of the constructor argument skip_tokens (a member of
    models.grammar.SKIP_OPTIONS) -- the leaves must be the tokens that are not skipped *as configured*."""
    pm, seqs = G.expand(prods)
    terms = set(cfg.terms)
    feats = set()
    if seqs:
        feats.add("grammar:sequence-symbol")
    skipped = cfg.effective_skip(None if skip == _ABSENT else skip)
    if skip != _ABSENT:
        feats.add("config:skip_tokens-" + ("None" if skip is None else
                                           ("empty-" + skip[0] if not skip[1] else "+".join(skip[1]))))
        if skip is not None and not skip[1]:
            feats.add("config:skip_tokens-empty")
    if G.nullables(pm):
        feats.add("grammar:nullable")
    if cfg.key == "kw":
        feats.add("cfg:keywords-synonyms")
    chain = G.chain_nullables(pm) if overrides else set()
    fresh = {}          # span space: verdict of a fresh parser per input (for the 2-call histories)
    nontrivial = False
    verdicts = {}
    built = set()
    pmaps = {}
    n_valid = 0
    starts = ([] if only_start else [None]) + [x for x in overrides if x != start or only_start]
    for smart in modes:
        mode = "smart" if smart else "full"
        with H.Watchdog():
            try:
                res, p = (H.build(cfg, start, prods, smart) if skip == _ABSENT
                          else H.build(cfg, start, prods, smart, skip=skip))
            except H.Abort:
                res, p = "abort:watchdog", None
            acc.trans()
            if res != "ok":
                feats.add("impl:rejected:" + res)
                verdicts[smart] = res
                continue
            feats.add("mode:" + mode)
            built.add(smart)
            try:
                suffixes = set(p._suffix_symbols)
                if suffixes:
                    feats.add("grammar:common-prefix")
                    if smart:
                        feats.add("grammar:suffix-retained-in-smart-mode")
                    if any(s.count("__S") > 1 for s in suffixes):
                        feats.add("grammar:nested-common-prefix")
                if p.is_ambiguous():
                    feats.add("grammar:ambiguous-table")
                pmaps[smart] = {x: [tuple(r.production) for r in rr] for x, rr in p.prods_map.items()}
            except Exception:  # noqa  (statistics only)
                pass
            # sequence items that are factorized symbols whose suffix symbol is kept in this mode
            kept_items = set()
            if seqs:
                try:
                    kept_items = {x for els in seqs.values() for x in els if x in pm
                                  and any(sfx.startswith(x + "__S") for sfx in p._suffix_symbols)}
                except Exception:  # noqa
                    pass
            verdict = []
            for pstart in starts:
                root_symbol = start if pstart is None else pstart
                tag = "parse:" if pstart is None else "start-override:"
                for toks in inputs:
                    try:
                        r, root = H.parse(p, cfg, toks, start_symbol=pstart)
                    except H.Abort:
                        r, root = "abort:watchdog", None
                    acc.trans()
                    if after_bad is None and cfg.key == "span" and pstart is None and len(toks) <= 1:
                        fresh[toks] = r
                    if r != "tree":
                        feats.add(tag + r)
                        if pstart is None:
                            verdict.append(r[0])
                        if r.startswith("abort"):
                            break      # a grammar the parser does not terminate on: C03's business
                        continue
                    if pstart is None:
                        verdict.append("T")
                    feats.add(tag + ("tree" if pstart is None else "returned-tree"))
                    n_valid += 1
                    mon = H.MON
                    if mon.rollbacks:
                        feats.add("parse:rollback")
                        nontrivial = True
                    if mon.suffix_pushes:
                        feats.add("parse:through-suffix-symbol")
                        nontrivial = True
                    expected = toks if not skipped else tuple(t for t in toks if t[0] not in skipped)
                    bad = G.validate_tree(root, pm, terms, root_symbol, expected, seqs)
                    shape = None
                    try:
                        if cfg.key == "kwskip" and any(n in ("PRAGMA", "TAB") for n, _ in toks):
                            feats.add("config:keyword-on-skipped-token-type-among-the-leaves")
                        if cfg.key == "span":
                            vals = "".join(v for n, v in toks if n == "TEXT")
                            if "\n" in vals:
                                feats.add("span:multi-line-value-among-the-leaves")
                            if any(c in vals for c in G.EXOTIC_LINE_ENDS):
                                feats.add("span:value-with-exotic-line-boundary-character")
                                acc.note_sum("trees_with_exotic_line_boundary_in_a_span_value")
                        if kept_items and mon.suffix_pushes and _has_node(G.tree_shape(root), kept_items):
                            feats.add("sequence:item-parsed-through-kept-suffix-symbol")
                        if seqs and mon.rollbacks:
                            feats.add("sequence:tree-after-rollback")
                            if mon.sequence_reentered_after_rollback():
                                feats.add("sequence:re-entered-inside-earlier-span-after-rollback")
                                nontrivial = True
                        if skip != _ABSENT and len(expected) == len(toks) and any(t[0] == "SPACE" for t in toks):
                            feats.add("config:blank-token-among-the-leaves")
                        if skip != _ABSENT and skip is not None and not skip[1] and len(toks) > len(
                                [t for t in toks if t[0] not in cfg.default_skip]):
                            feats.add("config:skip_tokens-empty:tree-with-blank-or-comment-leaf")
                        shape = G.tree_shape(root)
                        if G.count_empty_nodes(shape):
                            feats.add("tree:empty-production-node")
                            nontrivial = True
                        if pstart is not None and chain and G.empty_chain_node_at_end(shape, chain):
                            feats.add("start-override:nullable-by-chain-at-end")
                    except Exception:  # noqa
                        pass
                    if bad is not None:
                        case = G.to_case(cfg, start, prods, smart=smart, input=[list(t) for t in toks])
                        sig = "C01:" + bad[0]
                        how = ""
                        if skip != _ABSENT:
                            case["skip"] = skip
                            how = f" [skip_tokens={G.skip_value(skip)!r}]"
                            if bad[0] == "leaves-differ-from-tokens":
                                sig += ":skip_tokens-option"
                        if pstart is not None:
                            case["parse_start"] = pstart
                            sig += ":start-override"
                            how += f", start_symbol_name={pstart!r}"
                        acc.violation(sig, case,
                                      f"parse({cfg.text(toks)!r}{how}) returned a tree that is not a derivation "
                                      f"from {root_symbol} in the user grammar {G.show(prods)} "
                                      f"(smart_factorization={smart}): {bad[1]}",
                                      repr(shape), f"a derivation tree rooted at {root_symbol} whose leaves are "
                                      + repr([list(t) for t in expected]))
            verdicts[smart] = "".join(verdict)
            # ---- span space: a parse that FAILS with "span is never closed", then a valid text on the same
            # parser object; the second call is judged like a call on a fresh parser
            if cfg.key == "span" and not only_start:
                bads = _BAD_SPAN_TEXTS if after_bad is None else (after_bad,)
                seconds = sorted(fresh) if after_bad is None else list(inputs)
                for bad_text in bads:
                    for toks in seconds:
                        res2, p2 = H.build(cfg, start, prods, smart)
                        acc.trans()
                        if res2 != "ok":
                            break
                        r1, _ = H.parse(p2, cfg, (), raw_text=bad_text)
                        r, root = H.parse(p2, cfg, toks)
                        acc.trans(2)
                        feats.add("history:first-call-" + r1)
                        feats.add("history:failed-span-then-valid-text:" + r)
                        if r != "tree":
                            continue
                        n_valid += 1
                        bad = G.validate_tree(root, pm, terms, start, toks, seqs)
                        if bad is not None:
                            case = G.to_case(cfg, start, prods, smart=smart, input=[list(t) for t in toks],
                                             after_bad_text=bad_text)
                            acc.violation("C01:" + bad[0] + ":after-failed-parse-on-the-same-parser", case,
                                          f"after parse({bad_text!r}) failed with {r1} on the same parser object, "
                                          f"parse({cfg.text(toks)!r}) returned a tree that is not a derivation of "
                                          f"the user grammar {G.show(prods)} (smart_factorization={smart}): "
                                          f"{bad[1]}", repr(G.tree_shape(root)),
                                          "the tree a fresh parser returns: leaves " + repr([list(t) for t in toks]))
    if len(pmaps) == 2 and pmaps[True] != pmaps[False]:
        feats.add("grammar:modes-differ-in-productions")
    if len(verdicts) == 2 and verdicts[True] != verdicts[False]:
        feats.add("modes:verdicts-differ")

    def label(m):
        v = verdicts.get(m, "")
        if m not in built:
            return "not-built"
        return "accepts" if "T" in v else ("aborted" if "a" in v else "rejects-all")
    outcome = "/".join(label(m) for m in modes)
    return sorted(feats), nontrivial, outcome, n_valid


# spaces in which every non-terminal is additionally used as start_symbol_name of parse
_OVERRIDE_KINDS = ("sized", "split")


def _grammars(tier, shard):
    i, k, K = shard
    kind, nts, key, ma, ml, ms, L, _ = _SPACES[tier][i]
    cfg = _cfg(key)
    if kind == "sized":
        gen = G.enum_sized(tuple(nts), cfg.terms, ma, ml, ms, (k, K))
    elif kind == "kwskip":
        gen = G.enum_sized(tuple(nts), ("a", "PRAGMA", "TAB"), ma, ml, ms, (k, K))
    elif kind == "blank":
        # grammar terminals: the letter and SPACE (COMMENT only occurs in texts)
        gen = G.enum_sized(tuple(nts), ("a", "SPACE"), ma, ml, ms, (k, K))
    elif kind == "span":
        return cfg, _span_inputs(cfg, L), (g for j, g in enumerate(G.family_span(tuple(nts))) if j % K == k)
    elif kind == "seq":
        gen = (g for j, g in enumerate(G.family_seq(cfg.terms, tuple(nts))) if j % K == k)
    elif kind == "diverge":
        gen = (g for j, g in enumerate(G.family_diverge(cfg.terms, tuple(nts))) if j % K == k)
    elif kind == "twice":
        gen = (g for j, g in enumerate(G.family_twice(cfg.terms, tuple(nts), max_alt_len=ml, max_alts=ma))
               if j % K == k)
    elif kind == "split":
        gen = (g for j, g in enumerate(G.family_split(cfg.terms, tuple(nts))) if j % K == k)
    else:
        gen = (g for j, g in enumerate(G.family_prefix(cfg.terms, tuple(nts), full=(tier == "thorough")))
               if j % K == k)
    return cfg, G.all_inputs(cfg, L), gen


def _leaves(root):
    out, stack = [], [root]
    while stack:
        n = stack.pop()
        v = getattr(n, "value", None)
        if isinstance(v, list):
            stack.extend(reversed(v))
        elif isinstance(v, str):
            out.append((n.name, v))
    return out


def run_spanline(acc, only=None):
    """Histories of models.grammar.spanline_texts on one parser object each (both modes)."""
    cfg = G.span2_cfg()
    prods = G.SPANLINE_GRAMMAR
    pm = dict(prods)
    histories = G.spanline_texts() if only is None else [(only[0], only[1])]
    for smart in ((True, False) if only is None else (only[2],)):
        for label, calls in histories:
            res, p = H.build(cfg, "E", prods, smart)
            acc.trans()
            feats = {"space:spanline", "span:closing-line-text-repeated-as-plain-line",
                     "history:" + label}
            ok = True
            for ci, (text, exp) in enumerate(calls):
                exp = [tuple(t) for t in exp]
                r, root = H.parse(p, cfg, (), raw_text=text) if res == "ok" else ("not-built", None)
                acc.trans()
                if r != "tree":
                    feats.add("spanline:" + r)
                    continue
                bad = G.validate_tree(root, pm, set(cfg.terms), "E", tuple(exp))
                if bad is not None:
                    ok = False
                    case = {"kind": "spanline", "smart": smart, "label": label,
                            "calls": [[t, [list(x) for x in e]] for t, e in calls[:ci + 1]]}
                    acc.violation("C01:" + bad[0] + ":line-text-seen-before-in-another-span-state", case,
                                  f"call {ci + 1} of {[c[0] for c in calls]!r} on one parser "
                                  f"(smart_factorization={smart}): leaves {_leaves(root)} are not the tokens "
                                  f"{exp}", repr(_leaves(root)), repr(exp))
                    break
                feats.add("spanline:tree")
            acc.case(nontrivial=True, features=sorted(feats), outcome="ok" if ok else "bad", traces=len(calls))


def run_shard(shard, tier, seed, acc):
    if _SPACES[tier][shard[0]][0] == "spanline":
        run_spanline(acc)
        return
    cfg, inputs, gen = _grammars(tier, tuple(shard))
    sp = _SPACES[tier][shard[0]]
    fam = "space:" + sp[0] + ":" + str(sp[2])
    overrides = tuple(sp[1]) if sp[0] in _OVERRIDE_KINDS else ()
    skips = _skip_options(tier) if sp[0] == "blank" else (_ABSENT,)
    n = 0
    for prods in gen:
        for skip in skips:
            feats, nt, out, n_valid = check_grammar(cfg, "E", prods, inputs, acc, overrides=overrides,
                                                    skip=skip)
            if sp[0] == "diverge" and G.non_monotone_divergence(dict(prods)):
                feats.append("grammar:non-monotone-divergence-in-a-group")
            acc.case(nontrivial=nt, features=feats + [fam], outcome=out, traces=n_valid)
        n += 1
        if nt and n % 211 == 0:
            acc.sample(G.show(prods))
        if n % 256 == 0 and acc.expired():
            return


def replay(case, acc):
    if case.get("kind") == "spanline":
        run_spanline(acc, only=(case["label"], [(t, e) for t, e in case["calls"]], case["smart"]))
        return
    cfg, start, prods = G.from_case(case)
    inputs = [tuple(tuple(t) for t in case["input"])]
    ps = case.get("parse_start")
    if case.get("after_bad_text") is not None:
        feats, nt, out, n_valid = check_grammar(cfg, start, prods, inputs, acc, modes=(case["smart"],),
                                                after_bad=case["after_bad_text"])
        acc.case(nontrivial=nt, features=feats, outcome=out, traces=n_valid)
        return
    feats, nt, out, n_valid = check_grammar(cfg, start, prods, inputs, acc, modes=(case["smart"],),
                                            overrides=(ps,) if ps else (), only_start=bool(ps),
                                            skip=case.get("skip", _ABSENT) if "skip" in case else _ABSENT)
    acc.case(nontrivial=nt, features=feats, outcome=out, traces=n_valid)


def selftest():
    """The validator accepts the trees the repository's tests expect (signatures asserted in
    tests/test_llparser.py: TestSimpleParserWithNullProductions, TestArithmeticsParser) and rejects
    doctored ones."""
    G.selftest()
    from ak import llparser
    cfg = G.TokCfg("t", r"(?P<SPACE>\s+)|(?P<WORD>[a-zA-Z_][a-zA-Z0-9_]*)|(?P<PLUS>\+)|(?P<MULT>\*)",
                   [("WORD", "aa"), ("+", "+"), ("*", "*")], synonyms={"PLUS": "+", "MULT": "*"})
    prods = (("E", (("SLAG", "+", "E"), ("SLAG",))),
             ("SLAG", (("WORD", "*", "SLAG"), ("WORD",))))
    res, p = H.build(cfg, "E", prods, True)
    assert res == "ok"
    toks = (("WORD", "aa"), ("+", "+"), ("WORD", "bb"), ("*", "*"), ("WORD", "cc"))
    r, root = H.parse(p, cfg, toks)
    assert r == "tree" and root.signature() == ("E", "SLAG", "+", "E")
    pm = dict(prods)
    assert G.validate_tree(root, pm, {"WORD", "+", "*"}, "E", toks) is None
    assert G.validate_tree(root, pm, {"WORD", "+", "*"}, "E", toks[:-1])[0] == "leaves-differ-from-tokens"
    root.value[0].name = "SLAG__S00"
    assert G.validate_tree(root, pm, {"WORD", "+", "*"}, "E", toks)[0] == "helper-symbol-in-tree"
    assert isinstance(root, llparser.TElement)
