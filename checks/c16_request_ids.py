"""C16 — request ids are unique and gap-free per shared connection under concurrent use (DESIGN.md §2 C16).

Technique: stateless schedule exploration (engine ``mc/sched.py``).  2–3 real threads run the real
``ak.conn_http`` code under a baton scheduler; the baton can change hands before every bytecode of
``_HttpConnImpl._generate_request_id`` (and of every other helper method of ``_HttpConnImpl``), before
every access to an attribute of the shared ``_HttpConnImpl`` object in ``do_request`` (mode "sparse";
thread-local bytecodes commute with every step of the other threads, so they need no point) or before
*every* bytecode of ``do_request`` (mode "full"), and whenever a thread runs into a held lock.  Every
schedule with at most k preemptions is executed (iterative preemption bounding: the schedules with
0, 1, 2 … preemptions are all contained; counts are reported per level); executions run to completion.

World of one execution (rebuilt from scratch every time, ``random.seed(0)`` first):
  base HttpConn -> BAuthConn(base) -> HttpConn(bauth, prefix adapter);  MCallerHttp(base).clone(adapter)
all sharing one ``_HttpConnImpl``; the network is a recorder (``opener``); ``ak.conn_http.threading`` is
the scheduler's shim, so the real ``with self._reqid_generator_guard`` blocks *in the scheduler*.
A sequential warm-up request before and a sequential final request after the threads pin the counter.
"fresh" scenarios have *no* warm-up: both threads' first requests are the first use ever of a brand-new
``_HttpConnImpl`` (lazily created synchronisation objects are then created inside the race; the shim's
``Lock()`` works at any time from any thread and every call returns a distinct lock known to the
scheduler).  "preset" scenarios are NON-INITIAL START STATES obtained by state injection: the harness writes the
counter attribute of the brand-new connection (9998, 9999, 10000, 19999, 99999, 10**8-1, 10**12-1) before
anything is sent — no schedule bound reaches 10**4 requests — and "jump" scenarios set it to preset+10**4
(10**8) after the threads and issue the same number of requests again on the SAME connection: all ids of
the execution must be pairwise distinct and the numbers must be the injected counter values onwards.
"solo" scenarios build ONE connection object and nothing else on its ``_HttpConnImpl`` (no derived
connection, caller or clone is ever constructed); both threads use that single object.
Lock timeouts are ENVIRONMENT ANSWERS: ``acquire(timeout=t)`` on a held lock either blocks or "elapses"
(bounded number of elapsed answers per execution).  The unchanged tree never passes a timeout, so no such
choice point arises there (reported in the evidence's extra counters, not a required feature).
"fault" scenarios are FAULT INJECTION on the transport: ``opener.open`` is an explicit scheduling point (the
thread sits inside ``open()`` while the other thread may issue and finish whole requests) and then raises
``urllib.error.URLError`` / ``HTTPError`` for the marked request.  A request that reached ``open()`` was
SENT: it keeps its number, later numbers continue from it, and the exception must reach its caller.
Caller-supplied ids include the falsy values ``''``, ``b''`` and ``0`` (still ids supplied by the caller).
"shared headers" scenarios pass the *same* non-empty caller-owned headers dict (without
``X-Request-ID``) to every request, sequentially within a thread and from both threads: an id the
library leaks into the caller's dict would be re-sent as if the caller had supplied it.

Oracle (from the statement): every request is sent exactly once; generated ids pairwise distinct;
their sequence numbers are exactly warm+1 … warm+n (and the final request gets warm+n+1): no gap, no
repeat; an id supplied by the caller arrives unchanged and consumes no number (an id counts as caller
supplied only if the caller put it into the headers before the first request); no deadlock, no
exception.  The 4-hex connection tag and the id layout are not compared (the number is read from the
last dash-separated group of the id).
"""

import io
import random
import urllib.error
import urllib.request

from ak import conn_http
from ak import mcaller_http
from ak.mcaller_http import MCallerHttp, method_http
from mc import sched

ID = "C16"
TITLE = "Request ids are unique per connection under concurrent use"
TECHNIQUE = ("stateless schedule exploration of real threads at CPython bytecode granularity under a baton "
             "scheduler (sys.monitoring INSTRUCTION events), iterative preemption bounding")
DESIGN_REF = "§2 C16"
LEVEL_TEXT = ("Every interleaving with at most k preemptions (k=2 quick; k=3 for two threads, k=2 for three "
              "threads thorough) of 2-3 threads issuing 1-2 requests each through connections that share one "
              "_HttpConnImpl is executed on the real code, with a scheduling point before every bytecode of the "
              "id generator and before every access to the shared object in do_request; scenarios include the "
              "very first use of a brand-new connection by both threads, caller-supplied ids, and one caller-owned "
              "headers dict shared by all requests; each completed execution is checked for distinct, gap-free ids.")
LEVEL_NOTE = ("Bounded: preemption bound, 2-3 threads, <= 2 requests per thread. Granularity is the CPython "
              "bytecode (GIL build); a free-threaded interpreter is outside the model. Bytecodes of do_request "
              "that do not touch the shared object get a scheduling point only in the 'full' scenarios "
              "(<= 1 preemption quick, <= 2 thorough). Trusted: mc/sched.py, the lock model of the shim "
              "(mutual exclusion, no fairness), sys.monitoring delivering every INSTRUCTION event.")
RULE = ("case = one schedule (deviation list) of one scenario, executed to completion on a freshly built "
        "world; distinct by construction of the depth-first enumeration of deviation lists. Non-trivial: a "
        "schedule in which a thread was preempted while holding the id lock (preemption inside the critical "
        "region) or a thread was disabled by a held lock. Outcome = which request got which number (relative "
        "to the warm-up request, or to the smallest number in scenarios without warm-up).")
ASSUMPTIONS = [
    "threads interleave at bytecode boundaries (CPython with GIL); each bytecode is atomic",
    "the lock obtained from threading.Lock() provides mutual exclusion; no fairness is assumed",
    "caller-supplied ids do not imitate the generated format",
    "connection objects are constructed before the concurrent phase (constructors are not raced); whatever "
    "they create lazily on first use is raced in the 'fresh' scenarios",
]
REQUIRED_FEATURES = ["threads:2", "preemptions:0", "preemptions:1", "preemptions:2", "via:base", "via:bauth",
                     "via:prefixed", "via:clone-wrapper", "caller-id", "two-requests-in-one-thread",
                     "points:full-do_request", "replayed-identically", "fresh-connection-first-use",
                     "shared-caller-headers-dict", "shared-caller-headers-dict:two-threads",
                     "shared-caller-headers-dict:same-thread", "preset-counter", "preset-counter:crosses-10000",
                     "preset-counter:crosses-decimal-width", "preset-counter:beyond-8-digits",
                     "preset-counter:jump+10000", "preset-counter:jump+100000000",
                     "via:single-connection-object",
                     "caller-id:falsy-str", "caller-id:falsy-bytes", "caller-id:falsy-int",
                     "fault:URLError", "fault:HTTPError", "fault:other-request-completed-while-inside-open"]


def required_features(tier):
    return REQUIRED_FEATURES + (["threads:3", "preemptions:3"] if tier == "thorough" else [])


# --------------------------------------------------------------------------- scenarios
def _r(via, own=None, hdr=None, fault=None):
    """own: caller-supplied X-Request-ID (str, int, or {"bytes": hex}); None = the caller supplies none.
    hdr="shared": the request passes the execution-wide caller-owned headers dict (no X-Request-ID).
    fault: FAULT INJECTION — the transport answers this request by raising "URLError" / "HTTPError"."""
    return {"via": via, "own_id": own, "hdr": hdr, "fault": fault}


def _own_value(own):
    if isinstance(own, dict):
        return bytes.fromhex(own["bytes"])
    return own


OWN_ID = "caller-supplied-id-7"

SH = "shared"
_SCEN = {
    # name: (threads, points mode, warm-up request before the threads?[, injected counter[, jump]])
    "2t-base|bauth": ([[_r("base")], [_r("bauth")]], "sparse", True),
    "2t-prefixed|clone": ([[_r("prefixed")], [_r("clone")]], "sparse", True),
    "2t-fresh-base|clone": ([[_r("base")], [_r("clone")]], "sparse", False),
    "2t-ownid+bauth|clone": ([[_r("base", OWN_ID), _r("bauth")], [_r("clone")]], "sparse", True),
    "2t-sharedhdr-base+prefixed|bauth": ([[_r("base", hdr=SH), _r("prefixed", hdr=SH)], [_r("bauth", hdr=SH)]],
                                         "sparse", True),
    "2t-full-base|clone": ([[_r("base")], [_r("clone")]], "full", True),
    "2t-full-fresh-sharedhdr-bauth|base": ([[_r("bauth", hdr=SH)], [_r("base", hdr=SH)]], "full", False),
    "2t-2x2": ([[_r("base"), _r("clone", hdr=SH)], [_r("bauth", hdr=SH), _r("prefixed")]], "sparse", True),
    "3t-base|bauth|clone": ([[_r("base")], [_r("bauth")], [_r("clone")]], "sparse", True),
    "3t-fresh-ownid|prefixed|clone": ([[_r("base", OWN_ID)], [_r("prefixed", hdr=SH)], [_r("clone", hdr=SH)]],
                                      "sparse", False),
    # ---- non-initial start states (STATE INJECTION, see _inject_counter): the counter of the brand-new
    # connection is preset, so that the decimal-width / modulo boundaries of the id format are crossed
    # ---- ONE connection object: nothing is ever derived from it; both threads use that same object
    "2t-solo-base|base": ([[_r("solo")], [_r("solo")]], "sparse", True),
    "2t-solo-fresh-base|base": ([[_r("solo")], [_r("solo")]], "sparse", False),
    "2t-solo-fresh-2+1": ([[_r("solo"), _r("solo", hdr=SH)], [_r("solo", hdr=SH)]], "sparse", False),
    # ---- falsy caller-supplied ids: '' , b'' , 0 are ids supplied by the caller
    "2t-ownid-emptystr+bauth|clone": ([[_r("base", ""), _r("bauth")], [_r("clone")]], "sparse", True),
    "2t-ownid-emptybytes|prefixed+base": ([[_r("bauth", {"bytes": ""})], [_r("prefixed"), _r("base")]], "sparse", True),
    "2t-ownid-zero-fresh-clone|base": ([[_r("clone", 0), _r("base")], [_r("base")]], "sparse", False),
    # ---- FAULT INJECTION on the transport: open() raises for the marked request after the thread sat
    # inside open(); the other thread's request succeeds; the failed request was sent and keeps its number
    "2t-urlerror-base|bauth": ([[_r("base", fault="URLError")], [_r("bauth")]], "sparse", True),
    "2t-httperror-clone|base": ([[_r("clone", fault="HTTPError")], [_r("base")]], "sparse", True),
    "2t-urlerror-bauth+base|prefixed": ([[_r("bauth", fault="URLError"), _r("base")], [_r("prefixed")]],
                                        "sparse", True),
    "2t-fresh-urlerror|urlerror": ([[_r("base", fault="URLError")], [_r("clone", fault="URLError")]],
                                   "sparse", False),
    "3t-urlerror|httperror|base": ([[_r("bauth", fault="URLError")], [_r("clone", fault="HTTPError")], [_r("base")]],
                                   "sparse", True),
    "2t-preset9999-base|bauth": ([[_r("base")], [_r("bauth")]], "sparse", True, 9999),
    "2t-preset9998-fresh-clone|prefixed": ([[_r("clone")], [_r("prefixed")]], "sparse", False, 9998),
    "2t-preset10000-base|clone": ([[_r("base")], [_r("clone")]], "sparse", True, 10000),
    "2t-preset99999-bauth|base": ([[_r("bauth")], [_r("base")]], "sparse", True, 99999),
    "2t-preset19999-ownid+base|clone": ([[_r("base", OWN_ID), _r("base")], [_r("clone")]], "sparse", True, 19999),
    "2t-preset1e8-1-base|bauth": ([[_r("base")], [_r("bauth")]], "sparse", True, 10 ** 8 - 1),
    "2t-preset1e12-1-base|bauth": ([[_r("base")], [_r("bauth")]], "sparse", True, 10 ** 12 - 1),
    # ids issued from counter n and from n+10000 (and n+10**8) on the SAME connection must differ
    "2t-preset5-jump10000-base|bauth": ([[_r("base")], [_r("bauth")]], "sparse", True, 5, 10000),
    "2t-preset9999-jump10000-base|clone": ([[_r("base")], [_r("clone")]], "sparse", True, 9999, 10000),
    "2t-preset7-jump1e8-base|bauth": ([[_r("base")], [_r("bauth")]], "sparse", True, 7, 10 ** 8),
}
SCENARIOS = {k: (tuple(v) + (None, None))[:5] for k, v in _SCEN.items()}

PLAN = {
    # tier: [(scenario, preemption bound, shards per start thread)]
    "quick": [("2t-base|bauth", 2, 6), ("2t-prefixed|clone", 2, 6), ("2t-fresh-base|clone", 2, 6),
              ("2t-ownid+bauth|clone", 2, 8), ("2t-sharedhdr-base+prefixed|bauth", 2, 8),
              ("2t-full-base|clone", 1, 4), ("2t-full-fresh-sharedhdr-bauth|base", 1, 4),
              ("2t-solo-base|base", 2, 6), ("2t-solo-fresh-base|base", 2, 6), ("2t-solo-fresh-2+1", 1, 2),
              ("2t-ownid-emptystr+bauth|clone", 2, 8), ("2t-ownid-emptybytes|prefixed+base", 1, 2),
              ("2t-ownid-zero-fresh-clone|base", 1, 2),
              ("2t-urlerror-base|bauth", 2, 6), ("2t-httperror-clone|base", 2, 6),
              ("2t-urlerror-bauth+base|prefixed", 1, 2), ("2t-fresh-urlerror|urlerror", 1, 2),
              ("2t-preset9999-base|bauth", 2, 6), ("2t-preset9998-fresh-clone|prefixed", 1, 2),
              ("2t-preset10000-base|clone", 1, 2), ("2t-preset99999-bauth|base", 1, 2),
              ("2t-preset19999-ownid+base|clone", 1, 2), ("2t-preset1e8-1-base|bauth", 1, 2),
              ("2t-preset1e12-1-base|bauth", 0, 1), ("2t-preset5-jump10000-base|bauth", 1, 2),
              ("2t-preset9999-jump10000-base|clone", 1, 2), ("2t-preset7-jump1e8-base|bauth", 0, 1)],
    "thorough": [("2t-base|bauth", 3, 12), ("2t-prefixed|clone", 3, 12), ("2t-fresh-base|clone", 3, 12),
                 ("2t-ownid+bauth|clone", 3, 16), ("2t-sharedhdr-base+prefixed|bauth", 3, 16), ("2t-2x2", 2, 8),
                 ("2t-full-base|clone", 2, 16), ("2t-full-fresh-sharedhdr-bauth|base", 2, 16),
                 ("3t-base|bauth|clone", 2, 8), ("3t-fresh-ownid|prefixed|clone", 2, 8),
                 ("2t-solo-base|base", 3, 12), ("2t-solo-fresh-base|base", 3, 12), ("2t-solo-fresh-2+1", 2, 8),
                 ("2t-ownid-emptystr+bauth|clone", 3, 16), ("2t-ownid-emptybytes|prefixed+base", 2, 8),
                 ("2t-ownid-zero-fresh-clone|base", 2, 8),
                 ("2t-urlerror-base|bauth", 3, 12), ("2t-httperror-clone|base", 3, 12),
                 ("2t-urlerror-bauth+base|prefixed", 2, 8), ("2t-fresh-urlerror|urlerror", 2, 6),
                 ("3t-urlerror|httperror|base", 2, 8),
                 ("2t-preset9999-base|bauth", 3, 12), ("2t-preset9998-fresh-clone|prefixed", 2, 6),
                 ("2t-preset10000-base|clone", 2, 6), ("2t-preset99999-bauth|base", 2, 6),
                 ("2t-preset19999-ownid+base|clone", 2, 8), ("2t-preset1e8-1-base|bauth", 2, 6),
                 ("2t-preset1e12-1-base|bauth", 1, 2), ("2t-preset5-jump10000-base|bauth", 2, 6),
                 ("2t-preset9999-jump10000-base|clone", 2, 6), ("2t-preset7-jump1e8-base|bauth", 1, 2)],
}


ENV_BOUND = {"quick": 1, "thorough": 2}     # "the timeout elapsed" answers of acquire(timeout=...) per execution


def bounds(tier):
    return {"scenarios": {name: {"threads": SCENARIOS[name][0], "points": SCENARIOS[name][1],
                                 "warm_up_request": SCENARIOS[name][2],
                                 "injected_counter": SCENARIOS[name][3], "injected_jump": SCENARIOS[name][4],
                                 "max_preemptions": b}
                          for name, b, _ in PLAN[tier]},
            "scheduling_points": "sparse: every bytecode of every _HttpConnImpl method except do_request/"
                                 "logging/constructor + every attribute access on self in do_request + "
                                 "lock blocking; full: additionally every bytecode of do_request",
            "state_injection": "scenarios named preset*: the harness writes _HttpConnImpl._cur_req_id of the "
                               "brand-new connection (and again, +jump, after the threads) instead of issuing "
                               "10**4 .. 10**12 requests",
            "lock_timeouts": f"acquire(timeout>=0) on a held lock is an environment choice (block | elapsed); "
                             f"<= {ENV_BOUND[tier]} 'elapsed' answers per execution; no such call in the tree -> "
                             f"no choice point (extra.max_timeout_acquire_choice_points... == 0)",
            "run_to_completion": True}


def shards(tier):
    out = []
    for name, bound, m in PLAN[tier]:
        n = len(SCENARIOS[name][0])
        for start in range(n):
            for r in range(m):
                out.append((name, bound, start, r, m))
    return out


# --------------------------------------------------------------------------- the world
class _Resp:
    def __init__(self, method):
        self.data = b""
        self._method = method
        self.code = 200

    def __enter__(self):
        return self

    def __exit__(self, *a):
        return False

    def read(self):
        return self.data

    def getheaders(self):
        return {}


class _ErrBody(io.BytesIO):
    """fp of an injected HTTPError: what do_request reads and logs."""
    def __init__(self, method):
        super().__init__(b'{"error": "injected"}')
        self._method = method

    def getheaders(self):
        return {}


class Recorder:
    """The transport.  A request is SENT once it reaches ``open``; the thread then sits "inside open()"
    at an explicit scheduling point (other threads may run whole requests meanwhile) and is finally
    answered according to the scenario: canned response, URLError or HTTPError."""

    def __init__(self):
        self.requests = []
        self.faults = {}          # token -> "URLError" | "HTTPError"
        self.overtaken_faulty = 0

    def open(self, request, *a, **kw):
        self.requests.append(request)
        n = len(self.requests)
        sched.point("opener.open")
        fault = self.faults.get(_token(request))
        if fault and len(self.requests) != n:
            self.overtaken_faulty += 1
        if fault == "URLError":
            raise urllib.error.URLError("connection refused (injected)")
        if fault == "HTTPError":
            raise urllib.error.HTTPError(request.full_url, 503, "Service Unavailable (injected)", {},
                                         _ErrBody(request.get_method()))
        return _Resp(request.get_method())


class _Caller(MCallerHttp):
    _HTTP_PREFIX_MAP = {"compA": "/cmpA"}

    @method_http(None, "compA")
    def call_a(self, path, headers):
        return self.get_conn().post(path, data={"k": 1}, headers=headers)


_MODSTATE = sched.ModuleState(conn_http, mcaller_http)   # taken at import: pristine process
_LEAKS = [0]
_EXCLUDE = {"__init__", "__str__", "__repr__", "_make_opener", "_log_request", "_log_response"}
_real_build_opener = urllib.request.build_opener


def _code_objects(fn_code):
    yield fn_code
    for c in fn_code.co_consts:
        if hasattr(c, "co_code"):
            yield from _code_objects(c)


def target_codes(mode):
    """{code: None|offsets} for the methods of _HttpConnImpl (whatever they are in the tree under test)."""
    pts = {}
    for name, obj in vars(conn_http._HttpConnImpl).items():
        fn = getattr(obj, "__func__", obj)
        code = getattr(fn, "__code__", None)
        if code is None or name in _EXCLUDE:
            continue
        for c in _code_objects(code):
            if name == "do_request" and mode == "sparse" and c is code:
                pts[c] = sched.shared_attr_offsets(c)
            else:
                pts[c] = None
    return pts


class _Harness:
    """Owns the seams for the duration of a shard / replay."""

    def __init__(self, mode):
        self.mode = mode

    def __enter__(self):
        self.saved_threading = conn_http.threading
        conn_http.threading = sched.SHIM
        urllib.request.build_opener = lambda *h: Recorder()   # stdlib network seam (and 35 ms of ssl set-up)
        sched.instrument(target_codes(self.mode))
        return self

    def __exit__(self, *a):
        sched.uninstrument()
        urllib.request.build_opener = _real_build_opener
        conn_http.threading = self.saved_threading
        return False


def _build_world(solo=False):
    """solo: ONE connection object only — no derived connection, no caller, no clone is ever constructed
    on this _HttpConnImpl (both threads then use that single object)."""
    random.seed(0)
    if _MODSTATE.restore():
        _LEAKS[0] += 1
    base = conn_http.HttpConn("http://h:8080")
    if solo:
        rec = Recorder()
        base.conn_impl.opener = rec
        return {"base": base, "shared_headers": {"X-Trace": "trace-1"}}, rec, True
    bauth = conn_http.BAuthConn(base, "user", "pw")
    prefixed = conn_http.HttpConn(bauth, adapters=conn_http.RequestAdapterAddPathPrefix("/pfx"))
    clone = _Caller(base).clone(conn_http.BAuthConn.Adapter("u2", "p2"))
    rec = Recorder()
    impl = base.conn_impl
    impl.opener = rec
    shared = all(x.conn_impl is impl for x in (bauth, prefixed, clone.http_conn))
    return {"base": base, "bauth": bauth, "prefixed": prefixed, "clone": clone,
            "shared_headers": {"X-Trace": "trace-1"}}, rec, shared


def _do(world, req, token):
    headers = {"X-Request-ID": _own_value(req["own_id"])} if req["own_id"] is not None else None
    if req.get("hdr") == "shared":
        assert headers is None
        headers = world["shared_headers"]       # one caller-owned dict object for the whole execution
    via = req["via"]
    path = "/" + token
    if via == "solo":
        return world["base"].post(path, data={"k": 1}, headers=headers) if token.endswith("r1") \
            else world["base"].get(path, headers=headers)
    if via == "base":
        return world["base"].get(path, headers=headers)
    if via == "bauth":
        return world["bauth"].post(path, data={"k": 1}, headers=headers)
    if via == "prefixed":
        return world["prefixed"].get(path, params={"q": "1"}, headers=headers)
    if via == "clone":
        return world["clone"].call_a(path, headers)
    raise ValueError(via)


def _token(req):
    return req.full_url.rsplit("/", 1)[-1].split("?")[0]


def _reqid(req):
    for k, v in req.header_items():
        if k.lower() == "x-request-id":
            return v
    return None


def _number(rid):
    if not isinstance(rid, str):
        return None
    tail = rid.rsplit("-", 1)[-1]
    if tail.isdigit():
        return int(tail)
    digits = ""
    for ch in reversed(rid):
        if ch.isdigit():
            digits = ch + digits
        elif digits:
            break
    return int(digits) if digits else None


COUNTER_ATTR = "_cur_req_id"      # ak/conn_http.py:88 — "next sequence number; None disables ids"


def _inject_counter(world, value):
    """STATE INJECTION: put the shared connection into the state "``value`` ids have been handed out"
    without issuing them (no bound on schedules reaches 10**4 requests).  Only the documented counter
    attribute is written, only between requests, from the harness thread."""
    impl = world["base"].conn_impl
    cur = getattr(impl, COUNTER_ATTR, None)
    if not isinstance(cur, int) or isinstance(cur, bool):
        raise sched.HarnessError(f"state injection impossible: _HttpConnImpl.{COUNTER_ATTR} is {cur!r}")
    setattr(impl, COUNTER_ATTR, value)


def execute(threads, deviations, warm=True, preset=None, jump=None):
    """One controlled execution.  Returns (Execution, observation dict).

    preset: counter value injected into the brand-new connection before anything is sent.
    jump:   after the threads, the counter is set to preset+jump and as many sequential requests as were
            issued before are sent again ("j0", "j1", ...) instead of the single final request."""
    solo = all(rq["via"] == "solo" for reqs in threads for rq in reqs)
    seq = "solo" if solo else "base"
    world, rec, shared = _build_world(solo)
    if preset is not None:
        _inject_counter(world, preset)
    if warm:
        _do(world, _r(seq), "warm")      # (cannot block: nothing has run on this connection yet)

    raised = {}
    for t, reqs in enumerate(threads):
        for k, req in enumerate(reqs):
            if req.get("fault"):
                rec.faults[f"t{t}r{k}"] = req["fault"]

    def body(t):
        def run():
            for k, req in enumerate(threads[t]):
                try:
                    _do(world, req, f"t{t}r{k}")
                except Exception as e:  # noqa - an injected fault must reach the caller: recorded, judged
                    if not req.get("fault"):
                        raise
                    raised[f"t{t}r{k}"] = type(e).__name__
        return run

    s = sched.Scheduler(len(threads), deviations)
    ex = s.run([body(t) for t in range(len(threads))])
    final_err = None
    if not ex.deadlock and not ex.error:
        try:
            if jump is None:
                _do(world, _r(seq), "final")
            else:
                _inject_counter(world, preset + jump)
                n = (1 if warm else 0) + sum(1 for reqs in threads for rq in reqs if rq["own_id"] is None)
                for i in range(n):
                    _do(world, _r(seq if solo else ("base", "bauth", "clone")[i % 3]), f"j{i}")
        except sched.HarnessError:
            raise
        except sched.UncontrolledBlock as e:
            ex.deadlock = {"sequential phase": str(e)}
        except Exception as e:  # noqa
            final_err = f"{type(e).__name__}: {e}"
    sent = {}
    for rq in rec.requests:
        sent.setdefault(_token(rq), []).append(_reqid(rq))
    obs = {"sent": sent, "errors": ex.errors, "deadlock": ex.deadlock, "shared_impl": shared,
           "final_error": final_err, "raised": raised, "overtaken_faulty": rec.overtaken_faulty}
    return ex, obs


def judge(threads, obs, warm=True, preset=None, jump=None):
    """-> (violation or None, outcome label).  violation = (signature, message, observed, expected)."""
    if obs["deadlock"]:
        return ("deadlock", "threads wait for each other forever", obs["deadlock"], "all requests complete"), "deadlock"
    errs = [e for e in obs["errors"] if e]
    if errs or obs["final_error"]:
        e = (errs + [obs["final_error"]])[0]
        return ("request-raised-" + e.split(":")[0], "a request raised under this schedule", e,
                "request completes"), "raised"
    sent = obs["sent"]
    for t, reqs in enumerate(threads):
        for k, rq in enumerate(reqs):
            if rq.get("fault") and obs["raised"].get(f"t{t}r{k}") != rq["fault"]:
                return ("fault-not-propagated", "the transport's exception did not reach the caller of the request",
                        obs["raised"].get(f"t{t}r{k}"), rq["fault"]), "swallowed"
    seg1 = ([("warm", None)] if warm else []) + [(f"t{t}r{k}", _own_value(rq["own_id"]))
                                                 for t, reqs in enumerate(threads) for k, rq in enumerate(reqs)]
    seg2 = []
    if jump is None:
        seg1.append(("final", None))
    else:
        seg2 = [(f"j{i}", None) for i in range(sum(1 for _, own in seg1 if own is None))]
    tokens = seg1 + seg2
    for tok, _ in tokens:
        if len(sent.get(tok, [])) != 1:
            return ("request-not-sent-once", f"request {tok} reached the opener {len(sent.get(tok, []))} times",
                    sent, "once"), "lost"
    gen = []
    for tok, own in tokens:
        rid = sent[tok][0]
        if own is not None:
            if rid != own or type(rid) is not type(own):
                return ("caller-id-changed", f"caller supplied id of {tok} was not sent unchanged", rid, own), "own-changed"
        else:
            if rid is None:
                return ("id-missing", f"request {tok} carries no X-Request-ID", sent, "an id"), "missing"
            gen.append((tok, rid))
    ids = [rid for _, rid in gen]
    nums = {tok: _number(rid) for tok, rid in gen}
    seg1_gen = [tok for tok, own in seg1 if own is None]
    known = [nums[t] for t in seg1_gen if nums[t] is not None]
    w = (preset - (1 if not warm else 0)) if preset is not None else \
        nums["warm"] if warm else (min(known) - 1 if known else None)
    label = "|".join(f"T{t}:" + ",".join("own" if rq["own_id"] is not None
                                         else str(None if nums[f't{t}r{k}'] is None or w is None
                                                  else nums[f't{t}r{k}'] - w)
                                         for k, rq in enumerate(reqs))
                     for t, reqs in enumerate(threads))
    if len(set(ids)) != len(ids):
        dup = sorted({r for r in ids if ids.count(r) > 1})
        return ("duplicate-id", "two requests on one shared connection carry the same X-Request-ID",
                {"ids": dict(gen), "duplicates": dup}, "pairwise distinct ids"), label
    if any(v is None for v in nums.values()):
        return ("id-without-number", "no sequence number found in an id", dict(gen), "ids with numbers"), label
    if len(set(nums.values())) != len(nums):
        return ("number-repeated", "two ids carry the same sequence number", dict(gen), "distinct numbers"), label
    vals = sorted(nums[t] for t in seg1_gen)
    first = preset if preset is not None else vals[0]
    want = list(range(first, first + len(vals)))
    if preset is not None and vals[0] != preset and vals == list(range(vals[0], vals[0] + len(vals))):
        return ("number-differs-from-counter", "the number in the id is not the connection's counter value "
                                               "(state injected by the harness)",
                {"numbers": nums}, {"first_number": preset}), label
    if vals != want or (jump is None and nums["final"] != want[-1]) or (warm and nums["warm"] != want[0]):
        return ("gap-in-numbers", "sequence numbers are not handed out consecutively "
                     "(a number was skipped, wrapped around or consumed by a request that did not use it)",
                {"numbers": nums}, {"numbers": f"{want[0]}..{want[-1]}" + ("" if jump is not None
                                                                            else f" with final={want[-1]}")}), label
    if seg2:
        got2 = [nums[t] for t, _ in seg2]
        want2 = list(range(preset + jump, preset + jump + len(seg2)))
        if got2 != want2:
            return ("gap-in-numbers", "sequence numbers after the injected jump are not the counter values",
                    {"numbers": nums}, {"after_jump": want2}), label
    if not obs["shared_impl"]:
        return ("impl-not-shared", "derived connections do not share the implementation object",
                None, "one _HttpConnImpl"), label
    return None, label


# --------------------------------------------------------------------------- exploration
def _features(name, threads, mode, warm=True, preset=None, jump=None):
    f = {f"threads:{len(threads)}"}
    if preset is not None:
        n = (1 if warm else 0) + sum(1 for reqs in threads for rq in reqs if rq["own_id"] is None) + 1
        f.add("preset-counter")
        if preset // 10000 != (preset + n - 1) // 10000:
            f.add("preset-counter:crosses-10000")
        if len(str(preset)) != len(str(preset + n - 1)):
            f.add("preset-counter:crosses-decimal-width")
        if preset >= 10 ** 8 - 1:
            f.add("preset-counter:beyond-8-digits")
        if jump is not None:
            f.add(f"preset-counter:jump+{jump}")
    if not warm:
        f.add("fresh-connection-first-use")
    nsh = [sum(1 for rq in reqs if rq.get("hdr") == "shared") for reqs in threads]
    if sum(nsh) >= 2:
        f.add("shared-caller-headers-dict")
        if sum(1 for n in nsh if n) >= 2:
            f.add("shared-caller-headers-dict:two-threads")
        if max(nsh) >= 2:
            f.add("shared-caller-headers-dict:same-thread")
    for reqs in threads:
        if len(reqs) > 1:
            f.add("two-requests-in-one-thread")
        for rq in reqs:
            f.add({"base": "via:base", "bauth": "via:bauth", "prefixed": "via:prefixed",
                   "clone": "via:clone-wrapper", "solo": "via:single-connection-object"}[rq["via"]])
            if rq["own_id"] is not None:
                f.add("caller-id")
                v = _own_value(rq["own_id"])
                if not v:
                    f.add("caller-id:falsy")
                    f.add("caller-id:falsy-" + type(v).__name__)
            if rq.get("fault"):
                f.add("fault:" + rq["fault"])
    if mode == "full":
        f.add("points:full-do_request")
    return sorted(f)


def _case(name, ex):
    threads, mode, warm, preset, jump = SCENARIOS[name]
    return {"scenario": name, "threads": threads, "points": mode, "warm": warm, "preset": preset, "jump": jump,
            "schedule": ex.deviations}


def _visit_factory(name, acc, seed):
    threads, mode, warm, preset, jump = SCENARIOS[name]
    base_feats = _features(name, threads, mode, warm, preset, jump)
    counter = [0]

    def visit(ex):
        obs = ex.obs
        v, label = judge(threads, obs, warm, preset, jump)
        feats = list(base_feats) + [f"preemptions:{ex.preemptions}"]
        if ex.preempt_in_cs:
            feats.append("preempt-in-critical-region")
        if ex.blocked_events:
            feats.append("blocked-on-lock")
        acc.note_max("timeout_acquire_choice_points_in_one_execution__0_means_not_used_by_the_tree", ex.env_points)
        if ex.env_points:
            feats.append("timeout-acquire:choice-point")
        if ex.env_answers:
            feats.append("timeout-acquire:timeout-elapsed")
        if obs["overtaken_faulty"]:
            feats.append("fault:other-request-completed-while-inside-open")
        acc.case(nontrivial=bool(ex.preempt_in_cs or ex.blocked_events), features=feats,
                 outcome=f"{name} {label}")
        acc.trans(ex.nsteps)
        acc.note_max("scheduling_points_in_one_execution", ex.nsteps)
        acc.note_sum("baton_handovers", ex.switches)
        acc.note_sum("lock_operations", ex.lock_ops)
        counter[0] += 1
        check_replay = v is not None or (counter[0] + seed) % 40 == 0
        if check_replay:
            ex2, obs2 = execute(threads, ex.deviations, warm, preset, jump)
            if ex2.fingerprint() != ex.fingerprint() or obs2 != obs:
                raise sched.HarnessError(f"replay of schedule {ex.deviations} of {name} diverged")
            acc.feat("replayed-identically")
        if ex.preemptions and (counter[0] + seed) % 7 == 0:
            acc.sample({"scenario": name, "schedule": ex.deviations, "outcome": label,
                        "switches": ex.switch_points()})
        if v is not None:
            sig, msg, observed, expected = v
            acc.violation("C16:" + sig, _case(name, ex), msg + "; " + " / ".join(ex.switch_points()),
                          observed, expected)
    return visit


def run_shard(shard, tier, seed, acc):
    name, bound, start, r, m = shard
    threads, mode, warm, preset, jump = SCENARIOS[name]
    rng = random.Random(seed * 7919 + sum(map(ord, name)) * 31 + start * 7 + r) if seed else None
    visit = _visit_factory(name, acc, seed)
    with _Harness(mode):
        def run(dev):
            ex, obs = execute(threads, dev, warm, preset, jump)
            ex.obs = obs
            return ex
        root = [[0, start]] if start != 0 else []
        nrun, complete = sched.explore(run, root, bound, visit, shard=(r, m), expired=acc.expired, rng=rng,
                                       min_step=1, env_bound=ENV_BOUND[tier])
        acc.note_sum("executions_including_shard_roots", nrun)
        acc.note_sum("module_level_state_restored", _LEAKS[0])
        _LEAKS[0] = 0


def replay(case, acc):
    threads, mode, warm = case["threads"], case["points"], case.get("warm", True)
    preset, jump = case.get("preset"), case.get("jump")
    with _Harness(mode):
        ex, obs = execute(threads, case["schedule"], warm, preset, jump)
        if ex.error:
            raise sched.HarnessError(ex.error)
        ex2, obs2 = execute(threads, case["schedule"], warm, preset, jump)
        if ex2.fingerprint() != ex.fingerprint() or obs2 != obs:
            raise sched.HarnessError("replay diverged: nondeterminism not owned")
    v, label = judge(threads, obs, warm, preset, jump)
    acc.case(nontrivial=bool(ex.preempt_in_cs), outcome=label)
    acc.trans(ex.nsteps)
    if v is not None:
        sig, msg, observed, expected = v
        acc.violation("C16:" + sig, case, msg + "; " + " / ".join(ex.switch_points()), observed, expected)


# --------------------------------------------------------------------------- self test of the engine
def selftest():
    """The engine must find a lost update in a toy racy counter with one preemption, must find none
    when the shim lock guards it, and must report a lock-order deadlock."""
    class Box:
        def __init__(self):
            self.n = 0
            self.l1 = sched.SHIM.Lock()
            self.l2 = sched.SHIM.Lock()

        def racy(self):
            v = self.n
            self.n = v + 1

        def safe(self):
            with self.l1:
                v = self.n
                self.n = v + 1

        def ab(self):
            with self.l1:
                with self.l2:
                    self.n += 1

        def lax(self):
            ok = self.l1.acquire(timeout=0.5)      # result not enforced
            try:
                v = self.n
                self.n = v + 1
            finally:
                if ok:
                    self.l1.release()

        def ba(self):
            with self.l2:
                with self.l1:
                    self.n += 1

    def explore_toy(m0, m1, bound, env_bound=0):
        res = {"lost": 0, "deadlock": 0, "n": 0}
        box = [None]

        def run(dev):
            b = box[0] = Box()
            ex = sched.Scheduler(2, dev).run([lambda: m0(b), lambda: m1(b)])
            ex.obs = b.n
            return ex

        def visit(ex):
            res["n"] += 1
            if ex.deadlock:
                res["deadlock"] += 1
            elif ex.obs != 2:
                res["lost"] += 1
        for start in (0, 1):
            sched.explore(run, [[0, start]] if start else [], bound, visit, min_step=1, env_bound=env_bound)
        return res

    def schedules(m0, m1, bound, nshards):
        seen = []

        def run(dev):
            b = Box()
            return sched.Scheduler(2, dev).run([lambda: m0(b), lambda: m1(b)])
        for start in (0, 1):
            for r in range(nshards):
                sched.explore(run, [[0, start]] if start else [], bound,
                              lambda ex: seen.append(tuple(map(tuple, ex.deviations))), shard=(r, nshards),
                              min_step=1)
        return seen

    sched.instrument({f.__code__: None for f in (Box.racy, Box.safe, Box.ab, Box.ba, Box.lax)})
    try:
        whole, parts = schedules(Box.racy, Box.racy, 2, 1), schedules(Box.racy, Box.racy, 2, 3)
        assert len(set(whole)) == len(whole) == len(parts) and set(whole) == set(parts), \
            "sharding by schedule prefix must partition the schedule space"
        a = explore_toy(Box.racy, Box.racy, 1)
        assert a["lost"] > 0 and a["deadlock"] == 0, a
        b = explore_toy(Box.safe, Box.safe, 1)
        assert b["lost"] == 0 and b["deadlock"] == 0 and b["n"] > a["n"], b
        c = explore_toy(Box.ab, Box.ba, 1)
        assert c["deadlock"] > 0, c
        d0, d1 = explore_toy(Box.lax, Box.lax, 1, 0), explore_toy(Box.lax, Box.lax, 1, 1)
        assert d0["lost"] == 0 and d1["lost"] > 0 and d1["n"] > d0["n"], (d0, d1)   # timeout = environment answer
    finally:
        sched.uninstrument()
    assert _number("ab120001-0000-0000-0000-000000000001") == 1
