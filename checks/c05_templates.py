"""C05 — ListProds / MapProds / ProdSequence return exactly the denoted items (DESIGN.md §2 C05).

Space (every member is visited, nothing sampled):
  grammars : VALUE -> WORD | list | map | '@' SEQ ';' with one ListProds and one MapProds configuration.
             ListProds options: brackets x delimiter x allow_final_delimiter {default, True, False} x
             optional {default, False, True} x nullable item symbol — every combination the constructor
             accepts (30) — plus, for every combination with a delimiter, the item symbol being itself a
             ProdSequence symbol ("rows", 11); MapProds: brackets x allow_final_delimiter x optional x
             key symbol terminal / choice non-terminal x value symbol = VALUE / the key symbol itself (32);
             ProdSequence over the template symbols directly or over VALUE; productions declared top-down
             and bottom-up (leaves first, start symbol last); a "statements" family adds
             VALUE -> '%' SEQ ';' | '%' WORD SEQ '.' (alternatives that cannot be factorized: the sequence of
             the second one is entered again, one token later, after a roll-back out of the first).
             quick: every list configuration with the default map and vice versa plus six crossings, each
             in both declaration orders (sequence over the template symbols; over VALUE for the default
             pair and the crossings);
             thorough: the full product (top-down, sequence over the template symbols); sequence over VALUE
             and the bottom-up order on the quick grammar set; values one node larger on the quick set.
             An AnyTokenExcept family (GROUP -> '@' ProdSequence(GROUP, LST, AnyTokenExcept(...)) ';',
             LST = ListProds('[', LITEM, None, ']'), LITEM -> AnyTokenExcept(...) | GROUP | LST) under three
             tokenizers with different terminal sets, as *construction sequences from pristine objects*: one
             parser from fresh objects; every ordered pair of tokenizers with the AnyTokenExcept object of
             the sequence / of the list item / both being the very same object for both parsers (smaller
             token set first, larger first, equal); three pairs sharing the template instances themselves
             (refused loudly by the library: counted, nothing to judge).  Every parser of a sequence is
             judged on all its values: it must behave as if built from fresh objects.
             A family of sequences with overlapping alternatives: '@' ProdSequence(LONG, SHORT) ';' with
             LONG -> SHORT ':' SHORT declared first, under symbol names whose alphabetical order agrees /
             disagrees with the declared order, SHORT a terminal or a non-terminal, both declaration orders.
             A "repeated optional symbol" family: DECL -> WORD X ':' WORD X Y ';' with the same optional list /
             optional map / bracket-less list symbol X twice in one production, every occurrence present or
             absent, in both declaration orders.
  data     : every value of <= S nodes (atoms a/b, omitted items, lists, rows, maps with repeated keys,
             sequences, absent optional containers), nesting depth <= D, width <= W
  text     : the data rendered with a mixed gap layout (blanks, line breaks, end-of-line and multi-line
             comments, nothing); values of <= 3 nodes additionally with the 'exotic' layout
             (form feed / U+2028 as blanks, inside multi-line comments and inside one-line comments whose
             remaining text would parse as further items), with the 'commented-copy' layout (after every line a
             multi-line comment spanning whole lines that holds a character-for-character copy of that live
             line) and with every uniform layout; with a final delimiter in no / every (thorough: also only in the inner) non-empty
             delimited container
Oracle: models/templates.py — the generating data is the expected result; the cleaned tree is
normalised to plain Python data and compared (source order, last value of a repeated key, [] / {} for
an empty bracket pair, None for an absent optional container).  A final delimiter must be rejected
(ParsingError) exactly when the options do not allow it and must not add an element.
"""

from ak import llparser as impl
from models import templates as T

ID = "C05"
TITLE = "List, map and sequence templates return exactly the denoted items"
TECHNIQUE = "bounded exhaustive data/option enumeration, render -> parse -> normalise round trip"
DESIGN_REF = "§2 C05"
LEVEL_TEXT = ("Every nested data value up to a node bound is rendered to text under every accepted "
              "combination of ListProds/MapProds options (incl. a sequence symbol as list item and one symbol "
              "as key and value of a map), two ProdSequence embeddings, two declaration orders of the "
              "grammar, several white-space/comment layouts (incl. form feed / U+2028) and final-delimiter "
              "placements, parsed by the real parser with the default "
              "cleanup, and the cleaned tree must denote exactly the generating data.")
LEVEL_NOTE = ("Small-scope: values with more nodes than the bound and other embeddings of the templates are "
              "not covered; AnyTokenExcept only in the dedicated family. Trusted: renderer, normaliser and comparer in "
              "models/templates.py; names of the nodes in the cleaned tree are not compared.")
RULE = ("case = one (grammar configuration, data value, layout, final-delimiter mode); data values are "
        "distinct by construction, a final-delimiter mode that adds no token is skipped. Non-trivial: the "
        "value nests containers (depth >= 2), or has an omitted item, a repeated key, an absent optional "
        "container, or the text has a final delimiter.")
ASSUMPTIONS = [
    "atoms are WORD tokens; keys are WORD tokens (directly or through a choice symbol)",
    "a list whose item symbol is nullable cannot express a trailing omitted item or the one-item list "
    "[None] apart from a final delimiter / an empty bracket pair: those values are not generated",
    "nullable items with a final delimiter that is not allowed: the same characters read as 'omitted "
    "last item' (the suite asserts that reading) — rejection and that reading are both accepted",
    "a list/map without brackets or with optional=True is embedded between '<' '>' / '(' ')'",
    "a list whose item symbol is a ProdSequence symbol ('rows'): an empty row is a legal item, so a delimiter "
    "after the last row reads as final delimiter (nothing added) or as delimiter + empty row; both readings "
    "are accepted where a final delimiter is allowed, rejection or the second reading where it is not; a "
    "bracket-less list of rows without any token reads as [] or as one empty row (the outcome labels in "
    "the evidence say which reading the implementation took)",
    "a line of the text ends at a line-feed only; form feed, U+2028 etc. are blanks / comment characters",
    "helper objects (AnyTokenExcept) may be kept by the user and given to several parsers; a ListProds / "
    "MapProds / ProdSequence instance given to a second parser is refused by an assertion at construction — "
    "a loud refusal returns no items, so it is counted, not judged",
    "for a repeated key both 'position of first occurrence' and 'position of last occurrence' are "
    "accepted as source order",
]
REQUIRED_FEATURES = [
    "list", "map", "seq", "list-in-list", "list-in-map", "list-in-seq", "map-in-list", "map-in-map",
    "map-in-seq", "seq-in-list", "seq-in-map", "seq-in-seq", "list:len0", "list:len1", "list:len2",
    "list:len3+", "map:len0", "map:len2", "seq:len0", "seq:len2", "map:repeated-key",
    "list:omitted-item", "list:omitted-last-item", "list:absent-optional", "map:absent-optional",
    "lopt:brackets", "lopt:no-brackets", "lopt:delimiter", "lopt:no-delimiter", "lopt:afd-default",
    "lopt:afd-true", "lopt:afd-false", "lopt:optional", "lopt:nullable-item",
    "mopt:brackets", "mopt:no-brackets", "mopt:afd-true", "mopt:afd-false", "mopt:optional",
    "mopt:key-nonterminal", "mopt:key-symbol-is-value-symbol", "lopt:item-symbol-is-a-sequence",
    "row", "list-in-row", "map-in-row", "seq-in-row", "fd:after-last-row", "order:top-down", "order:bottom-up",
    "family:sequence-with-overlapping-alternatives", "overlap:declared-order-is-alphabetical",
    "overlap:declared-order-is-not-alphabetical", "overlap:short-alternative-is-a-terminal",
    "overlap:short-alternative-is-a-non-terminal", "overlap:long-alternative-matched",
    "overlap:short-alternative-matched", "layout:commented-copy",
    "gap:multi-line-comment-with-copy-of-an-earlier-live-line",
    "family:repeated-optional-symbol", "repeated-optional:list-symbol", "repeated-optional:map-symbol",
    "repeated-optional:bare-symbol", "repeated-optional:first-present-second-absent",
    "repeated-optional:first-absent-second-present", "repeated-optional:first-absent-second-absent",
    "repeated-optional:first-present-second-present", "repeated-optional:following-container-absent",
    "family:any-token-except", "anyexcept:single-parser", "anyexcept:token-in-sequence",
    "anyexcept:token-as-list-item", "anyexcept:token-unknown-to-the-smaller-tokenizer",
    "shared-template-object:two-parsers", "shared:sequence-helper", "shared:list-item-helper",
    "shared:both-helpers", "shared:first-parser-has-the-smaller-token-set",
    "shared:first-parser-has-the-larger-token-set", "shared:same-token-set", "anyx:judged-parser-1",
    "anyx:judged-parser-2", "shared-template-instance:refused-at-construction",
    "family:statements", "plain-stmt", "named-stmt", "seq:entered-after-rollback",
    "seq:entered-after-rollback:len0", "seq:entered-after-rollback:len1", "seq:entered-after-rollback:len2",
    "list-in-named-stmt", "map-in-named-stmt", "named-stmt-in-seq", "named-stmt-in-list",
    "layout:exotic", "gap:eol-comment-with-exotic-line-break", "gap:exotic-line-break-as-blank",
    "gap:span-comment-with-exotic-line-break", "seq:direct-symbols", "seq:via-value",
    "fd:allowed", "fd:forbidden", "fd:nullable-not-allowed",
    "layout:tight", "layout:newline", "layout:comment", "layout:mixed",
]

TOKENIZER = r"""
    (?P<SPACE>\s+)
    |(?P<COMMENT_EOL>//.*)
    |(?P<COMMENT_ML>/\*)
    |(?P<WORD>[a-z]+)
    |(?P<NUMBER>[0-9]+)
    |(?P<COMMA>,)
    |(?P<COLON>:)
    |(?P<SEMI>;)
    |(?P<AT>@)
    |(?P<BO>\[)
    |(?P<BC>\])
    |(?P<CO>\{)
    |(?P<CC>\})
    |(?P<LT><)
    |(?P<GT>>)
    |(?P<PO>\()
    |(?P<PC>\))
    |(?P<PCT>%)
    |(?P<DOT>\.)
"""
SYNONYMS = {"COMMA": ",", "COLON": ":", "SEMI": ";", "AT": "@", "BO": "[", "BC": "]", "CO": "{", "CC": "}",
            "LT": "<", "GT": ">", "PO": "(", "PC": ")", "PCT": "%", "DOT": ".", "COMMENT_EOL": "COMMENT", "COMMENT_ML": "COMMENT"}
SPAN = {"COMMENT_ML": r"(?P<BODY>.*?)\*/"}

_TIERS = {
    # layouts: on every value / additionally on values of <= layout_size nodes
    "quick": {"size": 4, "depth": 3, "width": 3, "big_size": 0,
              "layouts": ("mixed",), "more_layouts": ("exotic", "commented-copy", "tight", "newline", "comment"), "layout_size": 3,
              "fd": (("all", "tight"),), "big_fd": (), "bottom_up_layouts": ("mixed",), "stmt_size": 3,
              "stmt_big_size": 0, "anyx_size": 4},
    "thorough": {"size": 4, "depth": 4, "width": 4, "big_size": 5,
                 "layouts": ("mixed",), "more_layouts": ("exotic", "commented-copy", "tight", "space", "newline", "comment"),
                 "layout_size": 3, "fd": (("all", "tight"), ("inner", "exotic")), "big_fd": (("all", "tight"),),
                 "bottom_up_layouts": ("mixed", "exotic"), "stmt_size": 3, "stmt_big_size": 4, "anyx_size": 5},
}
SEQ_VARIANTS = ("direct", "value")


def _lopt(k):
    return T.LOpt(*k)


def _mopt(k):
    return T.MOpt(*k)


def grammar_set(tier):
    """[(lopt key, mopt key)] of the tier; 'core' = the quick set."""
    ls, ms = T.list_options(), T.map_options()
    core = [(l.key(), T.M_DEFAULT.key()) for l in ls]
    core += [(T.L_DEFAULT.key(), m.key()) for m in ms if m.key() != T.M_DEFAULT.key()]
    core += [([False, True, None, None, True], [False, True, None, False]),      # both without brackets
             ([True, True, None, True, True], [True, True, True, True]),         # both optional
             ([False, False, None, None, False], [False, False, None, True]),
             ([True, False, False, True, False], [True, False, True, False]),
             ([True, True, None, None, True, True], [True, True, None, False, True]),     # rows x word->word map
             ([False, True, None, None, True, True], [False, True, None, True, True])]
    if tier == "quick":
        return core, []
    full = [(l.key(), m.key()) for l in ls for m in ms]
    return full, core


def bounds(tier):
    t = _TIERS[tier]
    small, big = grammar_set(tier)
    return {"list_option_combinations": len(T.list_options()), "map_option_combinations": len(T.map_options()),
            "sequence_embeddings": list(SEQ_VARIANTS), "declaration_orders": list(ORDERS),
            "grammars": len([x for x in shards(tier) if x[0] == "small"]),
            "max_nodes": t["size"], "max_depth": t["depth"], "max_width": t["width"],
            "max_nodes_on_core_grammars": t["big_size"] or None, "core_grammars": len(big) or None,
            "layouts_all_values": list(t["layouts"]), "layouts_values_up_to_nodes": [t["layout_size"], list(t["more_layouts"])],
            "final_delimiter_modes": ["none"] + [f"{a}/{b}" for a, b in t["fd"]],
            "atoms": list(T.ATOMS), "keys": list(T.KEYS),
            "any_token_except_family": {"construction_sequences": len(anyx_sequences()),
                                        "tokenizers": {k: list(v[1]) for k, v in ANYX_TOKENIZERS.items()},
                                        "share_modes": ["fresh"] + list(ANYX_SHARE) + ["template-instances"],
                                        "max_nodes": t["anyx_size"], "layouts": ["mixed", "tight"]}}


BIG_SLICES = 2


N_CROSSINGS = 6
ORDERS = ("top-down", "bottom-up")


def shards(tier):
    """("small"|"big", list options, map options, sequence embedding, declaration order[, slice])."""
    small, big = grammar_set(tier)
    if tier == "quick":
        # the sequence embedding is independent of the template options: 'direct' with every core
        # grammar, 'value' with the default pair and the crossings; every core grammar is also declared
        # bottom-up (leaves first, start symbol last)
        dflt = (T.L_DEFAULT.key(), T.M_DEFAULT.key())
        return ([("small", lk, mk, "direct", "top-down") for lk, mk in small] +
                [("small", lk, mk, "direct", "bottom-up") for lk, mk in small] +
                [("small", lk, mk, "value", "top-down") for lk, mk in [dflt] + small[-N_CROSSINGS:]] +
                # statements '%' SEQ ';' | '%' WORD SEQ '.': a sequence entered again after a roll-back
                [("stmt", dflt[0], dflt[1], sv, order) for sv in SEQ_VARIANTS for order in ORDERS] +
                [("stmt", lk, mk, "direct", "top-down") for lk, mk in small[-N_CROSSINGS:]] +
                [("anyx", list(tn), sh) for tn, sh in anyx_sequences()] +
                [("decl", v, o) for v in DECL_VARIANTS for o in ORDERS] +
                [("overlap", list(nm), o) for nm in OVERLAP_NAMES for o in ORDERS])
    # thorough: the full product with the sequence over the template symbols; the sequence over VALUE and
    # the bottom-up declaration order with the core (= quick) grammar set; values of big_size nodes on
    # the core set
    sh = [("small", lk, mk, "direct", "top-down") for lk, mk in small]
    sh += [("small", lk, mk, "value", "top-down") for lk, mk in big]
    sh += [("small", lk, mk, sv, "bottom-up") for lk, mk in big for sv in SEQ_VARIANTS]
    sh += [("big", lk, mk, "direct", "top-down", i) for lk, mk in big for i in range(BIG_SLICES)]
    dflt = (T.L_DEFAULT.key(), T.M_DEFAULT.key())
    sh += [("stmt", lk, mk, "direct", "top-down") for lk, mk in big]
    sh += [("stmt", dflt[0], dflt[1], sv, order) for sv in SEQ_VARIANTS for order in ORDERS
           if (sv, order) != ("direct", "top-down")]
    sh += [("stmtbig", lk, mk, "direct", "top-down") for lk, mk in [dflt] + big[-N_CROSSINGS:]]
    sh += [("anyx", list(tn), sh_mode) for tn, sh_mode in anyx_sequences()]
    sh += [("decl", v, o) for v in DECL_VARIANTS for o in ORDERS]
    sh += [("overlap", list(nm), o) for nm in OVERLAP_NAMES for o in ORDERS]
    return sh


# ------------------------------------------------------------------------------- real grammar
def build_parser(lopt, mopt, seqvar, order="top-down", stmts=False):
    ls = "LWRAP" if lopt.wrapped else "LIST"
    ms = "MWRAP" if mopt.wrapped else "MAP"
    key = "KEY" if mopt.key_nt else "WORD"
    val = key if mopt.val_same else "VALUE"        # val_same: MapProds('{', 'WORD', ':', 'WORD', ',', '}')
    item = "ROW" if lopt.item_seq else "ITEM"      # item_seq: the item symbol is itself a ProdSequence symbol

    extra = ["STMT"] if stmts else []

    def seq():
        return (impl.ProdSequence("VALUE") if seqvar == "value"
                else impl.ProdSequence("WORD", ls, ms, "SWRAP", *extra))

    prods = {
        "E": [("VALUE",)],
        "VALUE": [("WORD",), (ls,), (ms,), ("SWRAP",)] + [(x,) for x in extra],
    }
    if stmts:
        # two alternatives that start with different symbols (no common prefix to factorize): PLAIN is tried
        # first, swallows the name and all elements as one sequence, fails at '.', the parser rolls back and
        # NAMED enters the sequence again one token later
        prods["STMT"] = [("%", "PLAIN"), ("%", "NAMED")]
        prods["PLAIN"] = [("PSEQ", ";")]
        prods["NAMED"] = [("WORD", "PSEQ", ".")]
        prods["PSEQ"] = seq()
    # wrappers: the closing token reaches the (nullable) template symbol through two enclosing symbols, so
    # its FOLLOW set needs several propagation steps
    if lopt.wrapped:
        prods["LWRAP"] = [("<", "LIN", ">")]
        prods["LIN"] = [("LINB",)]
        prods["LINB"] = [("LIST",)]
    prods["LIST"] = impl.ListProds("[" if lopt.brackets else None, item, "," if lopt.delim else None,
                                   "]" if lopt.brackets else None,
                                   allow_final_delimiter=lopt.afd, optional=lopt.optional)
    if lopt.item_seq:
        prods["ROW"] = seq()
    else:
        prods["ITEM"] = [("VALUE",)] + ([None] if lopt.nullable else [])
    if mopt.wrapped:
        prods["MWRAP"] = [("(", "MIN", ")")]
        prods["MIN"] = [("MINB",)]
        prods["MINB"] = [("MAP",)]
    prods["MAP"] = impl.MapProds("{" if mopt.brackets else None, key, ":", val, ",",
                                 "}" if mopt.brackets else None,
                                 optional=mopt.optional, allow_final_delimiter=mopt.afd)
    if mopt.key_nt:
        prods["KEY"] = [("WORD",), ("NUMBER",)]
    prods["SWRAP"] = [("@", "SIN", ";")]
    prods["SIN"] = [("SINB",)]
    prods["SINB"] = [("SEQ",)]
    prods["SEQ"] = seq()
    if order == "bottom-up":
        # the same grammar declared leaves first, start symbol last
        prods = dict(reversed(list(prods.items())))
    return impl.LLParser(TOKENIZER, synonyms=dict(SYNONYMS), span_matchers=dict(SPAN), productions=prods)


_PARSERS = {}
_SPACES = {}


def _parser(lk, mk, sv, order, stmts=False):
    k = (tuple(lk), tuple(mk), sv, order, stmts)
    p = _PARSERS.get(k)
    if p is None:
        if len(_PARSERS) > 64:
            _PARSERS.clear()
        p = _PARSERS[k] = build_parser(_lopt(lk), _mopt(mk), sv, order, stmts)
    return p


def _space(lopt, mopt, depth, width, stmts=False):
    k = (lopt.nullable, lopt.item_seq, bool(lopt.afd_effective and lopt.delim), bool(lopt.optional),
         bool(mopt.optional), mopt.val_same, depth, width, stmts)
    s = _SPACES.get(k)
    if s is None:
        if len(_SPACES) >= 2:
            _SPACES.clear()             # the size-5 value lists are large; keep at most two spaces alive
        s = _SPACES[k] = T.DataSpace(lopt, mopt, depth, width, stmts)
    return s


def _opt_features(lopt, mopt, sv, order):
    f = ["order:" + order,"lopt:brackets" if lopt.brackets else "lopt:no-brackets",
         "lopt:delimiter" if lopt.delim else "lopt:no-delimiter",
         "lopt:afd-" + {None: "default", True: "true", False: "false"}[lopt.afd],
         "mopt:brackets" if mopt.brackets else "mopt:no-brackets",
         "mopt:afd-true" if mopt.afd else "mopt:afd-false",
         "seq:direct-symbols" if sv == "direct" else "seq:via-value"]
    if lopt.optional:
        f.append("lopt:optional")
    if lopt.optional is False:
        f.append("lopt:optional-false-explicit")
    if lopt.nullable:
        f.append("lopt:nullable-item")
    if mopt.optional:
        f.append("mopt:optional")
    if mopt.key_nt:
        f.append("mopt:key-nonterminal")
    if mopt.val_same:
        f.append("mopt:key-symbol-is-value-symbol")
    if lopt.item_seq:
        f.append("lopt:item-symbol-is-a-sequence")
    return f


# ------------------------------------------------------------------------------- AnyTokenExcept family
# GROUP -> '@' GSEQ ';'   GSEQ = ProdSequence('GROUP', 'LST', AnyTokenExcept('@', ';', '[', ']'))
# LST   = ListProds('[', 'LITEM', None, ']')   LITEM -> AnyTokenExcept('@', ';', '[', ']') | GROUP | LST
# under tokenizers with different terminal sets.  A "construction sequence" builds one or two parsers
# from pristine helper objects; in a two-parser sequence the AnyTokenExcept objects (which the library
# lets the user keep in a constant) are the very same objects for both parsers.  Oracle: every parser
# returns the denoted items, i.e. behaves as if built from fresh objects.
ANYX_TOKENIZERS = {
    # name: (extra token patterns, atoms of the data)
    "small": ("", ("a", "b")),
    "mid": (r"|(?P<NUMBER>[0-9]+)", ("a", "1")),
    "big": (r"|(?P<NUMBER>[0-9]+)|(?P<COMMA>,)|(?P<COLON>:)", ("a", "1", ",")),
}
ANYX_BASE = r"""
    (?P<SPACE>\s+)
    |(?P<COMMENT_EOL>//.*)
    |(?P<COMMENT_ML>/\*)
    |(?P<WORD>[a-z]+)
    |(?P<SEMI>;)
    |(?P<AT>@)
    |(?P<BO>\[)
    |(?P<BC>\])
"""
ANYX_SHARE = ("sequence-helper", "list-item-helper", "both-helpers")
ANYX_LOPT = T.LOpt(True, False, None, None, False)      # how T.render writes the family's lists: '[' items ']'


def _shape_sig(shape):
    if shape.kind == "container-not-converted":
        return {"sequence": "container-inside-sequence-not-converted",
                "row": "container-inside-row-of-a-list-not-converted"}.get(shape.in_seq, "container-not-converted")
    return shape.kind


def anyx_sequences():
    """[(tokenizer names, share mode)]: single parsers, every ordered pair of tokenizers with shared helper
    objects, and pairs that share the template *instances* themselves."""
    names = list(ANYX_TOKENIZERS)
    out = [((n,), "fresh") for n in names]
    out += [((a, b), sh) for a in names for b in names for sh in ANYX_SHARE]
    out += [((a, b), "template-instances") for a, b in (("small", "big"), ("big", "small"), ("mid", "mid"))]
    return out


class _AnyxObjects:
    """Pristine helper objects of one construction sequence."""

    def __init__(self):
        self.any_seq = impl.AnyTokenExcept("@", ";", "[", "]")
        self.any_item = impl.AnyTokenExcept("@", ";", "[", "]")
        self.seq_template = impl.ProdSequence("GROUP", "LST", self.any_seq)
        self.list_template = impl.ListProds("[", "LITEM", None, "]")


def anyx_build(tok_name, shared, share_mode):
    """One parser; ``shared`` = the sequence's _AnyxObjects, used according to the share mode."""
    fresh = _AnyxObjects()
    any_seq = shared.any_seq if share_mode in ("sequence-helper", "both-helpers") else fresh.any_seq
    any_item = shared.any_item if share_mode in ("list-item-helper", "both-helpers") else fresh.any_item
    if share_mode == "template-instances":
        seq_t, list_t = shared.seq_template, shared.list_template
    else:
        seq_t, list_t = impl.ProdSequence("GROUP", "LST", any_seq), fresh.list_template
    extra, _ = ANYX_TOKENIZERS[tok_name]
    syn = {k: v for k, v in SYNONYMS.items() if k in ("SEMI", "AT", "BO", "BC", "COMMENT_EOL", "COMMENT_ML")}
    if "COMMA" in extra:
        syn.update({"COMMA": ",", "COLON": ":"})
    return impl.LLParser(ANYX_BASE + extra, synonyms=syn, span_matchers=dict(SPAN), productions={
        "E": [("VALUE",)],
        "VALUE": [("GROUP",), ("LST",)],
        "GROUP": [("@", "GSEQ", ";")],
        "GSEQ": seq_t,
        "LST": list_t,
        "LITEM": [any_item, ("GROUP",), ("LST",)],
    })


def anyx_construct(tok_names, share_mode):
    """-> [parser or exception] in construction order, from pristine objects."""
    shared = _AnyxObjects()
    out = []
    for tn in tok_names:
        try:
            out.append(anyx_build(tn, shared, share_mode))
        except Exception as e:  # noqa
            out.append(e)
    return out


def anyx_judge(parser, data, layout_name, acc):
    """-> None or (sig, msg, obs, exp)"""
    text = T.layout(T.render(data, ANYX_LOPT, T.M_DEFAULT).tokens, layout_name)
    exp = T.expected(data)
    acc.trans()
    try:
        root = parser.parse(text)
    except impl.Error as e:
        return ("valid-text-rejected", f"text denoting the data was rejected with {type(e).__name__}", text, repr(exp))
    except Exception as e:  # noqa
        return ("exception:" + type(e).__name__, f"parse raised {type(e).__name__}: {str(e)[:160]}", text, repr(exp))
    try:
        got = T.normalise(root)
    except T.Shape as sh:
        sig = _shape_sig(sh)
        return (sig, "the cleaned tree still contains " + sh.kind.replace("-", " ")
                + (f" inside a {sh.in_seq} element" if sh.in_seq else ""), sh.detail, repr(exp))
    d = T.diff(exp, got)
    if d is not None:
        return (d, "cleaned value differs from the data the text denotes", repr(got), repr(exp))
    return None


def _anyx_kind(data, feats):
    # does the value put a token matched through AnyTokenExcept into a sequence / into a list item position?
    if isinstance(data, list):
        for c in data[1:]:
            if isinstance(c, str):
                feats.add("anyexcept:token-in-sequence" if data[0] == "S" else "anyexcept:token-as-list-item")
                if c in ("1", ","):
                    feats.add("anyexcept:token-unknown-to-the-smaller-tokenizer")
            else:
                _anyx_kind(c, feats)


def anyx_case(tok_names, share_mode, idx, data, layout_name, acc, parsers=None):
    """Judge parser #idx of the construction sequence on one value.  -> violation (sig, case, msg, obs, exp)"""
    if parsers is None:
        parsers = anyx_construct(tok_names, share_mode)
    case = {"family": "anyx", "tokenizers": list(tok_names), "share": share_mode, "judge": idx, "data": data,
            "layout": layout_name}
    v = anyx_judge(parsers[idx], data, layout_name, acc)
    if v is None:
        return None
    sig, msg, obs, exp = v
    if len(tok_names) > 1:
        # the same parser built from fresh objects only: does it show the same deviation?
        alone = anyx_construct((tok_names[idx],), "fresh")[0]
        va = None if isinstance(alone, Exception) else anyx_judge(alone, data, layout_name, acc)
        if va is None or va[0] != sig:
            which = "second" if idx == 1 else "first"
            return ("C05:shared-helper-object:%s-parser-differs" % which, case,
                    f"parser #{idx + 1} of {list(tok_names)} built with {share_mode.replace('-', ' ')} shared: [{sig}] {msg}",
                    obs, exp)
    return ("C05:" + sig, case, msg, obs, exp)


def run_anyx_shard(shard, tier, acc):
    _, tok_names, share_mode = shard
    t = _TIERS[tier]
    parsers = anyx_construct(tok_names, share_mode)
    ofeats = ["family:any-token-except", "anyexcept:single-parser" if len(tok_names) == 1 else "shared:" + share_mode]
    if len(tok_names) == 2:
        if share_mode != "template-instances":
            ofeats.append("shared-template-object:two-parsers")
        sizes = [len(ANYX_TOKENIZERS[n][1]) + (n == "mid") * 0.5 for n in tok_names]
        order = {"small": 0, "mid": 1, "big": 2}
        a, b = order[tok_names[0]], order[tok_names[1]]
        ofeats.append("shared:first-parser-has-the-smaller-token-set" if a < b else
                      "shared:first-parser-has-the-larger-token-set" if a > b else "shared:same-token-set")
    for idx, parser in enumerate(parsers):
        case0 = {"family": "anyx", "tokenizers": list(tok_names), "share": share_mode, "judge": idx, "data": "a",
                 "layout": "tight"}
        if isinstance(parser, Exception):
            if share_mode == "template-instances" and idx > 0:
                # a ListProds / ProdSequence instance given to a second parser is refused loudly at
                # construction: no items are returned at all, nothing for this property to judge
                acc.case(features=ofeats + ["shared-template-instance:refused-at-construction"],
                         outcome="template-instance-refused:" + type(parser).__name__)
                continue
            alone = anyx_construct((tok_names[idx],), "fresh")[0]
            acc.case(features=ofeats, outcome="construction:" + type(parser).__name__)
            if not isinstance(alone, Exception):
                acc.violation("C05:shared-helper-object:construction-fails", case0,
                              f"parser #{idx + 1} of {list(tok_names)} with {share_mode.replace('-', ' ')} shared cannot "
                              f"be constructed: {type(parser).__name__}: {str(parser)[-200:]}", type(parser).__name__,
                              "a parser, as with fresh helper objects")
            continue
        atoms = ANYX_TOKENIZERS[tok_names[idx]][1]
        n = 0
        for data in T.simple_values(atoms, t["anyx_size"]):
            if isinstance(data, str):
                continue                # the family's start symbol is a group or a list
            dfeats = set()
            T.features_of(data, dfeats)
            _anyx_kind(data, dfeats)
            for lay in ("mixed", "tight"):
                v = anyx_case(tok_names, share_mode, idx, data, lay, acc, parsers)
                acc.case(nontrivial=(len(tok_names) > 1 or T.depth_of(data) >= 2),
                         features=list(dfeats) + ofeats + ["layout:" + lay, "anyx:judged-parser-%d" % (idx + 1)],
                         outcome="ok:" + T._kind(T.expected(data)) if v is None else v[0])
                if v is not None:
                    acc.violation(*v)
            n += 1
            if n % 300 == 0:
                acc.sample({"family": "anyx", "tokenizers": list(tok_names), "share": share_mode, "judge": idx,
                            "data": data})
                if acc.expired():
                    return



# ------------------------------------------------------------------------------- repeated optional symbol
# DECL -> WORD X ':' WORD X Y ';'  with X used TWICE in one production, every occurrence present / absent:
#   variant "list":  X = ListProds('[', 'WORD', ',', ']', optional=True), Y = optional MapProds
#   variant "map":   X = MapProds('{', 'WORD', ':', 'WORD', ',', '}', optional=True), Y = optional ListProds
#   variant "bare":  X = ListProds(None, 'NUMBER', ',', None) (bracket-less, i.e. nullable), Y = optional MapProds
# The later occurrence, when absent, is followed by a token that cannot follow the first one.
DECL_VARIANTS = ("list", "map", "bare")
DECL_LISTS = (None, [], ["a"], ["a", "b"])
DECL_MAPS = (None, {}, {"a": "b"}, {"a": "b", "b": "a"})
DECL_BARE = ([], ["1"], ["1", "2"])


def decl_parser(variant, order):
    lst = lambda: impl.ListProds("[", "WORD", ",", "]", optional=True)
    mp = lambda: impl.MapProds("{", "WORD", ":", "WORD", ",", "}", optional=True)
    if variant == "list":
        x, y = lst(), mp()
    elif variant == "map":
        x, y = mp(), lst()
    else:
        x, y = impl.ListProds(None, "NUMBER", ",", None), mp()
    prods = {"E": [("DECL",)], "DECL": [("WORD", "X", ":", "WORD", "X", "Y", ";")], "X": x, "Y": y}
    if order == "bottom-up":
        prods = dict(reversed(list(prods.items())))
    return impl.LLParser(TOKENIZER, synonyms=dict(SYNONYMS), span_matchers=dict(SPAN), productions=prods)


def _decl_tokens(v):
    if v is None:
        return []
    if isinstance(v, dict):
        out = ["{"]
        for i, (k, val) in enumerate(v.items()):
            out += ([","] if i else []) + [k, ":", val]
        return out + ["}"]
    return v


def decl_values(variant):
    xs = DECL_BARE if variant == "bare" else (DECL_MAPS if variant == "map" else DECL_LISTS)
    ys = DECL_LISTS if variant == "map" else DECL_MAPS
    return [[a, b, c] for a in xs for b in xs for c in ys]


def decl_judge(parser, variant, data, layout_name, acc):
    """-> None or (sig, msg, obs, exp)"""
    def toks(v):
        if variant == "bare" and isinstance(v, list):
            return [t for i, x in enumerate(v) for t in ([","] if i else []) + [x]]
        if isinstance(v, list):
            return ["["] + [t for i, x in enumerate(v) for t in ([","] if i else []) + [x]] + ["]"]
        return _decl_tokens(v)
    x1, x2, y = data
    text = T.layout(["a"] + toks(x1) + [":", "b"] + toks(x2) + toks(y) + [";"], layout_name)
    acc.trans()
    try:
        root = parser.parse(text)
    except impl.Error as e:
        return ("valid-text-rejected", f"text denoting the data was rejected with {type(e).__name__}", text, repr(data))
    except Exception as e:  # noqa
        return ("exception:" + type(e).__name__, f"parse raised {type(e).__name__}: {str(e)[:160]}", text, repr(data))
    node = root
    while isinstance(node.value, list) and len(node.value) == 1 and T._is_telem(node.value[0]):
        node = node.value[0]
    kids = node.value if isinstance(node.value, list) else []
    if len(kids) != 7:
        return ("unexpected-node", "the declaration node does not have its seven children", repr(root)[:200], repr(data))
    try:
        got = [T.normalise(kids[i]) for i in (1, 4, 5)]
    except T.Shape as sh:
        return (_shape_sig(sh), "the cleaned tree still contains " + sh.kind.replace("-", " "), sh.detail, repr(data))
    if got != data:
        for g, d in zip(got, data):
            if g != d:
                lab = "none-became-%s" % T._kind(g) if d is None else T.diff(d, g)
                return (lab, "a container of the declaration differs from the data the text denotes", repr(got), repr(data))
    return None


def run_decl_shard(shard, tier, acc):
    _, variant, order = shard
    parser = decl_parser(variant, order)
    for data in decl_values(variant):
        absent = lambda v: v is None or (variant == "bare" and v == [])
        feats = ["family:repeated-optional-symbol", "repeated-optional:" + variant + "-symbol", "order:" + order,
                 "repeated-optional:first-%s-second-%s" % ("absent" if absent(data[0]) else "present",
                                                           "absent" if absent(data[1]) else "present"),
                 "repeated-optional:following-container-" + ("absent" if data[2] is None else "present")]
        for lay in ("mixed", "tight", "exotic"):
            v = decl_judge(parser, variant, data, lay, acc)
            acc.case(nontrivial=True, features=feats + ["layout:" + lay],
                     outcome="ok:declaration" if v is None else v[0])
            if v is not None:
                sig, msg, obs, exp = v
                acc.violation("C05:" + sig, {"family": "decl", "variant": variant, "order": order, "data": data,
                                             "layout": lay}, msg, obs, exp)
    acc.sample({"family": "decl", "variant": variant, "order": order, "data": decl_values(variant)[7]})


# ------------------------------------------------------------------------------- overlapping alternatives
# E -> '@' SEQ ';'   SEQ = ProdSequence(LONG, SHORT)   LONG -> SHORT ':' SHORT   (SHORT -> WORD, or WORD itself)
# Both alternatives can start with the same token; the declared order (longer first) is the priority.  The
# symbol names are chosen so that their alphabetical order agrees / disagrees with the declared order.
OVERLAP_NAMES = (("PAIR", "NAME"), ("ASSIGN", "WORDX"), ("XPAIR", "WORD"), ("PAIR", "WORD"))
OVERLAP_ELEMS = (["a"], ["b"], ["a", ":", "b"], ["b", ":", "a"])


def overlap_parser(names, order):
    long_s, short_s = names
    prods = {"E": [("@", "SEQ", ";")], "SEQ": impl.ProdSequence(long_s, short_s),
             long_s: [(short_s, ":", short_s)]}
    if short_s != "WORD":
        prods[short_s] = [("WORD",)]
    if order == "bottom-up":
        prods = dict(reversed(list(prods.items())))
    return impl.LLParser(TOKENIZER, synonyms=dict(SYNONYMS), span_matchers=dict(SPAN), productions=prods)


def _leaves(x, out):
    if T._is_telem(x):
        _leaves(x.value, out)
    elif isinstance(x, list):
        for i in x:
            _leaves(i, out)
    elif isinstance(x, str):
        out.append(x)
    return out


def overlap_judge(parser, data, layout_name, acc):
    text = T.layout(["@"] + [t for e in data for t in e] + [";"], layout_name)
    acc.trans()
    try:
        root = parser.parse(text)
    except impl.Error as e:
        return ("valid-text-rejected", f"text denoting the data was rejected with {type(e).__name__}", text, repr(data))
    except Exception as e:  # noqa
        return ("exception:" + type(e).__name__, f"parse raised {type(e).__name__}: {str(e)[:160]}", text, repr(data))
    seq = root.get("SEQ") if hasattr(root, "get") else None
    if seq is None or not isinstance(seq.value, list):
        return ("sequence-not-a-list-of-elements", "no sequence value in the result", repr(root)[:200], repr(data))
    got = [_leaves(e, []) for e in seq.value]
    if got != data:
        lab = "sequence-elements-split-differently" if sum(got, []) == sum(data, []) else T.diff(tuple(map(tuple, data)), tuple(map(tuple, got)))
        return (lab, "the sequence does not consist of the denoted elements", repr(got), repr(data))
    return None


def run_overlap_shard(shard, tier, acc):
    _, names, order = shard
    parser = overlap_parser(names, order)
    feats = ["family:sequence-with-overlapping-alternatives", "order:" + order,
             "overlap:short-alternative-is-a-" + ("terminal" if names[1] == "WORD" else "non-terminal"),
             "overlap:declared-order-" + ("is" if list(names) == sorted(names) else "is-not") + "-alphabetical"]
    import itertools
    for n in range(0, 4):
        for data in itertools.product(OVERLAP_ELEMS, repeat=n):
            data = [list(e) for e in data]
            f = list(feats)
            if any(len(e) == 3 for e in data):
                f.append("overlap:long-alternative-matched")
            if any(len(e) == 1 for e in data):
                f.append("overlap:short-alternative-matched")
            for lay in ("mixed", "tight"):
                v = overlap_judge(parser, data, lay, acc)
                acc.case(nontrivial=any(len(e) == 3 for e in data), features=f + ["layout:" + lay],
                         outcome="ok:overlap-sequence" if v is None else v[0])
                if v is not None:
                    acc.violation("C05:" + v[0], {"family": "overlap", "names": list(names), "order": order,
                                                  "data": data, "layout": lay}, v[1], v[2], v[3])
    acc.sample({"family": "overlap", "names": list(names), "order": order, "data": [["a", ":", "b"], ["b"]]})


# ------------------------------------------------------------------------------- one case
def judge(parser, lopt, mopt, data, layout_name, fd_mode, acc):
    """-> (outcome, features, violation or None); violation = (sig, msg, obs, exp)."""
    r = T.render(data, lopt, mopt, fd_mode)
    if fd_mode != "none" and not (r.fd_used and T.render(data, lopt, mopt).tokens != r.tokens):
        return None                      # same text as mode 'none'
    text = T.layout(r.tokens, layout_name)
    feats = ["layout:" + layout_name]
    feats.extend(T.layout_features(len(r.tokens), layout_name))
    exp = T.expected(data)
    fd_at = T.FD_MODES[fd_mode]
    acc.trans()
    err = None
    root = None
    try:
        root = parser.parse(text)
    except impl.Error:
        err = "ParsingError"            # any error of the parser's own hierarchy counts as a rejection
    except Exception as e:  # noqa
        return ("exception", feats, ("C05:exception:" + type(e).__name__,
                                     f"parse raised {type(e).__name__}: {str(e)[:200]}", text, exp))
    if r.fd_forbidden:
        feats.append("fd:forbidden")
        if err is None:
            return ("fd-accepted", feats, ("C05:final-delimiter-accepted-when-not-allowed",
                                           "a final delimiter the options do not allow was accepted",
                                           text, "ParsingError"))
        return ("rejected-as-required", feats, None)
    # the readings of the text the statement leaves open (ASSUMPTIONS): [(label, first_wins -> value)]
    plain = ("", {})
    omitted = (":fd-read-as-omitted-item", {"tail": (lopt, fd_at)})
    may_reject = False
    if r.fd_rows:
        # a delimiter after the last row: final delimiter (adds nothing) or delimiter + empty row
        feats.append("fd:after-last-row")
        readings = [plain, omitted] if lopt.afd_effective else [omitted]
        may_reject = not lopt.afd_effective
    elif r.fd_ambiguous:
        feats.append("fd:nullable-not-allowed")
        readings = [omitted]
        may_reject = True
    else:
        readings = [plain]
        if r.fd_used:
            feats.append("fd:allowed")
    if r.empty_rowlist:
        # a bracket-less list of rows without any token: no row, or one empty row
        feats.append("list:bracket-less-row-list-without-tokens")
        readings = readings + [(lab + ":empty-text-read-as-one-empty-row", dict(kw, empty_rows=lopt))
                               for lab, kw in readings]
    if r.fd_mandatory:
        feats.append("list:omitted-last-item")
    if err is not None:
        if may_reject:
            return ("rejected(delimiter-after-last-item-not-allowed)", feats, None)
        return ("rejected", feats, ("C05:valid-text-rejected", "text denoting the data was rejected with "
                                    "ParsingError", text, exp))
    try:
        got = T.normalise(root, rows=lopt.item_seq)
    except T.Shape as s:
        sig = _shape_sig(s)
        return (sig, feats, ("C05:" + sig, "the cleaned tree still contains " + s.kind.replace("-", " ")
                             + (f" inside a {s.in_seq} element" if s.in_seq else ""), s.detail, exp))
    label = None
    for lab, kw in readings:
        if T.diff(T.expected(data, **kw), got) is None:
            label = lab
            break
    if label is None:
        want = T.expected(data, **readings[0][1])
        d = T.diff(want, got)
        if r.fd_used and not r.fd_ambiguous and not r.fd_rows and \
                T.diff(T.expected(data, tail=(T.LOpt(True, True, False, None, True), fd_at)), got) is None:
            d = "final-delimiter-adds-element"
        else:
            for lab, kw in readings:
                fw = T.expected(data, first_wins=True, **kw)
                if fw != T.expected(data, **kw) and T.diff(fw, got) is None:
                    d = "map-repeated-key-keeps-first-value"
        return (d, feats, ("C05:" + d, "cleaned value differs from the data the text denotes", repr(got), repr(want)))
    ko = T.key_order_violation(data, got)
    if ko is not None:
        return ("map-key-order", feats, ("C05:map-key-order", "map keys are not in source order", ko[0], ko[1]))
    kind = T._kind(got)
    return ("ok:" + kind + (":fd" if r.fd_used else "") + label, feats, None)


def _nontrivial(data, dfeats, fd_used):
    return bool(fd_used or T.depth_of(data) >= 2 or
                dfeats & {"list:omitted-item", "map:repeated-key", "list:absent-optional", "map:absent-optional"})


def _size(v):
    if v is None or isinstance(v, str) or v[0] in ("AL", "AM"):
        return 1
    return 1 + sum(_size(x[1]) if v[0] == "M" else _size(x) for x in v[1:])


def run_data(parser, lk, mk, sv, order, lopt, mopt, ofeats, data, tier, acc, big=False, stmts=False):
    t = _TIERS[tier]
    dfeats = set()
    T.features_of(data, dfeats)
    plans = [("none", lay) for lay in t["layouts"]]
    if order == "bottom-up":
        # same grammar, other declaration order: the texts must parse to the same data
        plans = [("none", lay) for lay in t["bottom_up_layouts"]]
    elif big:
        plans += list(t["big_fd"])
    else:
        if _size(data) <= t["layout_size"]:
            plans += [("none", lay) for lay in t["more_layouts"]]
        plans += list(t["fd"])
    for fd_mode, lay in plans:
        res = judge(parser, lopt, mopt, data, lay, fd_mode, acc)
        if res is None:
            continue
        outcome, feats, viol = res
        acc.case(nontrivial=_nontrivial(data, dfeats, fd_mode != "none"),
                 features=list(dfeats) + ofeats + feats, outcome=outcome)
        if viol is not None:
            sig, msg, obs, exp = viol
            case = {"lopt": lk, "mopt": mk, "seq": sv, "order": order, "data": data, "layout": lay, "fd": fd_mode}
            if stmts:
                case["stmts"] = True
            acc.violation(sig, case, msg, obs, exp)


def run_shard(shard, tier, seed, acc):
    t = _TIERS[tier]
    if shard[0] == "anyx":
        run_anyx_shard(shard, tier, acc)
        return
    if shard[0] == "decl":
        run_decl_shard(shard, tier, acc)
        return
    if shard[0] == "overlap":
        run_overlap_shard(shard, tier, acc)
        return
    kind, lk, mk, sv, order = shard[:5]
    lopt, mopt = _lopt(lk), _mopt(mk)
    stmts = kind in ("stmt", "stmtbig")
    try:
        parser = _parser(lk, mk, sv, order, stmts)
    except Exception as e:  # noqa
        acc.case(features=["grammar-construction-failed"], outcome="construction:" + type(e).__name__)
        acc.violation("C05:valid-options-rejected:" + type(e).__name__,
                      {"lopt": lk, "mopt": mk, "seq": sv, "order": order, "data": "a", "layout": "tight", "fd": "none"},
                      f"LLParser construction failed for an accepted option combination: {str(e)[-300:]}",
                      type(e).__name__, "a parser")
        return
    ofeats = _opt_features(lopt, mopt, sv, order) + (["family:statements"] if stmts else [])
    space = _space(lopt, mopt, t["depth"], t["width"], stmts)
    if kind == "small":
        it = space.upto(t["size"])
    elif kind == "stmt":
        it = space.upto(t["stmt_size"])
    elif kind == "stmtbig":
        it = space.values(t["stmt_big_size"], t["depth"])
    else:
        vals = space.values(t["big_size"], t["depth"])
        it = (v for i, v in enumerate(vals) if i % BIG_SLICES == shard[5])
    n = 0
    for data in it:
        run_data(parser, lk, mk, sv, order, lopt, mopt, ofeats, data, tier, acc,
                 big=(kind in ("big", "stmtbig")), stmts=stmts)
        n += 1
        if n % 128 == 0:
            if acc.expired():
                return
            if n % 1024 == 0:
                acc.sample({"lopt": lk, "mopt": mk, "seq": sv, "order": order, "data": data,
                            "text": T.layout(T.render(data, lopt, mopt).tokens, "exotic" if n % 2048 else "mixed")})


def replay(case, acc):
    if case.get("family") == "overlap":
        acc.case()
        v = overlap_judge(overlap_parser(case["names"], case["order"]), case["data"], case["layout"], acc)
        if v is not None:
            acc.violation("C05:" + v[0], case, v[1], v[2], v[3])
        return
    if case.get("family") == "decl":
        acc.case()
        v = decl_judge(decl_parser(case["variant"], case["order"]), case["variant"], case["data"], case["layout"], acc)
        if v is not None:
            acc.violation("C05:" + v[0], case, v[1], v[2], v[3])
        return
    if case.get("family") == "anyx":
        acc.case()
        parsers = anyx_construct(case["tokenizers"], case["share"])
        p = parsers[case["judge"]]
        if isinstance(p, Exception):
            alone = anyx_construct((case["tokenizers"][case["judge"]],), "fresh")[0]
            if not isinstance(alone, Exception) and not (case["share"] == "template-instances" and case["judge"] > 0):
                acc.violation("C05:shared-helper-object:construction-fails", case, "parser cannot be constructed",
                              type(p).__name__, "a parser, as with fresh helper objects")
            return
        v = anyx_case(case["tokenizers"], case["share"], case["judge"], case["data"], case["layout"], acc, parsers)
        if v is not None:
            acc.violation(*v)
        return
    lk, mk, sv = case["lopt"], case["mopt"], case["seq"]
    lopt, mopt = _lopt(lk), _mopt(mk)
    parser = build_parser(lopt, mopt, sv, case.get("order", "top-down"), bool(case.get("stmts")))
    res = judge(parser, lopt, mopt, case["data"], case["layout"], case["fd"], acc)
    acc.case()
    if res is not None and res[2] is not None:
        sig, msg, obs, exp = res[2]
        acc.violation(sig, case, msg, obs, exp)
