"""C12 — tables are rectangular, aligned, width-bounded and account for every record (DESIGN.md §2 C12).

Every table of six product families is built with the real ``PPTable`` (records as tuples, ``fields=``,
a ``fmt`` string for columns / widths / break-by / modifiers, ``limits=`` or the fmt's limits section,
``header=``, ``footer=``, ``fields_titles=``, ``fields_types=`` with a fresh ``PPEnumFieldType``),
printed without colors as a whole and line by line (fresh table object; lines rendered when yielded and
again after the iterator is exhausted), and read back with the
structural reader ``models/table_reader.py`` (column positions from the '+' marks only).

  F1 one column      : record sequences over the value alphabet x every width spec (min,max in {0,1,2,3,4,10},
                       min <= max, fixed and ranged, and unspecified) x title lengths
  F2 two / three col : record sequences over value tuples x width spec tuples x column selections
                       (in order, swapped, the same field twice, one column removed through skip_columns)
  F3 limits x breaks : all sequences of break-by key values up to the record bound x break-by column
                       configurations (none / one / two / not first) x all limits of the limit alphabet
                       (via ``limits=`` and via the fmt) x width configurations (default, 0-1, 0, fixed)
  F4 enum            : enum column in every modifier (none, full, val, name) x known / unknown / long unknown /
                       None values x width specs x column arrangements (alone, with id, twice, break-by) x limits
  F5 header / footer : header and footer absent, short, longer than the table, containing border characters x
                       single / multi-line titles of different line counts, non-string title items x widths
  F6 bigger          : 4..N records under limits with break lines and an enum column together
  F7 two iterators   : all ordered pairs of a set of small tables with service lines (and one table object twice);
                       the first line iterator is advanced k lines (every k), then the second is started and
                       exhausted, then the first is finished; also strictly alternating. Each table is judged alone.

  F11 typed widths   : width limits given only through the field type (``fields_types={f: FieldType(min_width=a,
                       max_width=b)}``, no width in the fmt) incl. 0-0, 0-1, 0-3, 0-999: the printed width must lie
                       within the type's limits (FieldType(max_width=0) alone has min 1 > max 0: outside the domain)
  F10 equal values   : all sequences of 1..3 values of {1, True, 1.0, 0, False, 0.0, 2, 2.0} in one column, all pairs in
                       two columns, and all two-table sequences (second table printed after the first, no reset):
                       a cell shows str() of ITS value
  colored pass        : F5 and F10 tables and the strictly alternating pairs of F7 are also printed with the default
                       colored palette, all line objects collected first and rendered afterwards; the visible text
                       must satisfy the same oracle
  (state)             : before every case the mutable module/class-level state of ak.ppobj is restored to its
                       import-time snapshot (reset_world), so that no case depends on earlier tables and every
                       violation replays from a fresh process
  F8 print / grow    : a table is printed, records are appended to the caller's list (shorter, longer, None values,
                       enough to make limits apply), the table is printed again: each complete printing is judged
                       against the records it started with (after the first printing the widths are settled, so a
                       longer value may be cut with dots even below the configured maximum)
  F9 shared format   : ``t2 = PPTable(records2, fmt_obj=t1.fmt, limits=.., skip_columns=..)`` (+ ``t2.remove_columns``),
                       the pattern of ak/mcaller_sql.py: t1 before / after / suspended in the middle of its line
                       iteration while t2 is built and printed must satisfy the oracle for ITS columns and limits,
                       t2 for its own

Oracle (from the statement): one width for all lines; borders identical; '|' under every '+' in title and
record rows; every column width inside [min, max]; every title / record cell is the expected text padded
with blanks, or - only when the text is longer than the cell and the column already has its maximum
width - a prefix of it followed by dots; body = records in order with a blank line exactly where the
break-by values change; under limits (n, m) with more than n+m+1 body lines exactly the first n lines, one
"skipped" line, the last m lines, and announced number + records shown = total (the announced number is
compared only when the line shows it in full); header and footer padded / truncated the same way.
"""

import itertools

from ak.color import CHText
from ak.ppobj import PPTable, PPEnumFieldType, FieldType
from models import table_reader as tr

import weakref

import ak.ppobj as _ppobj


def _snapshot_module_state(mod):
    """Every mutable container reachable as: module global / attribute of a class defined in the module /
    attribute of an instance of such a class that hangs on the module or on one of its classes (singletons such
    as ReprStructure._DFLT_FIELD_TYPE).  -> list of (container, pristine copy), list of (instance, pristine keys)."""
    containers, instances, seen = [], [], set()
    kinds = (dict, list, set, weakref.WeakKeyDictionary, weakref.WeakValueDictionary)

    def note(value):
        if id(value) in seen:
            return
        if isinstance(value, kinds):
            seen.add(id(value))
            containers.append((value, value.copy()))
        elif isinstance(value, type):
            if getattr(value, "__module__", None) == mod.__name__:
                seen.add(id(value))
                for v in list(vars(value).values()):
                    note(v)
        elif type(value).__module__ == mod.__name__:
            seen.add(id(value))
            d = getattr(value, "__dict__", None)
            if d is not None:
                instances.append((value, set(d)))
                for v in list(d.values()):
                    note(v)
            for name in getattr(type(value), "__slots__", ()):
                if hasattr(value, name):
                    note(getattr(value, name))
    for v in list(vars(mod).values()):
        note(v)
    return containers, instances


_PRISTINE = _snapshot_module_state(_ppobj)


def reset_world():
    """Put the module-level / class-level mutable state of ak.ppobj back to what it was at import, so that a case
    never depends on the tables printed before it in the same process (and replays from a fresh process)."""
    containers, instances = _PRISTINE
    for obj, keys in instances:
        for name in [n for n in vars(obj) if n not in keys]:
            delattr(obj, name)
    for live, pristine in containers:
        if isinstance(live, list):
            if live != pristine:
                live[:] = pristine
        elif len(live) != len(pristine) or isinstance(live, set) or live != pristine:
            live.clear()
            live.update(pristine)


ID = "C12"
TITLE = "Tables are rectangular, aligned, width-bounded and account for every record"
TECHNIQUE = "bounded exhaustive enumeration of tables (records x widths x limits x break-by x enum x header) against a structural table reader"
DESIGN_REF = "§2 C12"
LEVEL_TEXT = ("Every table of the six product families (all record sequences up to the bound over the value alphabet, "
              "all width specs incl. 0 and min=max, all limits of the limit alphabet, break-by on 0-2 columns, enum "
              "columns in every modifier, headers/footers longer than the table, multi-line titles) is printed by the "
              "real PPTable twice (whole, by line) and every character of the result is accounted for by an "
              "independent structural reader and an expected-cell-text model.")
LEVEL_NOTE = ("Small-scope: <= 3 columns, <= 7 records, widths <= 12 unless unspecified, one enum definition per table; "
              "enums with a MISSING entry, custom field types, value paths into nested records and colored output "
              "are not covered (C10/C13 cover colors and the format life-cycle). Trusted: the reader and the "
              "expected-text model in this file.")
RULE = ("case = one table description (F7: two descriptions and a schedule of their line iterators) (fields, records, columns with widths/break-by/modifier, limits, header, footer, "
        "titles, enum); distinct by construction of the product families. Non-trivial: at least one of: a truncated "
        "cell, a zero-width column, a break line, applied limits, an enum column, a header/footer longer than the table, "
        "a multi-line title (all derived from the case by the reference model).")
ASSUMPTIONS = [
    "at least one column (a table without columns has nothing to align)",
    "min <= max, widths and limits non-negative; None limits mean 'no limit'",
    "values, titles, header, footer contain no line breaks or control characters",
    "the expected text of a plain cell is str(value); of an enum cell: value / name / 'value name' as documented by "
    "PPEnumFieldType (value optionally right-aligned to the longest declared value), 'None' for a None value, "
    "'<???>' as the name of an undeclared value",
    "padding may be on either side (alignment is not part of the statement); a truncated cell needs at least one dot",
    "'if too long' is read against the configured maximum: a cell may be truncated only in a column that has its "
    "maximum width (title and visible record cells)",
    "break lines are blank lines inserted exactly where the tuple of break-by values differs between consecutive "
    "records (documented in ReprColumn/PPTableFormat); limits count body lines including break lines",
    "when the body has exactly n+m+1 lines both 'show all' and 'skip one' satisfy the statement; both are accepted",
    "the default footer ('Total N records') is checked for width only",
    "mutating the records list while a printing of the same table is unfinished (a suspended line iterator) is "
    "caller misuse and outside the quantifier ('for all record sets'); only complete printings before and after "
    "a mutation are judged (family F8)",
    "a table printed again after its records list grew keeps the widths settled by the first printing: there a "
    "cell may be truncated whenever its text is longer than the column (the literal reading of the statement)",
    "operations on a table built from another table's format object are configuration of that second table "
    "only; that the first table's text stays byte-identical is not demanded (only that it still satisfies "
    "the oracle for its own description), a change is counted as obs:shared-fmt:first-table-text-changed",
    "the Python type of a yielded line is not part of the property: a line that is a raw list of chunks is "
    "rendered with CHText(line) and counted as obs:line-is-raw-chunk-list",
]
# every required feature is derived from the case by the reference model, never from the output of the
# implementation (so a broken implementation cannot make the run look vacuous); what was *observed* in the
# parsed output is counted under "obs:..." and is informational
REQUIRED_FEATURES = [
    "cols:1", "cols:2", "cols:3", "cols:same-field-twice", "cols:removed-by-skip_columns", "records:0", "records:5+",
    "width:zero", "width:min=max", "width:ranged", "width:unspecified", "width:from-field-type",
    "width:field-type-min-zero", "width:field-type-max-zero",
    "cell:longer-than-max", "cell:longer-than-max<3", "cell:shorter-than-min", "value:border-chars", "value:empty",
    "value:none", "value:number", "title:longer-than-max",
    "break-by:one", "break-by:two", "body:break-line", "limits:none", "limits:must-apply", "limits:fit",
    "limits:n+m+1", "limits:zero-zero", "limits:via-fmt", "limits:break-line-in-shown-part",
    "skipped:number-must-fit", "skipped:number-cannot-fit",
    "enum:full", "enum:val", "enum:name", "enum:default-modifier", "enum:unknown-value", "enum:none-value",
    "enum:longer-than-max", "header:longer-than-table", "header:fits", "footer:longer-than-table", "footer:fits",
    "footer:default", "titles:multi-line", "titles:uneven-line-counts",
    "interleave:one-preemption", "interleave:zip", "interleave:same-table-object",
    "interleave:second-started-while-first-suspended",
    "colored:kept-lines-pass", "colored:interleaved-zip", "value:equal-values-of-different-types",
    "sequence:tables-in-one-process", "sequence:equal-values-of-other-type-in-second-table",
    "reprint:records-appended", "reprint:longer-value-appended", "reprint:limits-start-to-apply",
    "shared-fmt:second-table-from-fmt_obj", "shared-fmt:limits-on-second", "shared-fmt:skip_columns-on-second",
    "shared-fmt:remove_columns-on-second", "shared-fmt:first-mid-iteration", "shared-fmt:first-printed-before",
    "shared-fmt:first-not-printed-before",
]

BREAK, SKIP = "break", "skip"
DEFAULT_MIN, DEFAULT_MAX = 1, 999          # FieldType(min_width=1, max_width=999)

ENUMS = {
    "E1": {7: "Ok", 100: ("Broken", "name_warn")},
    "E2": {"a": "Alpha", "bb": ("Beta", "name_good"), "cccc": "Gamma delta"},
}


# ------------------------------------------------------------------------------------------ reference model
def col_bounds(col):
    w = col.get("w")
    if w is None and col.get("tw") is not None:
        return col["tw"][0], col["tw"][1]     # limits given through the field type: FieldType(min_width, max_width)
    if w is None:
        return DEFAULT_MIN, DEFAULT_MAX
    if len(w) == 1:
        return w[0], w[0]
    return w[0], w[1]


def make_fmt(case):
    parts = []
    for col in case["cols"]:
        s = col["f"]
        if col.get("mod"):
            s += "/" + col["mod"]
        if col.get("bb"):
            s += "!"
        w = col.get("w")
        if w is not None:
            s += ":" + "-".join(str(x) for x in w)
        parts.append(s)
    parts.extend(case.get("skip") or [])          # columns removed again through skip_columns=
    fmt = ",".join(parts)
    lim = case.get("limits")
    if lim is not None and case.get("lim_via") == "fmt":
        fmt += ";*" if lim[0] is None else ";%d:%d" % (lim[0], lim[1])
    return fmt


def make_table(case, records=None):
    kw = {"fields": list(case["fields"]), "fmt": make_fmt(case)}
    if case.get("limits") is not None and case.get("lim_via") != "fmt":
        kw["limits"] = tuple(case["limits"])
    if case.get("skip"):
        kw["skip_columns"] = list(case["skip"])
    if case.get("header") is not None:
        kw["header"] = case["header"]
    if case.get("footer") is not None:
        kw["footer"] = case["footer"]
    if case.get("titles"):
        kw["fields_titles"] = {k: (tuple(v) if isinstance(v, list) else v) for k, v in case["titles"].items()}
    if case.get("enums"):
        kw["fields_types"] = {f: PPEnumFieldType(dict(ENUMS[name])) for f, name in case["enums"].items()}
    typed = {c["f"]: c["tw"] for c in case["cols"] if c.get("tw") is not None}
    if typed:
        kw.setdefault("fields_types", {}).update(
            {f: FieldType(min_width=tw[0], max_width=tw[1]) for f, tw in typed.items()})
    return PPTable([tuple(r) for r in case["records"]] if records is None else records, **kw)


def title_lines(case, field):
    t = (case.get("titles") or {}).get(field)
    if t is None:
        return [field]
    items = t if isinstance(t, list) else [t]
    out = []
    for it in items:
        if isinstance(it, str):
            out.extend(x.strip() for x in it.split("\n"))
        else:
            out.append(str(it))
    return out


def desired_texts(case, col, value):
    """Acceptable full texts of a record cell; the first one is the unpadded form."""
    ename = (case.get("enums") or {}).get(col["f"])
    if ename is None:
        return [str(value)]
    if value is None:
        return ["None"]
    enum = ENUMS[ename]
    mod = col.get("mod") or "full"
    if value in enum:
        name = enum[value]
        name = name[0] if isinstance(name, tuple) else name
    else:
        name = "<???>"
    if mod == "val":
        return [str(value)]
    if mod == "name":
        return [name]
    longest = max([len(str(k)) for k in enum] + [len(str(value))])
    return [" " * q + str(value) + " " + name for q in range(0, longest - len(str(value)) + 1)]


def body_plans(case):
    """-> (list of acceptable body line sequences, full sequence). Items: record index, BREAK, SKIP."""
    fidx = {f: i for i, f in enumerate(case["fields"])}
    bb = [fidx[c["f"]] for c in case["cols"] if c.get("bb")]
    full = []
    prev = None
    for i, rec in enumerate(case["records"]):
        cur = [rec[j] for j in bb]
        if prev is not None and prev != cur:
            full.append(BREAK)
        full.append(i)
        prev = cur
    lim = case.get("limits")
    if lim is None or lim[0] is None or lim[1] is None:
        return [full], full
    n, m = lim
    total = len(full)
    if total <= n + m:
        return [full], full
    limited = full[:n] + [SKIP] + (full[total - m:] if m else [])
    if total == n + m + 1:
        return [full, limited], full
    return [limited], full


def _cell_problem(cell, cands, w, wmax):
    """None (ok, padded) / 'T' (ok, truncated) / reason string."""
    if tr.fits(cell, cands[0]):
        return None
    if any(tr.is_truncation(cell, d) for d in cands):
        if w < wmax:
            return "truncated-below-max"
        return "T"
    if len(cands[0]) <= w:
        return "not-shown-in-full"
    return "not-a-prefix-with-dots"


def _coltype(case, col):
    if (case.get("enums") or {}).get(col["f"]):
        return "enum-" + (col.get("mod") or "full")
    return "plain"


def verify(case, text, feats=None, strict_trunc=True):
    """None or (signature part, message, observed, expected) for one rendering of the table."""
    feats = feats if feats is not None else set()
    cols = case["cols"]
    try:
        t = tr.read_table(text)
    except tr.TableStructureError as e:
        return (f"structure:{e.kind}:{e.section}", e.message, text, "a rectangular table with three equal borders")
    if len(t.col_widths) != len(cols):
        return ("column-count", f"{len(t.col_widths)} columns printed, {len(cols)} configured", text, len(cols))
    bounds_ = [col_bounds(c) for c in cols]
    # strict_trunc=False (a table printed again after its records list grew: the widths were settled by the
    # first printing): a cell may be truncated whenever the text is longer than the column
    tmax = [b[1] if strict_trunc else -1 for b in bounds_]
    for ci, (w, (lo, hi)) in enumerate(zip(t.col_widths, bounds_)):
        if w < lo:
            return ("width-below-min", f"column {ci} is {w} wide, minimum {lo}", text, [lo, hi])
        if w > hi:
            return ("width-above-max", f"column {ci} is {w} wide, maximum {hi}", text, [lo, hi])

    # ---- head: optional header line + title rows
    header = case.get("header")
    tls = [title_lines(case, c["f"]) for c in cols]
    n_titles = max(len(x) for x in tls)
    exp_head = (1 if header else 0) + n_titles
    if len(t.head) != exp_head:
        return ("head-line-count", f"{len(t.head)} lines above the second border, expected {exp_head}", text, exp_head)
    rows = list(t.head)
    if header:
        row = rows.pop(0)
        if tr.fits(row.inner, header):
            feats.add("obs:header:short")
        elif tr.is_truncation(row.inner, header):
            feats.add("obs:header:longer-than-table")
        else:
            return ("header-text", "header line is neither the padded header nor a prefix ending in dots",
                    row.raw, header)
    for li, row in enumerate(rows):
        if not row.sep_ok:
            return ("separator-misplaced:title", f"title row {li}: no '|' under some '+'", [t.lines[0], row.raw], None)
        for ci, cell in enumerate(row.cells):
            want = tls[ci][li] if li < len(tls[ci]) else ""
            p = _cell_problem(cell, [want], t.col_widths[ci], tmax[ci])
            if p == "T":
                feats.add("obs:title:truncated")
            elif p is not None:
                return (f"cell:title:{p}", f"title cell (line {li}, column {ci}) {cell!r} for {want!r}: {p}",
                        [t.lines[0], row.raw], want)

    # ---- body
    plans, full = body_plans(case)
    total = len(case["records"])
    fidx = {f: i for i, f in enumerate(case["fields"])}
    first_problem = None
    matched = None
    for plan in plans:
        if len(plan) != len(t.body):
            continue
        problem = None
        pf = set()
        for row, item in zip(t.body, plan):
            if item == BREAK:
                if row.inner.strip(" ") != "":
                    problem = ("body:break-line-expected", f"line {row.line_no}: expected a blank break line",
                               row.raw, "blank line")
                    break
                pf.add("obs:body:break-line")
            elif item == SKIP:
                shown = sum(1 for x in plan if isinstance(x, int))
                num = tr.skipped_number(row.inner)
                if num is None:
                    pf.add("obs:skipped:number-truncated")
                else:
                    pf.add("obs:skipped:number-read")
                    if num + shown != total:
                        problem = ("skipped-count", f"{num} announced as skipped + {shown} shown != {total} records",
                                   row.raw, total - shown)
                        break
            else:
                if not row.sep_ok:
                    problem = ("separator-misplaced:record", f"line {row.line_no}: no '|' under some '+'",
                               [t.lines[0], row.raw], None)
                    break
                rec = case["records"][item]
                for ci, (col, cell) in enumerate(zip(cols, row.cells)):
                    value = rec[fidx[col["f"]]]
                    cands = desired_texts(case, col, value)
                    p = _cell_problem(cell, cands, t.col_widths[ci], tmax[ci])
                    ctype = _coltype(case, col)
                    if p == "T":
                        pf.add("obs:cell:truncated")
                        if t.col_widths[ci] < 3:
                            pf.add("obs:cell:truncated-width<3")
                        if ctype != "plain":
                            pf.add("obs:enum:truncated")
                    elif p is None:
                        pf.add("obs:cell:exact" if len(cands[0]) == len(cell) else "obs:cell:padded")
                    else:
                        problem = (f"cell:record:{ctype}:{p}",
                                   f"record {item}, column {ci}: cell {cell!r} for {cands[0]!r}: {p}",
                                   [t.lines[0], row.raw], cands[0])
                        break
                if problem:
                    break
        if problem is None:
            matched = plan
            feats.update(pf)
            break
        if first_problem is None:
            first_problem = problem
    if matched is None:
        if first_problem is not None:
            return first_problem + ()
        lens = [len(p) for p in plans]
        if len(t.body) == len(full) and full not in plans:
            return ("body:limits-not-applied", f"all {len(full)} body lines shown although limits {case['limits']} apply",
                    text, lens)
        if any(SKIP in p for p in plans) is False and len(full) != len(t.body) and case.get("limits"):
            return ("body:limits-applied-needlessly", f"{len(t.body)} body lines, expected all {len(full)}", text, lens)
        return ("body:line-count", f"{len(t.body)} body lines, expected {lens}", text, lens)
    if SKIP in matched:
        feats.add("obs:limits:applied")
        shown_lines = [x for x in matched if x != SKIP]
        if BREAK in shown_lines:
            feats.add("obs:limits:break-line-counted")

    # ---- footer
    footer = case.get("footer")
    if len(t.foot) != 1:
        return ("footer-lines", f"{len(t.foot)} lines after the last border, expected 1", text, 1)
    if footer is None:
        feats.add("obs:footer:default")
    elif tr.fits(t.foot[0], footer):
        feats.add("obs:footer:short")
    elif tr.is_truncation(t.foot[0], footer):
        feats.add("obs:footer:longer-than-table")
    else:
        return ("footer-text", "footer line is neither the padded footer nor a prefix ending in dots",
                t.foot[0], footer)
    return None


def case_features(case, feats):
    cols = case["cols"]
    feats.add("cols:%d" % len(cols))
    fs = [c["f"] for c in cols]
    if len(set(fs)) < len(fs):
        feats.add("cols:same-field-twice")
    if case.get("skip"):
        feats.add("cols:removed-by-skip_columns")
    n = len(case["records"])
    feats.add("records:0" if n == 0 else ("records:5+" if n >= 5 else "records:1-4"))
    for c in cols:
        lo, hi = col_bounds(c)
        if c.get("w") is None and c.get("tw") is not None:
            feats.add("width:from-field-type")
            if lo == 0:
                feats.add("width:field-type-min-zero")
            if hi == 0:
                feats.add("width:field-type-max-zero")
        elif c.get("w") is None:
            feats.add("width:unspecified")
        elif hi == 0:
            feats.add("width:zero")
        if c.get("w") is not None:
            feats.add("width:min=max" if lo == hi else "width:ranged")
        ename = (case.get("enums") or {}).get(c["f"])
        if ename:
            feats.add("enum:" + (c.get("mod") or "default-modifier"))
            fi = case["fields"].index(c["f"])
            for r in case["records"]:
                if r[fi] is None:
                    feats.add("enum:none-value")
                elif r[fi] not in ENUMS[ename]:
                    feats.add("enum:unknown-value")
    nbb = sum(1 for c in cols if c.get("bb"))
    if nbb:
        feats.add("break-by:one" if nbb == 1 else "break-by:two")
    for r in case["records"]:
        for v in r:
            if isinstance(v, str):
                if v == "":
                    feats.add("value:empty")
                if any(ch in v for ch in "|+-"):
                    feats.add("value:border-chars")
            elif v is None:
                feats.add("value:none")
            elif isinstance(v, (int, float)):
                feats.add("value:number")
    lim = case.get("limits")
    plans, full = body_plans(case)
    if BREAK in full:
        feats.add("body:break-line")
    if lim is None or lim[0] is None or lim[1] is None:
        feats.add("limits:none")
    else:
        if case.get("lim_via") == "fmt":
            feats.add("limits:via-fmt")
        if lim[0] == 0 and lim[1] == 0:
            feats.add("limits:zero-zero")
        if len(plans) == 2:
            feats.add("limits:n+m+1")
        elif plans[0] == full:
            feats.add("limits:fit")
        else:
            feats.add("limits:must-apply")
            if BREAK in plans[0]:
                feats.add("limits:break-line-in-shown-part")
            # can the "skipped" line show its number? interior width is between these two
            lo_in = sum(col_bounds(c)[0] for c in cols) + len(cols) - 1
            hi_in = sum(col_bounds(c)[1] for c in cols) + len(cols) - 1
            ndig = len(str(len(case["records"]) - sum(1 for x in plans[0] if isinstance(x, int))))
            if hi_in < 4 + ndig + 1:
                feats.add("skipped:number-cannot-fit")
            if lo_in >= 4 + ndig + 1 + 3:
                feats.add("skipped:number-must-fit")
    visible = sorted({x for p in plans for x in p if isinstance(x, int)})
    fidx = {f: i for i, f in enumerate(case["fields"])}
    for c in cols:
        lo, hi = col_bounds(c)
        for i in visible:
            d = desired_texts(case, c, case["records"][i][fidx[c["f"]]])[0]
            if len(d) > hi:
                feats.add("cell:longer-than-max")
                if hi < 3:
                    feats.add("cell:longer-than-max<3")
                if (case.get("enums") or {}).get(c["f"]):
                    feats.add("enum:longer-than-max")
            elif len(d) < lo:
                feats.add("cell:shorter-than-min")
        if any(len(x) > hi for x in title_lines(case, c["f"])):
            feats.add("title:longer-than-max")
    lo_in = sum(col_bounds(c)[0] for c in cols) + len(cols) - 1
    hi_in = sum(col_bounds(c)[1] for c in cols) + len(cols) - 1
    if case.get("header"):
        if len(case["header"]) > hi_in:
            feats.add("header:longer-than-table")
        elif len(case["header"]) <= lo_in:
            feats.add("header:fits")
    if case.get("footer") is None:
        feats.add("footer:default")
    elif len(case["footer"]) > hi_in + 2:
        feats.add("footer:longer-than-table")
    elif len(case["footer"]) <= lo_in + 2:
        feats.add("footer:fits")
    tls = [len(title_lines(case, c["f"])) for c in cols]
    if max(tls) > 1:
        feats.add("titles:multi-line")
        if min(tls) != max(tls):
            feats.add("titles:uneven-line-counts")


NONTRIVIAL = {"sequence:tables-in-one-process", "value:equal-values-of-different-types", "reprint:records-appended", "shared-fmt:second-table-from-fmt_obj",
              "interleave:second-started-while-first-suspended", "interleave:zip", "cell:longer-than-max", "width:zero", "body:break-line", "limits:must-apply", "limits:n+m+1",
              "enum:full", "enum:val", "enum:name", "enum:default-modifier", "header:longer-than-table",
              "footer:longer-than-table", "titles:multi-line", "title:longer-than-max"}


def _line_text(ln, feats):
    """Visible text of one yielded line. The type of the yielded object is not part of this property: a raw
    list of chunks (pinned tree, repaired by 54c0071) is turned into text the way the documented consumers
    (``CHText("\\n").join(lines)``, ``CHText(line)``) do, and only counted."""
    if hasattr(ln, "plain_text"):
        return ln.plain_text()
    feats.add("obs:line-is-raw-chunk-list")
    return CHText(ln).plain_text()


def _render_lines(table, feats):
    """Consume the line iterator: -> (lines rendered when yielded, the kept line objects rendered afterwards)."""
    kept, now = [], []
    for ln in table.ch_text(no_color=True):
        now.append(_line_text(ln, feats))
        kept.append(ln)
    return now, [_line_text(ln, feats) for ln in kept]


def _print_both(table, feats):
    """Whole text and line iteration of one table object -> list of (label, text)."""
    text = table.ch_text(no_color=True).plain_text()
    out = [("", text)]
    lines, later = _render_lines(table, feats)
    if "\n".join(lines) != text:
        out.append(("by-line:", "\n".join(lines)))
    if later != lines:
        out.append(("kept-lines:", "\n".join(later)))
    return out


def _verify_all(case, renderings, feats, prefix, strict_trunc=True):
    for label, text in renderings:
        v = verify(case, text, feats, strict_trunc)
        if v is not None:
            return (prefix + label + v[0], v[1], v[2], v[3])
    return None


def check_reprint(case, acc):
    """A table is printed, the caller's records list grows, the table is printed again: every complete
    printing must satisfy the property for the records it was started with."""
    spec = case["reprint"]
    c1 = spec["t"]
    c2 = dict(c1, records=c1["records"] + spec["append"])
    feats = set()
    acc.trans(4)
    try:
        records = [tuple(r) for r in c1["records"]]
        table = make_table(c1, records)
        first = _print_both(table, feats)
        records.extend(tuple(r) for r in spec["append"])
        second = _print_both(table, feats)
    except Exception as e:  # noqa
        return (f"reprint:raises:{type(e).__name__}", f"printing raised {type(e).__name__}: {e}", repr(e), "a table"), \
            feats, None
    v = _verify_all(c1, first, feats, "reprint:first-printing:")
    if v is None:
        v = _verify_all(c2, second, set(), "reprint:after-append:", strict_trunc=False)
    return v, feats, second[0][1]


def shared_second_case(spec):
    """Reference description of the second table, built from the first table's format object."""
    c1 = spec["t1"]
    gone = set(spec.get("skip2") or []) | set(spec.get("remove2") or [])
    c2 = {"fields": c1["fields"], "records": spec["records2"],
          "cols": [c for c in c1["cols"] if c["f"] not in gone],
          "limits": spec["limits2"] if "limits2" in spec else c1.get("limits")}
    for key in ("titles", "enums"):
        if c1.get(key):
            c2[key] = c1[key]
    return c2


def check_shared_fmt(case, acc):
    """t2 = PPTable(records2, fmt_obj=t1.fmt, limits=.., skip_columns=..) (+ t2.remove_columns) - the pattern of
    ak/mcaller_sql.py.  Whatever is done to t2, t1 keeps its own columns and limits: printed afterwards (and
    while its line iterator is suspended during the construction of t2) it must satisfy the oracle for its own
    description; t2 must satisfy the oracle for its description."""
    spec = case["shared_fmt"]
    c1, c2 = spec["t1"], shared_second_case(spec)
    feats = set()
    acc.trans(4)
    mid = None
    before = None
    try:
        t1 = make_table(c1)
        if spec.get("t1_printed_first"):
            before = _print_both(t1, feats)
        k = spec.get("k")
        if k is not None:
            g1 = iter(t1.ch_text(no_color=True))
            l1 = []
            for _ in range(k):
                try:
                    l1.append(next(g1))
                except StopIteration:
                    break
        kw = {"fmt_obj": t1.fmt}
        if "limits2" in spec:
            kw["limits"] = tuple(spec["limits2"])
        if spec.get("skip2"):
            kw["skip_columns"] = list(spec["skip2"])
        t2 = PPTable([tuple(r) for r in spec["records2"]], **kw)
        if spec.get("remove2"):
            t2.remove_columns(list(spec["remove2"]))
        second = _print_both(t2, feats)
        if k is not None:
            l1.extend(g1)
            mid = "\n".join(_line_text(x, feats) for x in l1)
        after = _print_both(t1, feats)
    except Exception as e:  # noqa
        return (f"shared-fmt:raises:{type(e).__name__}", f"raised {type(e).__name__}: {e}", repr(e), "two tables"), \
            feats, None
    v = None
    if before is not None:
        v = _verify_all(c1, before, feats, "shared-fmt:first-table-before:")
        if v is None and before[0][1] != after[0][1]:
            feats.add("obs:shared-fmt:first-table-text-changed")
    if v is None and mid is not None:
        v = _verify_all(c1, [("", mid)], set(), "shared-fmt:first-table-mid-iteration:")
    if v is None:
        v = _verify_all(c1, after, set(), "shared-fmt:first-table-after:")
    if v is None:
        v = _verify_all(c2, second, set(), "shared-fmt:second-table:")
    return v, feats, after[0][1]


def _colored_kept_lines(table, feats):
    """Default (colored) palette: all line objects are collected first, rendered afterwards; -> visible text."""
    kept = list(table.ch_text())
    return "\n".join(_line_text(ln, feats) for ln in kept)


def check_sequence(case, acc):
    """Several tables printed one after another in one process, no state reset in between: each must show its
    own values (equal-but-differently-typed values 1 / True / 1.0 ... must not be confused)."""
    feats = set()
    texts = []
    try:
        for c in case["sequence"]:
            acc.trans(1)
            texts.append(_print_both(make_table(c), feats))
    except Exception as e:  # noqa
        return (f"sequence:raises:{type(e).__name__}", f"raised {type(e).__name__}: {e}", repr(e), "tables"), feats, None
    for i, (c, rend) in enumerate(zip(case["sequence"], texts)):
        v = _verify_all(c, rend, feats if i == 0 else set(), f"sequence:table-{i}:")
        if v is not None:
            return v, feats, texts[0][0][1]
    return None, feats, texts[0][0][1]


def check_case(case, acc):
    reset_world()
    if "sequence" in case:
        return check_sequence(case, acc)
    if "interleave" in case:
        return check_interleaved(case, acc)
    if "reprint" in case:
        return check_reprint(case, acc)
    if "shared_fmt" in case:
        return check_shared_fmt(case, acc)
    feats = set()
    acc.trans(2)
    try:
        text = make_table(case).ch_text(no_color=True).plain_text()
        lines, later = _render_lines(make_table(case), feats)
    except Exception as e:  # noqa
        return (f"raises:{type(e).__name__}", f"printing the table raised {type(e).__name__}: {e}",
                repr(e), "a table"), feats, None
    v = verify(case, text, feats)
    if v is None:
        joined = "\n".join(lines)
        if joined != text:
            v2 = verify(case, joined, set())
            if v2 is not None:
                v = ("by-line:" + v2[0],) + v2[1:]
    if v is None and later != lines:
        v2 = verify(case, "\n".join(later), set())
        if v2 is not None:
            v = ("kept-lines:" + v2[0],) + v2[1:]
    if v is None and case.get("colored"):
        acc.trans(1)
        try:
            ctext = _colored_kept_lines(make_table(case), feats)
        except Exception as e:  # noqa
            return (f"colored:raises:{type(e).__name__}", f"colored printing raised {type(e).__name__}: {e}",
                    repr(e), "a table"), feats, text
        if ctext != text:
            v2 = verify(case, ctext, set())
            if v2 is not None:
                v = ("colored-kept-lines:" + v2[0],) + v2[1:]
    return v, feats, text


def ref_line_count(case):
    """Number of lines of the printed table according to the reference model (the larger, if two are accepted)."""
    plans, _ = body_plans(case)
    n_titles = max(len(title_lines(case, c["f"])) for c in case["cols"])
    return 3 + (1 if case.get("header") else 0) + n_titles + max(len(p) for p in plans) + 1


def check_interleaved(case, acc):
    """Two line iterators alive at the same time: the first is advanced k lines, then the second is started
    and exhausted, then the first is finished ('zip': strictly alternating). Each table must still satisfy
    the property on its own."""
    spec = case["interleave"]
    c1, c2, k = spec["t1"], spec["t2"], spec["k"]
    feats = set()
    acc.trans(2)
    try:
        t1 = make_table(c1)
        t2 = t1 if spec.get("same_object") else make_table(c2)
        if spec.get("colored"):
            g1, g2 = iter(t1.ch_text()), iter(t2.ch_text())
        else:
            g1, g2 = iter(t1.ch_text(no_color=True)), iter(t2.ch_text(no_color=True))
        l1, l2 = [], []
        if k == "zip":
            live = [(g1, l1), (g2, l2)]
            while live:
                for g, out in list(live):
                    try:
                        out.append(next(g))
                    except StopIteration:
                        live.remove((g, out))
        else:
            for _ in range(k):
                try:
                    l1.append(next(g1))
                except StopIteration:
                    break
            l2.extend(g2)
            l1.extend(g1)
        text1 = "\n".join(_line_text(x, feats) for x in l1)
        text2 = "\n".join(_line_text(x, feats) for x in l2)
    except Exception as e:  # noqa
        return (f"interleaved:raises:{type(e).__name__}", f"interleaved printing raised {type(e).__name__}: {e}",
                repr(e), "two tables"), feats, None
    for which, c, text in (("first", c1, text1), ("second", c2, text2)):
        v = verify(c, text, feats if which == "first" else set())
        if v is not None:
            return (f"interleaved:{which}:" + v[0], f"{which} table of an interleaved pair: " + v[1], v[2], v[3]), \
                feats, text1
    return None, feats, text1


def _one(acc, case, n):
    v, feats, text = check_case(case, acc)
    if "interleave" in case:
        spec = case["interleave"]
        case_features(spec["t1"], feats)
        feats.add("interleave:zip" if spec["k"] == "zip" else "interleave:one-preemption")
        if spec.get("same_object"):
            feats.add("interleave:same-table-object")
        if 0 < (spec["k"] if spec["k"] != "zip" else 0) < ref_line_count(spec["t1"]):
            feats.add("interleave:second-started-while-first-suspended")
    elif "sequence" in case:
        for c in case["sequence"]:
            case_features(c, feats)
        feats.add("sequence:tables-in-one-process")
        vals = [[x for r in c["records"] for x in r] for c in case["sequence"]]
        if len(vals) > 1 and any(a == b and type(a) is not type(b) for a in vals[0] for b in vals[1]):
            feats.add("sequence:equal-values-of-other-type-in-second-table")
    elif "reprint" in case:
        spec = case["reprint"]
        case_features(spec["t"], feats)
        feats.add("reprint:records-appended")
        longest = max([len(str(x)) for r in spec["t"]["records"] for x in r] + [0])
        if any(len(str(x)) > longest for r in spec["append"] for x in r):
            feats.add("reprint:longer-value-appended")
        p1, _ = body_plans(spec["t"])
        p2, _ = body_plans(dict(spec["t"], records=spec["t"]["records"] + spec["append"]))
        if not any(SKIP in p for p in p1) and all(SKIP in p for p in p2):
            feats.add("reprint:limits-start-to-apply")
    elif "shared_fmt" in case:
        spec = case["shared_fmt"]
        case_features(spec["t1"], feats)
        feats.add("shared-fmt:second-table-from-fmt_obj")
        if "limits2" in spec:
            feats.add("shared-fmt:limits-on-second")
        if spec.get("skip2"):
            feats.add("shared-fmt:skip_columns-on-second")
        if spec.get("remove2"):
            feats.add("shared-fmt:remove_columns-on-second")
        if spec.get("k") is not None:
            feats.add("shared-fmt:first-mid-iteration")
        feats.add("shared-fmt:first-printed-before" if spec.get("t1_printed_first") else
                  "shared-fmt:first-not-printed-before")
    else:
        case_features(case, feats)
        if case.get("colored"):
            feats.add("colored:kept-lines-pass")
        vals = [x for r in case["records"] for x in r if not isinstance(x, str) and x is not None]
        if any(a == b and type(a) is not type(b) for a in vals for b in vals):
            feats.add("value:equal-values-of-different-types")
    if "interleave" in case and case["interleave"].get("colored"):
        feats.add("colored:interleaved-zip")
    if v is None:
        body = "all" if "obs:limits:applied" not in feats else "limited"
        trunc = "trunc" if "obs:cell:truncated" in feats else "full"
        outcome = f"ok:{body}:{trunc}:{'brk' if 'obs:body:break-line' in feats else 'nobrk'}"
    else:
        outcome = v[0]
    acc.case(nontrivial=bool(feats & NONTRIVIAL), features=sorted(feats), outcome=outcome)
    if text is not None:
        acc.note_max("table_lines", text.count("\n") + 1)
        acc.note_max("table_width", text.find("\n") if "\n" in text else len(text))
    if n % 3001 == 0:
        acc.sample(case)
    if v is not None:
        sig, msg, obs, exp = v
        acc.violation("C12:" + sig, case, msg, obs, exp)


# ------------------------------------------------------------------------------------------ families
def _seqs(alphabet, lo, hi):
    for n in range(lo, hi + 1):
        yield from itertools.product(alphabet, repeat=n)


def _wspecs(values):
    out = [None]
    for lo in values:
        for hi in values:
            if lo == hi:
                out.append([lo])
            elif lo < hi:
                out.append([lo, hi])
    return out


V_FULL = [1, 1234567, "ab", "abcdefghijkl", None, "a|b", "+-", "", True, 2.5, " x"]
V_CORE = [1, "abcdefghijkl", None, "a|b", "", "+-"]
W_ALL = _wspecs([0, 1, 2, 3, 4, 10])
W2 = [None, [0], [1], [2], [3], [0, 3], [1, 4], [2, 10]]
W3 = [[0], [1], [0, 3], [2, 10]]
LIMS_Q = [None, [None, None], [0, 0], [1, 0], [0, 1], [1, 1], [2, 1], [1, 2], [2, 2], [3, 0], [0, 3], [4, 1]]
LIMS_T = LIMS_Q + [[None, 1], [1, None], [3, 1], [2, 3], [5, 5], [0, 2]]
LIMS_FMT = [[None, None], [0, 0], [1, 1], [2, 1], [0, 2]]


def fam_F1(tier):
    if tier == "thorough":
        recs = itertools.chain(_seqs(V_FULL, 0, 3), _seqs(V_CORE, 4, 4))
    else:
        recs = itertools.chain(_seqs(V_FULL, 0, 2), _seqs(V_CORE, 3, 3))
    for seq, w, name in itertools.product(list(recs), W_ALL, ["c", "title", "a long title"]):
        yield {"fields": [name], "records": [[v] for v in seq], "cols": [{"f": name, "w": w}]}


def fam_F2(tier):
    v2 = [1, "abcde", None, "a|b", ""] if tier == "thorough" else [1, "abcde", None, "a|b"]
    pairs = list(itertools.product(v2, repeat=2))
    sels = [("a", "b"), ("b", "a"), ("a", "a")]
    for seq, wa, wb, sel in itertools.product(list(_seqs(pairs, 0, 2)), W2, W2, sels):
        yield {"fields": ["a", "b"], "records": [list(p) for p in seq],
               "cols": [{"f": sel[0], "w": wa}, {"f": sel[1], "w": wb}]}
    for seq, wa, keep in itertools.product(list(_seqs(pairs, 0, 2)), W2, "ab"):
        yield {"fields": ["a", "b"], "records": [list(p) for p in seq],
               "cols": [{"f": keep, "w": wa}], "skip": ["b" if keep == "a" else "a"]}
    v3 = [1, "abcde", "a|b", ""]
    triples = list(itertools.product(v3 if tier != "thorough" else v3[:3], repeat=3))
    for seq, ws in itertools.product(list(_seqs(triples, 0, 1 if tier != "thorough" else 2)),
                                     list(itertools.product(W3, repeat=3))):
        yield {"fields": ["a", "b", "c"], "records": [list(p) for p in seq],
               "cols": [{"f": f, "w": w} for f, w in zip("abc", ws)]}


BBCFG = {
    "none": [("g", 0), ("h", 0), ("id", 0)],
    "g": [("g", 1), ("h", 0), ("id", 0)],
    "g-late": [("id", 0), ("g", 1)],
    "h": [("id", 0), ("h", 1)],
    "gh": [("g", 1), ("h", 1), ("id", 0)],
}
WCFG = {
    "default": {"g": None, "h": None, "id": None},
    "narrow": {"g": [0, 1], "h": [0, 1], "id": [0, 1]},
    "zero": {"g": [0], "h": [0], "id": [0]},
    "fixed": {"g": [3], "h": [2], "id": [6]},
}


def fam_F3(tier):
    ng, ngh = (7, 5) if tier == "thorough" else (6, 4)
    lims = LIMS_T if tier == "thorough" else LIMS_Q
    limvias = [(lm, "arg") for lm in lims] + [(lm, "fmt") for lm in LIMS_FMT]
    g_seqs = [[(g, "x") for g in s] for s in _seqs([1, 2], 0, ng)]
    gh_seqs = [list(s) for s in _seqs(list(itertools.product([1, 2], ["x", "y"])), 0, ngh)]
    for bb, seqs in (("none", g_seqs), ("g", g_seqs), ("g-late", g_seqs), ("h", gh_seqs), ("gh", gh_seqs)):
        for seq, (lim, via), wname in itertools.product(seqs, limvias, list(WCFG)):
            case = {"fields": ["g", "h", "id"],
                    "records": [[g, h, 101 + i] for i, (g, h) in enumerate(seq)],
                    "cols": [{"f": f, "bb": b, "w": WCFG[wname][f]} for f, b in BBCFG[bb]],
                    "limits": lim}
            if via == "fmt":
                case["lim_via"] = "fmt"
            yield case


E1_VALUES = [7, 100, 55, 12345, None]
E2_VALUES = ["a", "cccc", "zz", "longer-unknown", None]
W_ENUM = [None, [0], [1], [2], [3], [4], [6], [9], [12], [0, 5], [3, 8], [1, 10], [13, 20]]


def fam_F4(tier):
    arrangements = ["alone", "id-first", "id-last", "twice", "break-by"]
    mods = [None, "full", "val", "name"]
    for ename, values in (("E1", E1_VALUES), ("E2", E2_VALUES)):
        seqs = list(_seqs(values, 0, 3 if tier != "thorough" else 4))
        for seq, w, mod, arr in itertools.product(seqs, W_ENUM, mods, arrangements):
            st = {"f": "st", "w": w, "mod": mod}
            if arr == "alone":
                cols = [st]
            elif arr == "id-first":
                cols = [{"f": "id", "w": None}, st]
            elif arr == "id-last":
                cols = [st, {"f": "id", "w": [2]}]
            elif arr == "twice":
                cols = [st, {"f": "st", "w": w, "mod": "val" if mod != "val" else "name"}]
            else:
                cols = [dict(st, bb=1), {"f": "id", "w": None}]
            yield {"fields": ["id", "st"], "records": [[i + 1, v] for i, v in enumerate(seq)],
                   "cols": cols, "enums": {"st": ename}}
        # limits decide which records are visible, hence which cell lengths may widen the column
        lseqs = list(_seqs(values, 3, 4 if tier != "thorough" else 5))
        for seq, w, mod, lim in itertools.product(lseqs, [None, [0, 5], [1, 10]], mods, [[1, 0], [0, 1], [1, 1]]):
            yield {"fields": ["id", "st"], "records": [[i + 1, v] for i, v in enumerate(seq)],
                   "cols": [{"f": "id", "w": None}, {"f": "st", "w": w, "mod": mod}],
                   "enums": {"st": ename}, "limits": lim}


HEADERS = [None, "H", "Head", "A header | that is + much longer - than the table", "....", " spaced "]
FOOTERS = [None, "F", "Foot", "A footer | that is + much longer - than the table", "..."]
TITLES = [
    None,
    {"a": "first\nsecond"},
    {"a": "one", "b": "b1\nb2\nb3"},
    {"a": ["t", 555], "b": "B"},
    {"a": ["x", None, 7.5], "b": ["long title line", "s"]},
    {"a": "a very long title of a", "b": "|+|"},
    {"a": "", "b": " \n-"},
]


def fam_F5(tier):
    ws = [None, [0], [1], [2], [5], [0, 3], [2, 10]] if tier != "thorough" else W_ALL
    recsets = [[], [[1, "x"]], [["abcdefgh", None]], [[1, "x"], ["abcdefgh", None]], [["", "a|b"], [22, "+-"]]]
    colsets = [("a",), ("a", "b"), ("b", "a")]
    for hdr, ftr, tit, w, recs, cs in itertools.product(HEADERS, FOOTERS, TITLES, ws, recsets, colsets):
        case = {"fields": ["a", "b"], "records": recs, "cols": [{"f": f, "w": w} for f in cs]}
        if hdr is not None:
            case["header"] = hdr
        if ftr is not None:
            case["footer"] = ftr
        if tit is not None:
            case["titles"] = tit
        case["colored"] = 1          # additionally: colored palette, all lines collected, then rendered
        yield case


def fam_F6(tier):
    nmax = 7 if tier == "thorough" else 6
    lims = [[1, 1], [2, 2], [0, 3], [3, 0], [2, 1]]
    vals = [7, 100, 55]
    for n in range(4, nmax + 1):
        for seq, lim, mod, wname in itertools.product(itertools.product(vals, repeat=n), lims,
                                                      [None, "val", "name"], ["default", "narrow"]):
            if len(set(seq)) < 2:
                continue
            w = None if wname == "default" else [0, 4]
            yield {"fields": ["id", "st"], "records": [[i + 1, v] for i, v in enumerate(seq)],
                   "cols": [{"f": "st", "w": w, "mod": mod, "bb": 1}, {"f": "id", "w": w}],
                   "enums": {"st": "E1"}, "limits": lim, "header": "H"}


def _f7_tables(tier):
    seqs = [[1, 2, 2], [1, 1, 2], [1, 2, 1, 1]]
    lims = [None, [1, 0], [0, 1], [1, 1]]
    out = []
    for seq, lim, wname in itertools.product(seqs, lims, ["default", "fixed", "zero"]):
        out.append({"fields": ["g", "h", "id"], "records": [[g, "x", 101 + i] for i, g in enumerate(seq)],
                    "cols": [{"f": f, "bb": b, "w": WCFG[wname][f]} for f, b in BBCFG["g"]], "limits": lim})
    if tier == "thorough":
        for seq, lim, mod in itertools.product([[7, 100, None], [55, 55, 7, 7]], [None, [1, 1]], ["val", "name"]):
            out.append({"fields": ["id", "st"], "records": [[i + 1, v] for i, v in enumerate(seq)],
                        "cols": [{"f": "st", "w": None, "mod": mod, "bb": 1}, {"f": "st", "w": [2, 5], "mod": mod},
                                 {"f": "id", "w": None}],
                        "enums": {"st": "E1"}, "limits": lim, "header": "Head"})
    return out


def fam_F7(tier):
    """Pairs of tables whose line iterators are alive at the same time (every one-preemption schedule + zip)."""
    tables = _f7_tables(tier)
    for i, c1 in enumerate(tables):
        n1 = ref_line_count(c1)
        for j, c2 in enumerate(tables):
            ks = list(range(0, n1 + 1)) + ["zip"]
            yield {"interleave": {"t1": c1, "t2": c2, "k": "zip", "colored": 1}}
            for k in ks:
                yield {"interleave": {"t1": c1, "t2": c2, "k": k}}
                if i == j:
                    yield {"interleave": {"t1": c1, "t2": c2, "k": k, "same_object": 1}}


def fam_F8(tier):
    """print, append records to the caller's list, print again"""
    values = [1, "abc", None]
    added = [1, "abcdefghijkl", None, "a|b"]
    wspecs = [None, [0, 3], [2, 10], [3], [0]]
    lims = [None, [1, 1], [2, 0]]
    nrec = 3 if tier == "thorough" else 2
    for seq, app, w, lim, bb in itertools.product(list(_seqs(values, 0, nrec)), list(_seqs(added, 1, 2)), wspecs, lims,
                                                  (0, 1)):
        case = {"fields": ["a", "id"], "records": [[v, 101 + i] for i, v in enumerate(seq)],
                "cols": [{"f": "a", "w": w, "bb": bb}, {"f": "id", "w": None}]}
        if lim is not None:
            case["limits"] = lim
        yield {"reprint": {"t": case, "append": [[v, 201 + i] for i, v in enumerate(app)]}}


def _f9_first_tables():
    rows = [[1, "x", "Linus"], [2, "x", "Arnold"], [2, "y", "Jerry"], [3, "y", "Elizer"], [3, "y", "Meriadoc"]]
    plain = [{"f": "a", "w": None}, {"f": "b", "w": None}, {"f": "c", "w": None}]
    out = [
        {"fields": ["a", "b", "c"], "records": rows[:3], "cols": plain},
        {"fields": ["a", "b", "c"], "records": rows, "cols": plain, "limits": [1, 1]},
        {"fields": ["a", "b", "c"], "records": rows[:4],
         "cols": [{"f": "a", "w": [2, 10], "bb": 1}, {"f": "c", "w": [0, 4]}, {"f": "b", "w": [1]}]},
        {"fields": ["id", "st"], "records": [[1, 7], [2, 100], [3, 55]],
         "cols": [{"f": "id", "w": None}, {"f": "st", "w": None, "mod": "full"}, {"f": "st", "w": None, "mod": "val"}],
         "enums": {"st": "E1"}, "titles": {"st": "status\nof it"}},
    ]
    return out


def fam_F9(tier):
    """second table built from the first table's format object"""
    absent = object()
    for c1 in _f9_first_tables():
        nf = len(c1["fields"])
        fs = [c["f"] for c in c1["cols"]]
        recs2 = [[], [c1["records"][0]], [[("v%d" % j) * 4 if nf == 3 or j == 0 else 7 for j in range(nf)]] * 2
                 + [list(r) for r in c1["records"]] * 2]
        skips = [None, [fs[0]], [fs[-1]]]
        removes = [None, [fs[1]]]
        ks = [None] + list(range(1, ref_line_count(c1)))
        for r2, lim2, skip, rem, first, k in itertools.product(
                recs2, [absent, [None, None], [1, 1], [0, 0]], skips, removes, (1, 0), ks):
            gone = set(skip or []) | set(rem or [])
            if all(f in gone for f in fs):
                continue
            spec = {"t1": c1, "records2": r2, "t1_printed_first": first}
            if lim2 is not absent:
                spec["limits2"] = lim2
            if skip:
                spec["skip2"] = skip
            if rem:
                spec["remove2"] = rem
            if k is not None:
                spec["k"] = k
            yield {"shared_fmt": spec}


V_EQUAL = [1, True, 1.0, 0, False, 0.0, 2, 2.0]


def fam_F10(tier):
    """values that are == but of different types (one cache key, different text)"""
    for seq, w in itertools.product(list(_seqs(V_EQUAL, 1, 3)), [None, [3], [0, 2]]):
        yield {"fields": ["v"], "records": [[x] for x in seq], "cols": [{"f": "v", "w": w}], "colored": 1}
    for a, b, w in itertools.product(V_EQUAL, V_EQUAL, [None, [2]]):
        yield {"fields": ["a", "b"], "records": [[a, b], [b, a]], "cols": [{"f": "a", "w": w}, {"f": "b", "w": w}],
               "colored": 1}
    seqs = list(_seqs(V_EQUAL, 1, 2))
    for s1, s2 in itertools.product(seqs, seqs):
        yield {"sequence": [{"fields": ["v"], "records": [[x] for x in s1], "cols": [{"f": "v", "w": None}]},
                            {"fields": ["v"], "records": [[x] for x in s2], "cols": [{"f": "v", "w": None}]}]}


TW = [[0, 0], [0, 1], [0, 3], [0, 999], [1, 4], [2, 2], [5, 5]]


def fam_F11(tier):
    """width limits given through the field type (fields_types={name: FieldType(min_width, max_width)}), none in fmt"""
    recs = list(_seqs(V_CORE, 0, 2))
    for seq, tw, name in itertools.product(recs, TW, ["c", "a long title"]):
        yield {"fields": [name], "records": [[v] for v in seq], "cols": [{"f": name, "tw": tw}]}
    pairs = list(itertools.product([1, "abcde", ""], repeat=2))
    for seq, twa, other in itertools.product(list(_seqs(pairs, 0, 2)), TW, [{"w": None}, {"w": [0]}, {"tw": [0, 0]}]):
        yield {"fields": ["a", "b"], "records": [list(p) for p in seq],
               "cols": [dict({"f": "b"}, **other), {"f": "a", "tw": twa}]}


FAMILIES = {"F11": fam_F11, "F10": fam_F10, "F8": fam_F8, "F9": fam_F9, "F7": fam_F7, "F1": fam_F1, "F2": fam_F2, "F3": fam_F3, "F4": fam_F4, "F5": fam_F5, "F6": fam_F6}
PARTS = {"quick": {"F11": 4, "F10": 4, "F8": 4, "F9": 8, "F7": 8, "F1": 12, "F2": 24, "F3": 24, "F4": 16, "F5": 12, "F6": 12},
         "thorough": {"F11": 4, "F10": 4, "F8": 8, "F9": 8, "F7": 16, "F1": 32, "F2": 64, "F3": 64, "F4": 48, "F5": 32, "F6": 32}}


def bounds(tier):
    th = tier == "thorough"
    return {
        "F1": {"values": V_FULL, "records": "<= 3 over all values, 4 over core" if th else "<= 2 over all values, 3 over core",
               "core_values": V_CORE, "width_specs": len(W_ALL), "titles": ["c", "title", "a long title"]},
        "F2": {"two_col_records": "<= 2", "two_col_widths": W2, "selections": ["a,b", "b,a", "a,a", "a,b skip b", "a,b skip a"],
               "three_col_records": "<= 2" if th else "<= 1", "three_col_widths": W3},
        "F3": {"records_one_key": 7 if th else 6, "records_two_keys": 5 if th else 4,
               "limits": LIMS_T if th else LIMS_Q, "limits_via_fmt": LIMS_FMT,
               "break_by": list(BBCFG), "widths": list(WCFG)},
        "F4": {"enums": {k: {str(a): b for a, b in v.items()} for k, v in ENUMS.items()},
               "values": [E1_VALUES, E2_VALUES], "records": "<= 4" if th else "<= 3", "widths": W_ENUM,
               "modifiers": [None, "full", "val", "name"]},
        "F5": {"headers": HEADERS, "footers": FOOTERS, "titles": len(TITLES)},
        "F6": {"records": [4, 7 if th else 6]},
        "F11": {"field_type_limits(min,max)": TW, "fmt_width": "none", "records": "<= 2"},
        "F10": {"values": [repr(x) for x in V_EQUAL], "one_column_records": "1..3", "two_column": "all value pairs",
                "two_table_sequences": "all pairs of value sequences of length 1..2, no state reset in between"},
        "F8": {"base_records": "<= 3" if th else "<= 2", "appended_records": "1..2 over 4 values (shorter, longer, None, a|b)",
               "widths": 5, "limits": [None, [1, 1], [2, 0]], "break_by": [0, 1]},
        "F9": {"first_tables": len(_f9_first_tables()), "records2": 3, "limits2": ["absent", [None, None], [1, 1], [0, 0]],
               "skip_columns": ["absent", "first", "last"], "remove_columns": ["absent", "second"],
               "first_printed_before": [1, 0], "first_suspended_after_k_lines": "none, every k"},
        "F7": {"tables": len(_f7_tables(tier)), "pairs": "all ordered pairs + the same table object twice",
               "schedules": "first iterator advanced k = 0..all lines, second run to the end, first finished; zip"},
    }


def shards(tier):
    return [(fam, r, n) for fam, n in PARTS[tier].items() for r in range(n)]


def run_shard(shard, tier, seed, acc):
    fam, r, parts = shard
    for idx, case in enumerate(FAMILIES[fam](tier)):
        if idx % parts != r:
            continue
        _one(acc, case, idx)
        if idx % 256 == 0 and acc.expired():
            return


def replay(case, acc):
    v, _, _ = check_case(case, acc)
    if v is not None:
        sig, msg, obs, exp = v
        acc.violation("C12:" + sig, case, msg, obs, exp)
    acc.case()


# ------------------------------------------------------------------------------------------ selftest
def selftest():
    """The oracle accepts the tables the repository's tests describe and rejects planted damage."""
    recs = [[1, 10, "Linus"], [2, 10, "Arnold"], [3, 17, "Jerry"], [4, 7, "Elizer"]]
    case = {"fields": ["id", "level", "name"], "records": recs,
            "cols": [{"f": "id"}, {"f": "level"}, {"f": "name"}], "header": "some table"}
    doc = ("+--+-----+------+\n|some table     |\n|id|level|name  |\n+--+-----+------+\n"
           "| 1|   10|Linus |\n| 2|   10|Arnold|\n| 3|   17|Jerry |\n| 4|    7|Elizer|\n"
           "+--+-----+------+\nTotal 4 records  ")            # tests/test_ppobj.py verify_table_format docstring
    assert verify(case, doc) is None, verify(case, doc)
    real = make_table(case).ch_text(no_color=True).plain_text()
    assert real == doc, real
    bad = {
        "cell:record:plain:not-shown-in-full": doc.replace("|Jerry |", "|Jerr  |"),
        "cell:record:plain:not-shown-in-full/dots": doc.replace("|Arnold|", "|Arn...|"),
        "separator-misplaced:record": doc.replace("| 3|   17|Jerry |", "| 3 |  17|Jerry |"),
        "body:line-count": doc.replace("| 3|   17|Jerry |\n", ""),
        "structure:ragged:body": doc.replace("| 3|   17|Jerry |", "| 3|   17|Jerry  |"),
        "header-text": doc.replace("|some table     |", "|some tabl      |"),
        "cell:title:not-shown-in-full": doc.replace("|id|level|name  |", "|id|leve |name  |"),
    }
    for sig, text in bad.items():
        got = verify(case, text)
        assert got is not None and got[0] == sig.split("/")[0], (sig, got and got[0])
    longer = dict(case, records=[r[:2] + [r[2] + "us"] for r in recs])
    assert verify(longer, doc.replace("|Arnold|", "|Arn...|"))[0] == "cell:record:plain:not-a-prefix-with-dots"
    assert verify(longer, doc.replace("Linus ", "Lin...").replace("Arnold", "Arn...").replace("Jerry ", "Jer...")
                  .replace("Elizer", "Eli..."))[0] == "cell:record:plain:truncated-below-max"
    swapped = doc.replace("| 2|   10|Arnold|\n| 3|   17|Jerry |", "| 3|   17|Jerry |\n| 2|   10|Arnold|")
    assert verify(case, swapped)[0].startswith("cell:record")
    # limits and break-by as in test_simple_table (';1:0' -> one record + skipped line), test_columns_zero_width
    lim = dict(case, limits=[1, 0], header=None)
    lt = make_table(lim).ch_text(no_color=True).plain_text()
    assert verify(lim, lt) is None and "... 3 rec" in lt, lt
    assert verify(lim, lt.replace("... 3 rec", "... 2 rec"))[0] == "skipped-count"
    zw = {"fields": ["grade", "name"], "records": [[10, "Arnold"], [10, "Arnold"], [20, "Arnold"]],
          "cols": [{"f": "grade", "w": [0], "bb": 1}, {"f": "name"}]}
    zt = make_table(zw).ch_text(no_color=True).plain_text()
    f = set()
    assert verify(zw, zt, f) is None and "obs:body:break-line" in f and zt.split("\n")[0] == "++------+"
    assert verify(zw, zt.replace("|       |\n", ""))[0] == "body:line-count"
    en = {"fields": ["id", "name", "status"], "records": [[1, "user 01", 7], [2, "user 02", 100], [3, "u", 20]],
          "cols": [{"f": "id"}, {"f": "name"}, {"f": "status"}], "enums": {"status": "E1"}}
    et = make_table(en).ch_text(no_color=True).plain_text()
    assert verify(en, et) is None and "<???>" in et and "  7 Ok" in et, et   # test_table_with_enum_field_type
