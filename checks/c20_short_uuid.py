"""C20 — short uuid strings are a bijective encoding of UUIDs (DESIGN.md §2 C20).

Space (every member is visited, nothing sampled):
  ints  : all  d_i*57^i + d_j*57^j  (i <= j < 22, all digit values) below 2**128, plus
          boundaries 2^k, 2^k±1, 57^k, 57^k±1, 0, 2**128-1
          (thorough: additionally all three-digit numbers over the position triples listed in bounds())
  strs  : every 1-character corruption of reference encodings by every non-alphabet character of a
          fixed character menu at every position; every length 0..24 (!= 22) built from valid
          characters; all 57*57 settings of the two most significant digits over three lower-digit
          fills (the 2**128 frontier); canonical spellings for uuid_from_str; one character inserted
          into / appended to a valid encoding (wrong length AND foreign character)
  seqs  : every sequence of <= 3 operations (encode n, decode enc(n), uuid_from_str on short strings
          that differ only in letter case and on canonical spellings) over a pool of values with
          different numbers of significant digits, each from a freshly reloaded module (E2: the codec
          must have no memory)
Oracle: an independent codec written from the documented format (57-letter alphabet, least
significant digit first, padded with the zero letter to 22 characters).
"""

import importlib
import uuid

from ak import short_uuid as impl

ID = "C20"
TITLE = "Short uuid strings are a bijective encoding of UUIDs"
TECHNIQUE = ("bounded exhaustive input enumeration + all operation sequences <= 3 from pristine module state, "
             "against an independent reference codec")
DESIGN_REF = "§2 C20"
LEVEL_TEXT = ("Every UUID integer with at most two non-zero base-57 digits, all power boundaries, and "
              "every single-defect string is run through the real codec and compared with an "
              "independent one; covers any defect that depends on at most two digit positions. Every "
              "sequence of <= 3 codec operations over a value pool is run from a freshly reloaded module, "
              "so state kept between calls (buffers, caches) shows up as a reproducible violation.")
LEVEL_NOTE = ("Small-scope: values with three or more 'interesting' digits only in the thorough tier's "
              "position triples. Trusted: the reference codec in this file, Python's uuid.UUID.")
RULE = ("case = one integer (encode, alphabet/length test, decode, compare with reference codec, "
        "uuid_from_str on short and canonical forms) or one string (must be rejected with ValueError "
        "unless the reference codec says it denotes a value < 2**128). Non-trivial: integers with two "
        "non-zero digits, strings within one edit of a valid encoding, frontier strings, operation "
        "sequences (each result compared with the reference independent of history).")
ASSUMPTIONS = [
    "inputs are str objects (non-str arguments are outside the property)",
    "a defect depending on three or more specific digit positions is outside the quick bound",
]
REQUIRED_FEATURES = ["seq:history", "str:inserted-char", "int:two-digit", "int:boundary", "str:foreign-char", "str:wrong-length",
                     "str:frontier-accept", "str:frontier-reject", "str:canonical"]

ALPHA = "23456789ABCDEFGHJKLMNPQRSTUVWXYZabcdefghijkmnopqrstuvwxyz"
assert len(ALPHA) == 57 and len(set(ALPHA)) == 57
IDX = {c: i for i, c in enumerate(ALPHA)}
B = 57
N = 22
LIMIT = 1 << 128


def ref_encode(n):
    digits = []
    for _ in range(N):
        n, d = divmod(n, B)
        digits.append(ALPHA[d])
    assert n == 0
    return "".join(digits)


def ref_decode(s):
    """-> int or None (None: not a valid short string)."""
    if len(s) != N or any(c not in IDX for c in s):
        return None
    v = sum(IDX[c] * B ** k for k, c in enumerate(s))
    return v if v < LIMIT else None


FOREIGN = [c for c in (chr(k) for k in range(0, 128)) if c not in IDX] + ["é", "ı", "２"]


def bounds(tier):
    b = {"digits": 57, "positions": 22, "two_digit_space": "all i<=j<22, all digit values, < 2**128",
         "foreign_chars": len(FOREIGN), "lengths": "0..24"}
    if tier == "thorough":
        b["three_digit_triples"] = "all triples inside positions {0,1,2,3} and {18,19,20,21} and {0,11,21}, all digit values"
    return b


def shards(tier):
    sh = [("ints2", i) for i in range(N)] + [("bound",), ("strings", 0), ("strings", 1), ("frontier",),
                                               ("canonical",), ("insert", 0), ("insert", 1), ("seq",)]
    if tier == "thorough":
        import itertools
        tr = set()
        for grp in ((0, 1, 2, 3), (18, 19, 20, 21)):
            tr.update(itertools.combinations(grp, 3))
        tr.add((0, 11, 21))
        sh += [("ints3", t) for t in sorted(tr)]
    return sh


# ---------------------------------------------------------------- single cases
def check_int(n, acc, kind):
    """Returns None or (signature, message, observed, expected)."""
    acc.trans(3)
    exp = ref_encode(n)
    u = uuid.UUID(int=n)
    try:
        s = impl.uuid_to_short_str(u)
    except Exception as e:  # noqa
        return ("encode-raises", f"uuid_to_short_str raised {type(e).__name__}", repr(e), exp)
    if not isinstance(s, str) or len(s) != N or any(c not in IDX for c in s):
        return ("encode-shape", "encoding is not 22 characters of the alphabet", s, exp)
    if s != exp:
        return ("encode-differs-from-reference", "encoding differs from the documented format", s, exp)
    try:
        back = impl.uuid_from_short_str(s)
    except Exception as e:  # noqa
        return ("roundtrip-raises", f"uuid_from_short_str(encoding) raised {type(e).__name__}", repr(e), str(u))
    if back != u:
        return ("roundtrip-mismatch", "decode(encode(u)) != u", str(back), str(u))
    try:
        b2 = impl.uuid_from_str(s)
        b3 = impl.uuid_from_str(str(u))
    except Exception as e:  # noqa
        return ("from_str-raises", f"uuid_from_str raised {type(e).__name__}", repr(e), str(u))
    if b2 != u or b3 != u:
        return ("from_str-mismatch", "uuid_from_str(short/canonical) != u", [str(b2), str(b3)], str(u))
    return None


def check_str(s, acc):
    """A string: accepted (with the reference value) iff the reference decodes it."""
    acc.trans(2)
    exp = ref_decode(s)
    res = []
    for fn in (impl.uuid_from_short_str, impl.uuid_from_str):
        try:
            got = fn(s)
            res.append(("ok", got.int))
        except ValueError:
            res.append(("ValueError", None))
        except Exception as e:  # noqa
            res.append((type(e).__name__, None))
    want = ("ok", exp) if exp is not None else ("ValueError", None)
    # uuid_from_str additionally accepts canonical spellings; none of the strings sent here is one
    for name, r in zip(("uuid_from_short_str", "uuid_from_str"), res):
        if r != want:
            if want[0] == "ValueError" and r[0] not in ("ok", "ValueError"):
                return ("invalid-string-wrong-exception",
                        f"{name} raised {r[0]} instead of ValueError", r, want)
            if want[0] == "ValueError" and r[0] == "ok":
                return ("invalid-string-accepted", f"{name} accepted an invalid string", r, want)
            if want[0] == "ok" and r[0] != "ok":
                return ("valid-string-rejected", f"{name} rejected a valid short string", r, want)
            return ("decode-value", f"{name} decoded to a different value", r, want)
    return None


def _report(acc, v, case):
    if v is not None:
        sig, msg, obs, exp = v
        acc.violation("C20:" + sig, case, msg, obs, exp)


def _ints2(i):
    for j in range(i, N):
        if i == j:
            for di in range(B):
                v = di * B ** i
                if v < LIMIT:
                    yield v, False
            continue
        for di in range(1, B):
            for dj in range(1, B):
                v = di * B ** i + dj * B ** j
                if v < LIMIT:
                    yield v, True


def run_shard(shard, tier, seed, acc):
    kind = shard[0]
    if kind == "ints2":
        seen = set()
        for n, two in _ints2(shard[1]):
            v = check_int(n, acc, kind)
            acc.case(nontrivial=two, features=("int:two-digit" if two else "int:one-digit",),
                     outcome="ok" if v is None else v[0])
            seen.add(n)
            if two:
                acc.sample({"int": n, "short": ref_encode(n)})
            _report(acc, v, {"kind": "int", "value": n})
        return
    if kind == "ints3":
        i, j, k = shard[1]
        for di in range(1, B):
            for dj in range(1, B):
                for dk in range(1, B):
                    n = di * B ** i + dj * B ** j + dk * B ** k
                    if n >= LIMIT:
                        continue
                    v = check_int(n, acc, kind)
                    acc.case(nontrivial=True, features=("int:three-digit",),
                             outcome="ok" if v is None else v[0])
                    _report(acc, v, {"kind": "int", "value": n})
        return
    if kind == "bound":
        vals = {0, LIMIT - 1}
        for k in range(129):
            for d in (-1, 0, 1):
                vals.add((1 << k) + d)
        for k in range(23):
            for d in (-1, 0, 1):
                vals.add(B ** k + d)
        for n in sorted(x for x in vals if 0 <= x < LIMIT):
            v = check_int(n, acc, kind)
            acc.case(nontrivial=True, features=("int:boundary",), outcome="ok" if v is None else v[0])
            _report(acc, v, {"kind": "int", "value": n})
        # injectivity over the boundary set, by the implementation alone
        enc = {}
        for n in sorted(x for x in vals if 0 <= x < LIMIT):
            try:
                s = impl.uuid_to_short_str(uuid.UUID(int=n))
            except Exception:  # noqa
                continue
            if s in enc and enc[s] != n:
                acc.violation("C20:not-injective", {"kind": "pair", "values": [enc[s], n]},
                              "two UUIDs share one short string", [enc[s], n, s], "distinct strings")
            enc[s] = n
        return
    if kind == "strings":
        bases = STR_BASES
        half = shard[1]
        for n in bases:
            good = ref_encode(n)
            for pos in range(N):
                for ci, ch in enumerate(FOREIGN):
                    if ci % 2 != half:
                        continue
                    s = good[:pos] + ch + good[pos + 1:]
                    v = check_str(s, acc)
                    acc.case(nontrivial=True, features=("str:foreign-char",),
                             outcome="rejected" if v is None else v[0])
                    if pos == 3 and ci < 4:
                        acc.sample({"str": s})
                    _report(acc, v, {"kind": "str", "value": s})
        if half == 0:
            for n in bases:
                good = ref_encode(n)
                for ln in range(0, 25):
                    if ln == N:
                        continue
                    for s in {(good * 2)[:ln], (good * 2)[-ln:] if ln else "", ALPHA[0] * ln, ALPHA[-1] * ln}:
                        v = check_str(s, acc)
                        acc.case(nontrivial=abs(ln - N) <= 1, features=("str:wrong-length",),
                                 outcome="rejected" if v is None else v[0])
                        _report(acc, v, {"kind": "str", "value": s})
        return
    if kind == "frontier":
        top = ref_encode(LIMIT - 1)
        fills = [ALPHA[0] * 20, ALPHA[-1] * 20, top[:20]]
        # exact successor of the largest value, digit-wise
        for fill in fills:
            for a in ALPHA:
                for b in ALPHA:
                    s = fill + a + b
                    exp = ref_decode(s)
                    v = check_str(s, acc)
                    f = "str:frontier-accept" if exp is not None else "str:frontier-reject"
                    acc.case(nontrivial=True, features=(f,),
                             outcome=("accepted" if exp is not None else "rejected") if v is None else v[0])
                    _report(acc, v, {"kind": "str", "value": s})
        # neighbours of 2**128 - 1 in every digit
        for pos in range(N):
            for ch in ALPHA:
                s = top[:pos] + ch + top[pos + 1:]
                exp = ref_decode(s)
                v = check_str(s, acc)
                f = "str:frontier-accept" if exp is not None else "str:frontier-reject"
                acc.case(nontrivial=True, features=(f,),
                         outcome=("accepted" if exp is not None else "rejected") if v is None else v[0])
                _report(acc, v, {"kind": "str", "value": s})
        return
    if kind == "canonical":
        for n in [0, 1, LIMIT - 1, 0xde22bbe043bf448d9b832ee57e663285, B ** 21 + 5]:
            u = uuid.UUID(int=n)
            forms = [str(u), str(u).upper(), u.hex, "urn:uuid:" + str(u), "{" + str(u) + "}", ref_encode(n)]
            for s in forms:
                acc.trans()
                try:
                    got = impl.uuid_from_str(s)
                    obs = str(got)
                except Exception as e:  # noqa
                    obs = type(e).__name__
                ok = obs == str(u)
                acc.case(nontrivial=True, features=("str:canonical",), outcome="ok" if ok else "bad")
                acc.sample({"str": s})
                if not ok:
                    acc.violation("C20:canonical-form", {"kind": "canon", "value": s, "int": n},
                                  "uuid_from_str does not accept a canonical/short spelling", obs, str(u))
        return
    if kind == "insert":
        # wrong length AND a foreign character: one character inserted into / appended to a valid encoding
        half = shard[1]
        for n in STR_BASES:
            good = ref_encode(n)
            for pos in range(N + 1):
                for ci, ch in enumerate(FOREIGN + list("2z")):
                    if ci % 2 != half:
                        continue
                    s = good[:pos] + ch + good[pos:]
                    v = check_str(s, acc)
                    acc.case(nontrivial=True, features=("str:inserted-char",),
                             outcome="rejected" if v is None else v[0])
                    _report(acc, v, {"kind": "str", "value": s})
            for ch in FOREIGN:   # 21 valid characters + one foreign: right length by accident
                for s in (good[:N - 1] + ch, ch + good[1:]):
                    if half == 0:
                        v = check_str(s, acc)
                        acc.case(nontrivial=True, features=("str:foreign-char",),
                                 outcome="rejected" if v is None else v[0])
                        _report(acc, v, {"kind": "str", "value": s})
        return
    if kind == "seq":
        # E2: the codec must have no memory - every sequence of <= 3 operations over a pool of values with
        # different numbers of significant digits; each operation's result is compared with the reference
        import itertools
        ops = [("enc", n) for n in SEQ_POOL] + [("dec", n) for n in SEQ_POOL] + \
              [("fs", t) for t in SEQ_STRINGS]
        for ln in (2, 3):
            for seq in itertools.product(ops, repeat=ln):
                v = run_seq(seq, acc)
                acc.case(nontrivial=True, features=("seq:history",), outcome="ok" if v is None else v[0])
                if ln == 2 and seq[0][1] == LIMIT - 1:
                    acc.sample({"seq": [[o, str(n)] for o, n in seq]})
                _report(acc, v, {"kind": "seq", "ops": [[o, str(n)] for o, n in seq]})
        return
    raise ValueError(shard)


STR_BASES = [0, LIMIT - 1, 0xde22bbe043bf448d9b832ee57e663285, B ** 21, 12345678901234567890]
SEQ_POOL = [LIMIT - 1, 0, 56, B ** 10 + 3, B ** 21 - 1, 0xde22bbe043bf448d9b832ee57e663285]


def _case_variants():
    """Strings for uuid_from_str / uuid_from_short_str inside sequences: valid short strings that differ only
    in letter case (distinct values!), an invalid case variant, canonical spellings in both cases."""
    base = ref_encode(0xde22bbe043bf448d9b832ee57e663285)          # 'hfDoPxAatD8tiFaSAL3oXh'
    out = [base]
    for k, ch in enumerate(base):
        sw = ch.swapcase()
        if sw != ch and sw in IDX:
            out.append(base[:k] + sw + base[k + 1:])
            if len(out) == 3:
                break
    out.append(base.lower())      # contains 'l'/'o'? only if valid it is accepted - the reference decides
    canon = str(uuid.UUID(int=B ** 21 + 5))
    out += [canon, canon.upper()]
    return out


SEQ_STRINGS = _case_variants()


def _ref_from_str(t):
    try:
        return uuid.UUID(t).int
    except ValueError:
        return ref_decode(t)


def run_seq(seq, acc):
    # every sequence starts from a pristine module state (module-level buffers, caches, default
    # arguments are re-created), so a failing sequence is self-contained and replays identically
    importlib.reload(impl)
    for k, (op, n) in enumerate(seq):
        acc.trans()
        if op == "fs":
            exp = _ref_from_str(n)
            exp = "ValueError" if exp is None else exp
            try:
                got = impl.uuid_from_str(n).int
            except Exception as e:  # noqa
                got = type(e).__name__
        elif op == "enc":
            try:
                got = impl.uuid_to_short_str(uuid.UUID(int=n))
            except Exception as e:  # noqa
                got = type(e).__name__
            exp = ref_encode(n)
        else:
            try:
                got = impl.uuid_from_short_str(ref_encode(n)).int
            except Exception as e:  # noqa
                got = type(e).__name__
            exp = n
        if got != exp:
            return ("history-dependent-result", f"operation {k} ({op}) of a sequence gives a wrong result "
                    f"although the codec is a pure function", str(got), str(exp))
    return None


def replay(case, acc):
    if case["kind"] == "int":
        _report(acc, check_int(int(case["value"]), acc, "replay"), case)
    elif case["kind"] == "pair":
        a, b = (int(x) for x in case["values"])
        sa, sb = (impl.uuid_to_short_str(uuid.UUID(int=x)) for x in (a, b))
        if a != b and sa == sb:
            acc.violation("C20:not-injective", case, "two UUIDs share one short string", [a, b, sa],
                          "distinct strings")
    elif case["kind"] == "seq":
        _report(acc, run_seq([(o, n if o == "fs" else int(n)) for o, n in case["ops"]], acc), case)
    elif case["kind"] == "str":
        _report(acc, check_str(case["value"], acc), case)
    else:
        u = uuid.UUID(int=int(case["int"]))
        try:
            obs = str(impl.uuid_from_str(case["value"]))
        except Exception as e:  # noqa
            obs = type(e).__name__
        if obs != str(u):
            acc.violation("C20:canonical-form", case, "uuid_from_str does not accept a canonical/short spelling",
                          obs, str(u))
    acc.case()
