"""C11 — pretty-printed JSON-like data reads back as the same data (DESIGN.md §2 C11).

Space (every member is visited, nothing sampled).  An object is described by a JSON-able *spec*
(lists are lists, ``{"D": [[key, spec], ...]}`` is a dict with that insertion order, ``{"s": n}`` a
string of n characters of a fixed pattern, ``{"i": n}`` an n-digit int, scalars stand for themselves):

  A  all trees with <= N nodes (list / dict nodes with 1..3 children, depth <= 3) over a leaf alphabet
     holding one value of every type the property names; dict keys are inserted in non-sorted order;
     key schemes: str only (JSON + Python mode), str and int mixed (Python mode)
     + the sharing variant of every tree in which a non-empty sub-container occurs twice: the equal
     sub-containers are ONE object referenced repeatedly (also: every count-swept list of B3 twice in a list /
     as two dict values, one object)
  B1 flat lists: all sequences of <= K elements over an element alphabet (short values of several
     types, strings rendered 48 / 100 / 153 characters wide) with ONE sweep element at every position,
     whose length takes every value that puts
        offset + one-line length                     at every value of the one-line window (around 200)
        indent + length of elements i..q (+ ", ")    at every value of the per-line window (around 150)
                                                     for every i <= sweep position <= q
     inside every wrapper context (nesting offset 0, 2, 4, 6 through dict / list chains, with
     siblings before and after so that the separators around the container are exercised)
  B2 flat dicts: the same with the sweep in a value or in a key (one-line window only; a dict has no
     per-line packing)
  B3 lists of m copies of a short pattern, m swept so that both thresholds are crossed by *count*
  S  every scalar of a list of special values (floats needing 17 digits, huge ints, signed zeros, strings
     that look like syntax) alone, as the only list element, as a dict value and as a dict key
  B4 very long flat containers (one-line form 450..1300 characters): must come out wrapped
  Lz lazy results: two results of ONE printer object (fresh instance / module-level pp after reload) for every
     ordered pair of pool objects, colored or no_color each; "create result" and "render result" are separate
     operations in every order (create both then render in either order, render whole or by line, both iterated
     side by side): each result must read back as ITS object
  H  histories on ONE printer object (E2): every sequence of <= 3 renderings, each colored or no_color, of an
     object of a small pool holding every constant / leaf type, on a fresh PrettyPrinter (JSON mode, Python
     mode) and on the module-level ``ak.ppobj.pp`` after ``importlib.reload(ak.ppobj)``; every rendering of
     every history must satisfy the oracle (the no-color output is ``str(result)``: nothing may need stripping)

Oracle (from the statement): the no-color text and the joined line iteration (lines rendered as they are
yielded, and the kept line objects rendered after the iteration has finished) all parse (json.loads
/ ast.literal_eval) to a value that is equal *including types* (True is not 1, 1 is not 1.0); no key
occurs twice in the text of a dict; textual key order is sorted (ints numerically among ints, strings
among strings); no output line is longer than 2 x 200 + the longest single entry (a container that
long on one line is not "wrapped").
"""

import ast
import importlib
import itertools
import json

import ak.ppobj
from ak.ppobj import PrettyPrinter

ID = "C11"
TITLE = "Pretty-printed JSON-like data reads back as the same data"
TECHNIQUE = "bounded exhaustive enumeration of shapes x threshold sweeps x nesting offsets against json/ast round trip"
DESIGN_REF = "§2 C11"
LEVEL_TEXT = ("Every JSON-like shape up to the node bound, and every flat list/dict of the element alphabet with a "
              "sweep element driving the one-line total and every per-line accumulated length through the whole "
              "window around both wrapping thresholds, at nesting offsets 0/2/4/6 in dict and list wrappers, is "
              "printed by the real PrettyPrinter (whole text and line iteration, JSON and Python mode) and read "
              "back with the standard parsers; equality is type-exact, key order and key uniqueness are read "
              "from the text.")
LEVEL_NOTE = ("Small-scope: containers with more than one sweep element, strings outside the fixed pattern "
              "alphabet, nesting deeper than 3 around a threshold container are not covered. Trusted: json.loads, "
              "ast.parse/literal_eval, the spec builder in this file. Layout (indentation, where exactly a line "
              "breaks) is deliberately not part of the oracle: the statement does not fix it.")
RULE = ("case = (object spec, mode), or a history of <= 3 (colored | no_color, object) renderings on one printer object;  the object is rendered by a fresh PrettyPrinter as a whole (plain_text of the "
        "result) and through the line iterator (each line rendered when yielded, and again after the iterator is "
        "exhausted - a consumer may keep the lines); every rendering that differs from the whole text is parsed "
        "and compared as well. Distinct by construction: distinct specs or modes. "
        "Non-trivial: the output has more than one line, or a threshold quantity of the object (offset + one-line "
        "length; indent + run length) lies inside its sweep window.")
ASSUMPTIONS = [
    "strings contain no quote, apostrophe, backslash or control character (property domain); printable ASCII, BMP non-ASCII letters (é ß ж 中, U+00A0, U+FFFD, U+FFFF) and non-BMP characters (U+1F600, "
    "U+20000, U+1D49C) in values and keys",
    "dict keys are str (JSON mode) or str/int (Python mode); bool/None/float keys and keys equal across types are outside the domain",
    "floats are finite",
    "the no-color output is str(result) / str(line) (equal to plain_text() for a no-color palette); a colored "
    "rendering inside a history is judged on its visible text (plain_text()) only",
    "tuples and other non-JSON containers are outside the domain",
    "the same container object may be referenced several times (shared, acyclic); self-containing structures are "
    "outside the domain",
    "'sorted key order' is demanded within each key type (ints numerically, strings by code point); the relative "
    "placement of ints and strings is not demanded",
    "'wrapped over several lines' is read as: no output line exceeds 2 x 200 characters plus the longest single "
    "entry; the exact thresholds (200 / 150) and indentation are layout, not part of the property",
]
REQUIRED_FEATURES = [
    "mode:json", "mode:python", "keys:str", "keys:int+str", "keys:unsorted-insertion",
    "leaf:str", "leaf:str-non-ascii", "leaf:str-non-bmp", "keys:non-bmp", "leaf:int", "leaf:negative", "leaf:float", "leaf:bool", "leaf:none", "leaf:empty-list",
    "leaf:empty-dict", "nest:depth3", "offset:0", "offset:2", "offset:4", "offset:6",
    "thr200:199", "thr200:200", "thr200:201", "thr150:149", "thr150:150", "thr150:151",
    "sweep:list-element", "sweep:dict-value", "sweep:dict-key", "sweep:count",
    "elem:longer-than-line", "long:must-wrap", "scalar:special",
    "lazy:two-results-of-one-printer", "lazy:second-created-before-first-rendered",
    "lazy:results-iterated-side-by-side", "shared:same-container-object-twice", "printer:fresh-instance", "printer:module-level-pp", "printer-reuse:colored-then-no-color",
    "printer-reuse:same-constant-colored-then-no-color", "printer-reuse:no-color-then-colored",
    "printer-reuse:same-kind-twice",
]
# "out:..." features (one-line / multi-line output, list printed on several lines, line holding several
# elements) are observed on the implementation's output; they are counted in the evidence but not required,
# so that a broken implementation cannot make the exploration look vacuous.

PAT = "ab, c: [d] {e} #f = g; é "


def mkstr(n):
    return (PAT * (n // len(PAT) + 1))[:n]


# ------------------------------------------------------------------------------------------ specs
def build(spec):
    if isinstance(spec, list):
        return [build(x) for x in spec]
    if isinstance(spec, dict):
        if "s" in spec:
            return mkstr(spec["s"])
        if "i" in spec:
            return int("7" * spec["i"])
        d = {}
        for k, v in spec["D"]:
            d[k] = build(v)
        return d
    return spec


def build_shared(spec, memo=None):
    """Like build(), but equal non-empty container sub-specs become ONE object referenced several times
    (``d = {...}; [d, d]``): shared sub-objects are ordinary JSON-like data, not cycles."""
    memo = {} if memo is None else memo
    if isinstance(spec, list) or (isinstance(spec, dict) and "D" in spec):
        key = json.dumps(spec, sort_keys=True)
        if key in memo:
            return memo[key]
        if isinstance(spec, list):
            obj = [build_shared(x, memo) for x in spec]
        else:
            obj = {}
            for k, v in spec["D"]:
                obj[k] = build_shared(v, memo)
        if obj:
            memo[key] = obj
        return obj
    return build(spec)


def has_repeated_container(spec):
    """Some non-empty container sub-spec occurs at least twice."""
    seen = set()

    def walk(x):
        if isinstance(x, list) or (isinstance(x, dict) and "D" in x):
            kids = x if isinstance(x, list) else [v for _, v in x["D"]]
            if kids:
                key = json.dumps(x, sort_keys=True)
                if key in seen:
                    return True
                seen.add(key)
            return any(walk(k) for k in kids)
        return False
    return walk(spec)


def canon(v):
    """Type-exact canonical form (dict order ignored)."""
    if v is None:
        return ("n",)
    if v is True or v is False:
        return ("b", v)
    if isinstance(v, int):
        return ("i", v)
    if isinstance(v, float):
        return ("f", repr(v))
    if isinstance(v, str):
        return ("s", v)
    if isinstance(v, list):
        return ("L", tuple(canon(x) for x in v))
    if isinstance(v, dict):
        return ("D", tuple(sorted(((canon(k), canon(x)) for k, x in v.items()), key=repr)))
    return ("?", type(v).__name__, repr(v))


def rlen(v):
    """Length of the one-line rendering of a value (reference, from the documented format)."""
    if isinstance(v, str):
        return len(v) + 2
    if v is None or v is True:
        return 4
    if v is False:
        return 5
    if isinstance(v, (int, float)):
        return len(str(v))
    if isinstance(v, list):
        return 2 + sum(rlen(x) for x in v) + 2 * max(0, len(v) - 1)
    if isinstance(v, dict):
        return 2 + sum(rlen(k) + 2 + rlen(x) for k, x in v.items()) + 2 * max(0, len(v) - 1)
    raise TypeError(v)


def is_flat(v):
    return isinstance(v, (list, dict)) and all(
        not (isinstance(x, (list, dict)) and x) for x in (v.values() if isinstance(v, dict) else v))


def longest_entry(v):
    """Longest rendering of a single leaf (with its key)."""
    best = 0
    if isinstance(v, dict):
        for k, x in v.items():
            if isinstance(x, (list, dict)) and x:
                best = max(best, rlen(k) + 2, longest_entry(x))
            else:
                best = max(best, rlen(k) + 2 + rlen(x))
    elif isinstance(v, list):
        for x in v:
            best = max(best, longest_entry(x) if isinstance(x, (list, dict)) and x else rlen(x))
    else:
        best = rlen(v)
    return best


def depth_of(v):
    if isinstance(v, (list, dict)) and v:
        return 1 + max(depth_of(x) for x in (v.values() if isinstance(v, dict) else v))
    return 0


def shape_class(obj):
    """Coarse class of the object used in signatures (reference quantities only)."""
    long_list = long_dict = nested = False

    def walk(v, off):
        nonlocal long_list, long_dict, nested
        if isinstance(v, (list, dict)) and v:
            if is_flat(v):
                if off + rlen(v) >= 200:
                    if isinstance(v, list):
                        long_list = True
                    else:
                        long_dict = True
            else:
                nested = True
            for x in (v.values() if isinstance(v, dict) else v):
                walk(x, off + 2)
    walk(obj, 0)
    if long_list:
        return "long-flat-list"
    if long_dict:
        return "long-flat-dict"
    return "nested" if nested else "flat-short"


# ------------------------------------------------------------------------------------------ parsing
class _Unparseable(Exception):
    pass


def _json_reject(name):
    raise ValueError("constant " + name)


_TOKEN_RE = None


def diagnose(text, mode):
    """Coarse reason why a text is not a JSON / Python literal (used in signatures only)."""
    global _TOKEN_RE
    import re
    if _TOKEN_RE is None:
        _TOKEN_RE = re.compile(r'\s+|("[^"\n]*")|(-?\d[\w.+-]*)|([A-Za-z_]\w*)|([\[\]{},:])|(.)')
    words = {"json": {"true", "false", "null"}, "py": {"True", "False", "None"}}[mode]
    prev = None        # 'v' value end, 'o' opener, ',' comma, ':' colon
    depth = 0
    for m in _TOKEN_RE.finditer(text):
        s_, n_, w_, p_, x_ = m.groups()
        if m.group(0).isspace():
            continue
        if x_ is not None:
            return "stray-character"
        if w_ is not None and w_ not in words:
            return "foreign-literal"
        if p_ in ("]", "}"):
            depth -= 1
            if depth < 0:
                return "unbalanced"
            if prev == ",":
                return "dangling-comma"
            if prev == ":":
                return "missing-value"
            prev = "v"
            continue
        if p_ == ",":
            if prev in (",", "o", ":", None):
                return "comma-without-value"
            prev = ","
            continue
        if p_ == ":":
            if prev != "v":
                return "colon-without-key"
            prev = ":"
            continue
        # a value starts here (string, number, literal, opener)
        if prev == "v":
            return "missing-comma"
        if p_ in ("[", "{"):
            depth += 1
            prev = "o"
        else:
            prev = "v"
    if depth != 0:
        return "unbalanced"
    return "other"


def parse_text(text, mode):
    """-> (value, key_lists, dup) ; key_lists = textual key order of every dict; dup = a repeated key or None."""
    key_lists = []
    dup = []
    if mode == "json":
        def hook(pairs):
            keys = [k for k, _ in pairs]
            if len(set(keys)) != len(keys):
                dup.append(keys)
            key_lists.append(keys)
            return dict(pairs)
        try:
            value = json.loads(text, object_pairs_hook=hook, parse_constant=_json_reject)
        except ValueError as e:
            raise _Unparseable(f"{type(e).__name__}: {e}")
        return value, key_lists, (dup[0] if dup else None)
    try:
        tree = ast.parse(text, mode="eval")
        value = ast.literal_eval(tree.body)
    except (ValueError, SyntaxError, TypeError, MemoryError, RecursionError) as e:
        import re
        raise _Unparseable(f"{type(e).__name__}: " + re.sub(r" at 0x[0-9a-f]+", "", str(e)))
    for node in ast.walk(tree):
        if isinstance(node, ast.Dict):
            try:
                keys = [ast.literal_eval(k) for k in node.keys]
            except (ValueError, TypeError) as e:
                raise _Unparseable(f"dict key: {e}")
            key_lists.append(keys)
            seen = set()
            for k in keys:
                ck = canon(k)
                if ck in seen and not dup:
                    dup.append(keys)
                seen.add(ck)
    return value, key_lists, (dup[0] if dup else None)


def keys_sorted(keys):
    ints = [k for k in keys if isinstance(k, int) and not isinstance(k, bool)]
    strs = [k for k in keys if isinstance(k, str)]
    return ints == sorted(ints) and strs == sorted(strs)


def _flatten(c, out):
    if c[0] == "L":
        for x in c[1]:
            _flatten(x, out)
    elif c[0] == "D":
        for k, x in c[1]:
            out.append(("key",) + k)
            _flatten(x, out)
    else:
        out.append(c)
    return out


def diff_class(want, got):
    """Coarse description of how two canonical values differ."""
    a, b = _flatten(want, []), _flatten(got, [])
    sa, sb = sorted(a, key=repr), sorted(b, key=repr)
    if sa == sb:
        return "reordered" if a != b else "structure-changed"
    ca, cb = {}, {}
    for x in a:
        ca[x] = ca.get(x, 0) + 1
    for x in b:
        cb[x] = cb.get(x, 0) + 1
    missing = [x for x in ca if cb.get(x, 0) < ca[x]]
    extra = [x for x in cb if ca.get(x, 0) < cb[x]]
    if missing and not extra:
        return "element-dropped"
    if extra and not missing:
        return "element-duplicated"
    kinds = sorted({x[0] for x in missing})
    return "leaf-changed:" + "+".join(kinds)


# ------------------------------------------------------------------------------------------ oracle
def _printer(mode):
    # a fresh printer per rendering: the case must not depend on what was printed before (replayable)
    return PrettyPrinter(fmt_json=(mode == "json"))


WRAP_SLACK = 400


def judge(obj, mode, text, want=None):
    """None or (sig-part, message, observed, expected) for one rendering."""
    try:
        value, key_lists, dup = parse_text(text, mode)
    except _Unparseable as e:
        return ("unparseable:" + diagnose(text, mode) + ":" + shape_class(obj),
                f"{mode} output does not parse: {e}", text, repr(obj)[:400])
    want = want or canon(obj)
    got = canon(value)
    if got != want:
        why = diagnose(text, mode)
        return ("value-differs:" + (diff_class(want, got) if why == "other" else why) + ":" + shape_class(obj),
                f"{mode} output parses to a different value", text, repr(obj)[:400])
    if dup is not None:
        return ("duplicate-key", "a dict key occurs twice in the text", text, repr(dup))
    for keys in key_lists:
        if not keys_sorted(keys):
            ints = [k for k in keys if isinstance(k, int) and not isinstance(k, bool)]
            kinds = "int" if ints != sorted(ints) else "str"
            return ("keys-unsorted:" + kinds, "dict entries are not in sorted key order", keys,
                    "ints ascending, strings ascending")
    limit = WRAP_SLACK + longest_entry(obj) + 2 * depth_of(obj) + 2
    for line in text.split("\n"):
        if len(line) > limit:
            return ("not-wrapped:" + shape_class(obj), "a long container is printed on one line",
                    f"line of {len(line)} characters", f"<= {limit}")
    return None


def observe(printer, obj, colored):
    """One use of a printer object: -> list of (label, text) renderings to be judged, the first is the whole text.

    no_color: the output is ``str(result)`` (and ``str(line)`` for the line iteration) - it must not need any
    stripping; ``plain_text()`` is judged as well when it differs.  colored: the visible text (``plain_text()``)."""
    kw = {} if colored else {"no_color": True}
    res = printer(obj, **kw)
    plain = res.plain_text()
    out = [("", plain if colored else str(res))]
    if not colored and plain != out[0][1]:
        out.append(("plain_text:", plain))
    kept, lines = [], []
    for ln in printer(obj, **kw):                          # line iteration: rendered when yielded ...
        lines.append(ln.plain_text() if colored else str(ln))
        kept.append(ln)
    later = [(ln.plain_text() if colored else str(ln)) for ln in kept]   # ... and the kept line objects afterwards
    joined = "\n".join(lines)
    if joined != out[0][1]:
        out.append(("by-line:", joined))
    if later != lines:
        out.append(("kept-lines:", "\n".join(later)))
    return out


def check_case(spec, mode, acc, shared=False):
    """Run one case; returns (violation-or-None, text, nlines)."""
    obj = build_shared(spec) if shared else build(spec)
    acc.trans(2)
    try:
        renderings = observe(_printer(mode), obj, False)
    except Exception as e:  # noqa
        return (("raises:" + type(e).__name__ + ":" + shape_class(obj),
                 f"printing raised {type(e).__name__}: {e}", repr(e), "text"), None, 0)
    want = canon(obj)
    v = None
    for label, text in renderings:
        v2 = judge(obj, mode, text, want)
        if v2 is not None:
            v = (label + v2[0],) + v2[1:]
            break
    text = renderings[0][1]
    return v, text, text.count("\n") + 1


# ------------------------------------------------------------------------------------------ printer histories (E2)
# One printer object is used several times: colored and no-color renderings of objects from a small pool, in
# every order.  The state is the history; every history starts from a fresh printer object - either a new
# PrettyPrinter instance or the module-level ``ak.ppobj.pp`` after ``importlib.reload(ak.ppobj)``.
H_POOL = [
    True,
    [None, 1],
    {"D": [["k", False], ["s", "ab"]]},
    [True, False, None, 2.5, "x", [], {"D": []}],
    {"D": [["n", -3], ["a", [None, {"D": [["b", True]]}]]]},
    [None, True, False, 7] * 15,
]
H_PRINTERS = ["json", "py", "pp"]          # fresh PrettyPrinter(fmt_json=True/False), module-level pp (Python mode)
H_STEPS = [(c, i) for i in range(len(H_POOL)) for c in (1, 0)]    # (colored, pool index)
H_DEPTH = {"quick": 3, "thorough": 3}


def _history_printer(kind):
    if kind == "pp":
        importlib.reload(ak.ppobj)         # pristine module-level state, pristine ``pp``
        return ak.ppobj.pp
    return ak.ppobj.PrettyPrinter(fmt_json=(kind == "json"))


def _constants_of(v, out):
    if isinstance(v, dict):
        for x in v.values():
            _constants_of(x, out)
    elif isinstance(v, list):
        for x in v:
            _constants_of(x, out)
    elif v is None or v is True or v is False:
        out.add(v)
    return out


def check_history(kind, steps, acc):
    """steps: [{"colored": 0/1, "spec": spec}, ...] -> (violation or None, index of the failing step, features)."""
    mode = "json" if kind == "json" else "py"
    feats = {"printer:module-level-pp" if kind == "pp" else "printer:fresh-instance"}
    try:
        printer = _history_printer(kind)
    except Exception as e:  # noqa
        return ("history:raises:" + type(e).__name__, f"creating the printer raised {e!r}", repr(e), None), 0, feats
    seen_consts = {0: set(), 1: set()}
    for i, st in enumerate(steps):
        obj = build(st["spec"])
        colored = bool(st["colored"])
        before = [bool(x["colored"]) for x in steps[:i]]
        consts = _constants_of(obj, set())
        if not colored and True in before:
            feats.add("printer-reuse:colored-then-no-color")
            if consts & seen_consts[1]:
                feats.add("printer-reuse:same-constant-colored-then-no-color")
        if colored and False in before:
            feats.add("printer-reuse:no-color-then-colored")
        if before and before[-1] == colored:
            feats.add("printer-reuse:same-kind-twice")
        seen_consts[1 if colored else 0] |= consts
        where = ("first" if not before else ("after-colored" if True in before else "after-no-color")) + \
            ("-colored" if colored else "-no-color")
        acc.trans(2)
        try:
            renderings = observe(printer, obj, colored)
        except Exception as e:  # noqa
            return (f"printer-reuse:{where}:raises:{type(e).__name__}",
                    f"step {i}: printing raised {type(e).__name__}: {e}", repr(e), "text"), i, feats
        want = canon(obj)
        for label, text in renderings:
            v = judge(obj, mode, text, want)
            if v is not None:
                return (f"printer-reuse:{where}:{label}{v[0]}", f"step {i} of a history on one printer object: {v[1]}",
                        v[2], v[3]), i, feats
    return None, None, feats


# Lazy results: a result object is created now and rendered later; another result of the same printer is created
# (and maybe rendered) in between.  Every result must read back as ITS object.
L_SCHEDULES = [("C1 C2 R1 R2", "whole"), ("C1 C2 R1 R2", "lines"), ("C1 C2 R2 R1", "whole"), ("C1 C2 R2 R1", "lines"),
               ("C1 R1 C2 R2", "whole"), ("C1 R1 C2 R2", "lines"), ("C1 C2 ZIP", "lines")]


def check_lazy(spec, acc):
    kind = spec["printer"]
    mode = "json" if kind == "json" else "py"
    items = {"1": spec["a"], "2": spec["b"]}
    objs = {k: build(v["spec"]) for k, v in items.items()}
    results, texts = {}, {}

    def render(k, lines):
        colored = bool(items[k]["colored"])
        r = results[k]
        if lines:
            return "\n".join((ln.plain_text() if colored else str(ln)) for ln in r)
        return r.plain_text() if colored else str(r)
    try:
        printer = _history_printer(kind)
        for op in spec["schedule"].split():
            acc.trans(1)
            if op[0] == "C":
                it = items[op[1]]
                results[op[1]] = printer(objs[op[1]], **({} if it["colored"] else {"no_color": True}))
            elif op == "ZIP":
                out = {"1": [], "2": []}
                its = {k: iter(results[k]) for k in ("1", "2")}
                live = ["1", "2"]
                while live:
                    for k in list(live):
                        try:
                            ln = next(its[k])
                            out[k].append(ln.plain_text() if items[k]["colored"] else str(ln))
                        except StopIteration:
                            live.remove(k)
                texts = {k: "\n".join(v) for k, v in out.items()}
            else:
                texts[op[1]] = render(op[1], spec["render"] == "lines")
    except Exception as e:  # noqa
        return (f"lazy-result:raises:{type(e).__name__}", f"raised {type(e).__name__}: {e}", repr(e), "text")
    for k in ("1", "2"):
        v = judge(objs[k], mode, texts[k])
        if v is not None and judge(objs["2" if k == "1" else "1"], mode, texts[k]) is None:
            v = ("renders-the-other-result",) + v[1:]       # one class, whatever the two objects are
        if v is not None:
            return (f"lazy-result:{spec['schedule'].replace(' ', '-')}:result-{k}:{v[0]}",
                    f"result {k} of '{spec['schedule']}' on one printer object: {v[1]}", v[2], v[3])
    return None


def _run_L(shard, tier, acc):
    _, kind = shard
    n = 0
    for ia, ib, ca, cb, (sched, rend) in itertools.product(range(len(H_POOL)), range(len(H_POOL)), (0, 1), (0, 1),
                                                          L_SCHEDULES):
        spec = {"printer": kind, "a": {"colored": ca, "spec": H_POOL[ia]}, "b": {"colored": cb, "spec": H_POOL[ib]},
                "schedule": sched, "render": rend}
        case = {"mode": "json" if kind == "json" else "py", "lazy": spec}
        v = check_lazy(spec, acc)
        feats = {"lazy:two-results-of-one-printer", "printer:module-level-pp" if kind == "pp" else "printer:fresh-instance"}
        if sched != "C1 R1 C2 R2":
            feats.add("lazy:second-created-before-first-rendered")
        if sched.endswith("ZIP"):
            feats.add("lazy:results-iterated-side-by-side")
        acc.case(nontrivial=sched != "C1 R1 C2 R2", features=sorted(feats),
                 outcome=("ok:lazy:" + sched) if v is None else v[0], states=4, traces=2)
        if n % 499 == 0:
            acc.sample(case)
        n += 1
        _report(acc, v, case)
    acc.expired()


def _run_H(shard, tier, acc):
    _, kind, first = shard
    n = 0
    for depth in range(1, H_DEPTH[tier] + 1):
        for rest in itertools.product(range(len(H_STEPS)), repeat=depth - 1):
            seq = (first,) + rest
            steps = [{"colored": H_STEPS[j][0], "spec": H_POOL[H_STEPS[j][1]]} for j in seq]
            case = {"mode": "json" if kind == "json" else "py", "history": {"printer": kind, "steps": steps}}
            v, _, feats = check_history(kind, steps, acc)
            kinds = "".join("C" if x["colored"] else "N" for x in steps)
            acc.case(nontrivial=len(steps) > 1, features=sorted(feats),
                     outcome=("ok:history:" + kinds) if v is None else v[0], states=len(steps), traces=len(steps))
            if n % 211 == 0:
                acc.sample(case)
            n += 1
            _report(acc, v, case)
        if acc.expired():
            return


def _report(acc, v, case):
    if v is not None:
        sig, msg, obs, exp = v
        acc.violation(f"C11:{case['mode']}:{sig}", case, msg, obs, exp)


# ------------------------------------------------------------------------------------------ tiers
def _params(tier):
    if tier == "thorough":
        return {
            "A_nodes": 6, "A_leaves": ["a, é\U0001F600", 7, -2.5, True, None, [], {"D": []}],
            "E": [7, None, False, "ab", [], {"s": 46}, {"s": 98}, {"s": 151}],
            "K": 4, "E5": [7, {"s": 46}, {"s": 98}],
            "Edict": [7, None, "ab", [], {"s": 58}, {"s": 118}], "Kdict": 3,
            "win200": (185, 215), "win150": (140, 160),
            "ctx": [(), ("D",), ("L",), ("D", "D"), ("D", "L"), ("L", "D"), ("L", "L"),
                    ("D", "D", "D"), ("D", "D", "L"), ("D", "L", "D"), ("D", "L", "L"),
                    ("L", "D", "D"), ("L", "D", "L"), ("L", "L", "D"), ("L", "L", "L")],
            "sweep_kinds": ["s", "i"], "count_max": 260,
        }
    return {
        "A_nodes": 5, "A_leaves": ["a, é\U0001F600", 7, -2.5, True, None, [], {"D": []}],
        "E": [7, None, "ab", {"s": 46}, {"s": 98}, {"s": 151}],
        "K": 4, "E5": [],
        "Edict": [7, None, "ab", {"s": 58}, {"s": 118}], "Kdict": 3,
        "win200": (193, 207), "win150": (144, 156),
        "ctx": [(), ("D",), ("L",), ("D", "D"), ("L", "L"), ("D", "L"), ("D", "D", "D"), ("L", "L", "L")],
        "sweep_kinds": ["s"], "count_max": 130,
    }


COUNT_PATTERNS = [[7], [None], ["ab"], [7, None], [True, "x", 2.5], [[], {"D": []}], [12345678, -3],
                  [0.30000000000000004, 1e+22, -1e-07, 0, -0.0, 12345678901234567890, "", " x ", False]]
SCALARS = [0, 1, -1, 7, 12345678901234567890, -98765432109876543210, 0.0, -0.0, 2.5, -2.5, 0.1, 1 / 3,
           0.30000000000000004, 1e+22, 1.5e+300, -1e-07, 5e-324, 123456789.125, True, False, None,
           "", "a", "é", " lead", "trail ", "a, b", "[1, 2]", "{x: 1}", "null", "None", "1", "#", "a: b",
           [], {"D": []}, {"s": 197}, {"s": 198}, {"s": 300},
           # BMP non-ASCII and non-BMP characters (emoji, CJK extension B, mathematical letters): in the domain,
           # the statement excludes only quote, backslash and control characters
           "ß", "ж", "中", "éßж中", "\U0001F600", "\U00020000", "\U0001D49C", "status \U0001F600",
           "\U0001F600\U00020000\U0001D49C", "a\U0001F600b, \U0001D49C: [中]", "\uFFFD", "\u00A0x", "\uFFFF"]
LONG_CASES = [("L", 7, 150), ("L", 7, 400), ("L", "ab", 120), ("L", None, 260), ("L", {"s": 30}, 20),
              ("D", 7, 60), ("D", {"s": 30}, 15), ("D", None, 100)]


def bounds(tier):
    p = _params(tier)
    return {
        "A": {"max_nodes": p["A_nodes"], "max_children": 3, "max_depth": 3, "leaves": p["A_leaves"],
              "key_schemes": ["json/str", "python/str", "python/int+str"]},
        "B1": {"max_elements": p["K"], "element_alphabet": p["E"], "extra_5_element_alphabet": p["E5"],
               "one_line_window": p["win200"], "per_line_window": p["win150"], "sweep_kinds": p["sweep_kinds"],
               "numeric_sweep_contexts": "top, D, L"},
        "B2": {"max_entries": p["Kdict"], "value_alphabet": p["Edict"], "sweep": ["value", "key"]},
        "B3": {"patterns": COUNT_PATTERNS, "copies": [1, p["count_max"]]},
        "B4": LONG_CASES, "S": SCALARS,
        "H": {"printers": ["fresh PrettyPrinter(fmt_json=True)", "fresh PrettyPrinter()", "ak.ppobj.pp after reload"],
              "steps": "colored / no_color rendering of one of %d pool objects" % len(H_POOL),
              "max_history": H_DEPTH[tier], "pool": H_POOL[:-1] + ["[None, True, False, 7] * 15"]},
        "contexts(offset=2*len)": ["".join(c) or "top" for c in p["ctx"]],
        "modes": ["json", "python"],
    }


# ------------------------------------------------------------------------------------------ contexts
def wrap(ctx, x):
    """Put spec x inside the chain of containers ``ctx`` (outermost first), siblings before and after."""
    for level, kind in enumerate(reversed(ctx)):
        if kind == "D":
            x = {"D": [["z", None], ["m", x], ["a", level]]}
        else:
            x = [level, x, "t"]
    return x


# ------------------------------------------------------------------------------------------ family A
A_KEYS = {"str": ["b\U0001F600", "10", "2"], "mixed": ["ж\U00020000", 10, 2]}


def _compositions(total, parts):
    if parts == 1:
        yield (total,)
        return
    for first in range(1, total - parts + 2):
        for rest in _compositions(total - first, parts - 1):
            yield (first,) + rest


def gen_trees(size, depth, leaves, scheme):
    """All specs with exactly ``size`` nodes and container depth <= depth."""
    if size == 1:
        yield from leaves
        return
    if depth == 0:
        return
    for nchild in (1, 2, 3):
        if size - 1 < nchild:
            continue
        for comp in _compositions(size - 1, nchild):
            pools = [list(gen_trees(s, depth - 1, leaves, scheme)) for s in comp]
            for children in itertools.product(*pools):
                yield list(children)
                yield {"D": [[A_KEYS[scheme][i], c] for i, c in enumerate(children)]}


def _has_multi_dict(spec):
    if isinstance(spec, list):
        return any(_has_multi_dict(x) for x in spec)
    if isinstance(spec, dict) and "D" in spec:
        return len(spec["D"]) >= 2 or any(_has_multi_dict(v) for _, v in spec["D"])
    return False


# ------------------------------------------------------------------------------------------ family B
def _elem_len(e):
    return rlen(build(e))


def _sweep_spec(kind, n):
    """Spec of a sweep element rendered n characters wide, or None if impossible."""
    if kind == "s":
        return {"s": n - 2} if n >= 2 else None
    return {"i": n} if n >= 1 else None


def sweep_lengths_list(others, p, offset, win200, win150):
    """Rendered lengths of the sweep element (at index p among len(others)+1 elements) that hit the windows."""
    k = len(others) + 1
    lens = [_elem_len(e) for e in others]
    lens.insert(p, 0)
    out = set()
    const = offset + sum(lens) + 2 * k
    for v in range(win200[0], win200[1] + 1):
        out.add(v - const)
    for i in range(0, p + 1):
        for q in range(p, k):
            const = offset + 2 + sum(lens[i:q + 1]) + 2 * (q - i)
            for v in range(win150[0], win150[1] + 1):
                out.add(v - const)
    return sorted(x for x in out if x >= 1)


def shards(tier):
    p = _params(tier)
    sh = []
    for n in range(1, p["A_nodes"] + 1):
        parts = 1 if n <= 4 else (8 if n == 5 else 48)
        for r in range(parts):
            sh.append(("A", n, r, parts))
    nctx = len(p["ctx"])
    for c in range(nctx):
        for kind in p["sweep_kinds"]:
            if kind == "i" and c > 2:
                continue      # the numeric sweep element only at offsets 0 and 2
            for k in range(1, p["K"] + 1):
                for pos in range(k):
                    if k == p["K"]:
                        for first in range(len(p["E"])):
                            sh.append(("B1", c, kind, k, pos, first))
                    else:
                        sh.append(("B1", c, kind, k, pos, None))
            if p["E5"]:
                for pos in range(5):
                    sh.append(("B1x", c, kind, 5, pos, None))
        for what in ("value", "key"):
            sh.append(("B2", c, what))
        sh.append(("B3", c))
    sh.append(("B4",))
    sh.append(("S",))
    for kind in H_PRINTERS:
        sh.append(("Lz", kind))
        for first in range(len(H_STEPS)):
            sh.append(("H", kind, first))
    return sh


def _offset_features(ctx):
    return ("offset:%d" % (2 * len(ctx)),)


def _leaf_features(obj, feats):
    def walk(v, d):
        if isinstance(v, dict):
            if not v:
                feats.add("leaf:empty-dict")
            ks = list(v.keys())
            if ks:
                if all(isinstance(k, str) for k in ks):
                    feats.add("keys:str")
                elif any(isinstance(k, int) for k in ks):
                    feats.add("keys:int+str" if any(isinstance(k, str) for k in ks) else "keys:int")
                if any(isinstance(k, str) and any(ord(ch) > 0xFFFF for ch in k) for k in ks):
                    feats.add("keys:non-bmp")
                if len(ks) > 1 and not keys_sorted(ks):
                    feats.add("keys:unsorted-insertion")
            for x in v.values():
                walk(x, d + 1)
        elif isinstance(v, list):
            if not v:
                feats.add("leaf:empty-list")
            for x in v:
                walk(x, d + 1)
        elif isinstance(v, str):
            feats.add("leaf:str")
            if any(ord(ch) > 0xFFFF for ch in v):
                feats.add("leaf:str-non-bmp")
            elif any(ord(ch) > 127 for ch in v):
                feats.add("leaf:str-non-ascii")
        elif v is None:
            feats.add("leaf:none")
        elif isinstance(v, bool):
            feats.add("leaf:bool")
        elif isinstance(v, float):
            feats.add("leaf:float")
            if v < 0:
                feats.add("leaf:negative")
        elif isinstance(v, int):
            feats.add("leaf:int")
            if v < 0:
                feats.add("leaf:negative")
    walk(obj, 0)


def _one(acc, spec, mode, feats, nontrivial_hint=False, sample=False, shared=False):
    case = {"mode": mode, "spec": spec}
    if shared:
        case["shared"] = 1
    v, text, nlines = check_case(spec, mode, acc, shared)
    if v is not None and shared:
        v = ("shared-object:" + v[0],) + v[1:]
    feats = set(feats)
    if shared:
        feats.add("shared:same-container-object-twice")
    feats.add("mode:json" if mode == "json" else "mode:python")
    if v is None:
        feats.add("out:one-line" if nlines == 1 else "out:multi-line")
        outcome = "ok:%s-lines" % (nlines if nlines < 6 else "6+")
    else:
        outcome = v[0]
    acc.case(nontrivial=bool(nontrivial_hint or nlines > 1), features=sorted(feats), outcome=outcome)
    acc.note_max("output_lines", nlines)
    if text is not None:
        acc.note_max("output_chars", len(text))
    if sample:
        acc.sample(case)
    _report(acc, v, case)
    return nlines


def _run_A(shard, p, acc):
    _, n, r, parts = shard
    idx = 0
    for scheme, modes in (("str", ("json", "py")), ("mixed", ("py",))):
        for spec in gen_trees(n, 3, p["A_leaves"], scheme):
            idx += 1
            if idx % parts != r:
                continue
            if scheme == "mixed" and not _has_multi_dict(spec):
                continue   # identical to the str scheme: not a distinct case
            obj = build(spec)
            feats = set()
            _leaf_features(obj, feats)
            if depth_of(obj) >= 3:
                feats.add("nest:depth3")
            for mode in modes:
                _one(acc, spec, mode, feats, sample=(idx % 977 == 0))
            if has_repeated_container(spec):
                # the sharing variant: every group of equal sub-containers is one object referenced repeatedly
                for mode in modes:
                    _one(acc, spec, mode, feats, shared=True)
            if idx % 512 == 0 and acc.expired():
                return


def _thr_features(X, offset, feats, win200, win150):
    """Reference threshold quantities of the flat container X placed at ``offset``."""
    hit = False
    total = offset + rlen(X)
    if win200[0] <= total <= win200[1]:
        feats.add("thr200:%d" % total)
        hit = True
    if isinstance(X, list) and total >= 200 and len(X) <= 8:
        lens = [rlen(e) for e in X]
        for i in range(len(lens)):
            acc_len = offset + 2
            for q in range(i, len(lens)):
                acc_len += lens[q] + (2 if q > i else 0)
                if win150[0] <= acc_len <= win150[1]:
                    feats.add("thr150:%d" % acc_len)
                    hit = True
        if any(offset + 2 + ln > 150 for ln in lens):
            feats.add("elem:longer-than-line")
    return hit


def _run_B1(shard, p, acc):
    fam, c, kind, k, pos, first = shard
    ctx = p["ctx"][c]
    offset = 2 * len(ctx)
    alphabet = p["E5"] if fam == "B1x" else p["E"]
    n = 0
    for others in itertools.product(alphabet, repeat=k - 1):
        if first is not None and k > 1 and alphabet.index(others[0]) != first:
            continue
        if first is not None and k == 1 and first != 0:
            continue
        for wl in sweep_lengths_list(others, pos, offset, p["win200"], p["win150"]):
            w = _sweep_spec(kind, wl)
            if w is None:
                continue
            xs = list(others)
            xs.insert(pos, w)
            spec = wrap(ctx, xs)
            X = build(xs)
            feats = set(_offset_features(ctx))
            feats.add("sweep:list-element")
            _leaf_features(X, feats)
            hit = _thr_features(X, offset, feats, p["win200"], p["win150"])
            for mode in ("json", "py"):
                nl = _one(acc, spec, mode, feats, nontrivial_hint=hit, sample=(n % 1499 == 0))
                if not ctx and nl >= 3:
                    acc.feat("out:list-on-several-lines")
                    if nl < len(xs) + 2:
                        acc.feat("out:line-with-several-elements")
            n += 1
        if acc.expired():
            return


def _run_B2(shard, p, acc):
    _, c, what = shard
    ctx = p["ctx"][c]
    offset = 2 * len(ctx)
    keys = ["k3", "k1", "k2"]
    n = 0
    for k in range(1, p["Kdict"] + 1):
        for pos in range(k):
            for others in itertools.product(p["Edict"], repeat=k - 1):
                vals = list(others)
                vals.insert(pos, None)   # placeholder of the sweep entry
                # constant part of the one-line length
                const = offset + 2 + 2 * (k - 1)
                for j, v in enumerate(vals):
                    if j != pos:
                        const += len(keys[j]) + 2 + 2 + _elem_len(v)
                for total in range(p["win200"][0], p["win200"][1] + 1):
                    rest = total - const      # = rendered key + ": " + rendered value of the sweep entry
                    if what == "value":
                        wl = rest - (len(keys[pos]) + 2) - 2
                        if wl < 2:
                            continue
                        entries = [[keys[j], ({"s": wl - 2} if j == pos else v)] for j, v in enumerate(vals)]
                    else:
                        kl = rest - 2 - 1      # value is the int 7 (1 char)
                        if kl - 2 - len(keys[pos]) < 0:
                            continue
                        # key must keep its rank: prefix with the original key name
                        key = keys[pos] + mkstr(kl - 2 - len(keys[pos])).replace(" ", "_")
                        if len(key) != kl - 2:
                            continue
                        entries = [[(key if j == pos else keys[j]), (7 if j == pos else v)]
                                   for j, v in enumerate(vals)]
                    xspec = {"D": entries}
                    X = build(xspec)
                    spec = wrap(ctx, xspec)
                    feats = set(_offset_features(ctx))
                    feats.add("sweep:dict-" + what)
                    _leaf_features(X, feats)
                    hit = _thr_features(X, offset, feats, p["win200"], p["win150"])
                    for mode in ("json", "py"):
                        _one(acc, spec, mode, feats, nontrivial_hint=hit, sample=(n % 997 == 0))
                    n += 1
        if acc.expired():
            return


def _run_B3(shard, p, acc):
    _, c = shard
    ctx = p["ctx"][c]
    offset = 2 * len(ctx)
    for pat in COUNT_PATTERNS:
        for m in range(1, p["count_max"] + 1):
            xs = (pat * (m // len(pat) + 1))[:m]
            X = build(xs)
            spec = wrap(ctx, xs)
            feats = set(_offset_features(ctx))
            feats.add("sweep:count")
            _leaf_features(X, feats)
            _thr_features(X, offset, feats, p["win200"], p["win150"])
            hit = 150 <= offset + rlen(X) <= 250
            if not ctx:
                for twice in ([xs, xs], {"D": [["b", xs], ["a", xs]]}):
                    for mode in ("json", "py"):
                        _one(acc, twice, mode, feats, nontrivial_hint=hit, shared=True)
            for mode in ("json", "py"):
                nl = _one(acc, spec, mode, feats, nontrivial_hint=hit, sample=(m == 70))
                if not ctx and nl >= 3:
                    acc.feat("out:list-on-several-lines")
                    if nl < len(xs) + 2:
                        acc.feat("out:line-with-several-elements")
        if acc.expired():
            return


def _long_spec(kind, elem, count):
    if kind == "L":
        return [elem] * count
    return {"D": [["k%03d" % (count - i), elem] for i in range(count)]}


def _run_B4(p, acc):
    for ctx in p["ctx"][:3]:
        for kind, elem, count in LONG_CASES:
            xspec = _long_spec(kind, elem, count)
            spec = wrap(ctx, xspec)
            feats = set(_offset_features(ctx))
            feats.add("long:must-wrap")
            _leaf_features(build(xspec), feats)
            for mode in ("json", "py"):
                _one(acc, spec, mode, feats, nontrivial_hint=True)


def _run_S(p, acc):
    for sc in SCALARS:
        forms = [sc, [sc], [1, sc, None], {"D": [["k", sc]]}, {"D": [["k", sc], ["a", [sc, [sc]]]]}]
        for spec in forms:
            feats = set()
            _leaf_features(build(spec), feats)
            feats.add("scalar:special")
            for mode in ("json", "py"):
                _one(acc, spec, mode, feats, sample=False)
        # as a dict key: strings in both modes, ints in Python mode
        if isinstance(sc, str) or (isinstance(sc, dict) and "s" in sc):
            for mode in ("json", "py"):
                kf = {"scalar:special"}
                _leaf_features({"zz": 1, build(sc): 2}, kf)
                _one(acc, {"D": [["zz", 1], [build(sc), 2]]}, mode, kf)
        elif isinstance(sc, int) and not isinstance(sc, bool):
            _one(acc, {"D": [["zz", 1], [sc, 2], [5, 3]]}, "py", {"scalar:special", "keys:int+str"})


def run_shard(shard, tier, seed, acc):
    p = _params(tier)
    fam = shard[0]
    if fam == "A":
        return _run_A(shard, p, acc)
    if fam in ("B1", "B1x"):
        return _run_B1(shard, p, acc)
    if fam == "B2":
        return _run_B2(shard, p, acc)
    if fam == "B3":
        return _run_B3(shard, p, acc)
    if fam == "B4":
        return _run_B4(p, acc)
    if fam == "S":
        return _run_S(p, acc)
    if fam == "H":
        return _run_H(shard, tier, acc)
    if fam == "Lz":
        return _run_L(shard, tier, acc)
    raise ValueError(shard)


def replay(case, acc):
    if "lazy" in case:
        _report(acc, check_lazy(case["lazy"], acc), case)
        acc.case()
        return
    if "history" in case:
        v, _, _ = check_history(case["history"]["printer"], case["history"]["steps"], acc)
        _report(acc, v, case)
        acc.case()
        return
    v, _, _ = check_case(case["spec"], case["mode"], acc, bool(case.get("shared")))
    if v is not None and case.get("shared"):
        v = ("shared-object:" + v[0],) + v[1:]
    _report(acc, v, case)
    acc.case()


# ------------------------------------------------------------------------------------------ selftest
def selftest():
    """The oracle accepts what the repository's tests accept and rejects planted damage."""
    from ak.ppobj import pp
    obj = {"d": {1: 23, "a": 17, "c": [1, 20, 2]}, "ddd": "aaa", "a": 2, "ccc": 80, "z": 7, 3: None}
    text = pp(obj, no_color=True).plain_text()
    assert judge(obj, "py", text) is None, judge(obj, "py", text)
    assert '"ccc": 80' in text                     # tests/test_ppobj.py test_complex_object
    j = {"n": None, "t": True, "f": False}
    jt = PrettyPrinter(fmt_json=True)(j, no_color=True).plain_text()
    assert judge(j, "json", jt) is None and "null" in jt and "true" in jt   # test_pprint_in_json_fmt
    # planted damage must be seen
    assert judge([1, 2, 3], "json", "[1, 2]")[0].startswith("value-differs:element-dropped")
    assert judge([1, 2, 3], "json", "[1, 3, 2]")[0].startswith("value-differs:reordered")
    assert judge([1, 2], "json", "[1, 2, 2]")[0].startswith("value-differs:element-duplicated")
    assert judge([True], "json", "[1]")[0].startswith("value-differs:leaf-changed")
    assert judge([1], "json", "[1.0]")[0].startswith("value-differs:leaf-changed")
    assert judge({"a": 1, "b": 2}, "json", '{"b": 2, "a": 1}')[0] == "keys-unsorted:str"
    assert judge({2: 1, 10: 2}, "py", '{10: 2, 2: 1}')[0] == "keys-unsorted:int"
    assert judge({"a": 1}, "json", '{"a": 1, "a": 1}')[0] == "duplicate-key"
    assert judge({"a": 1}, "py", '{"a": 1, "a": 1}')[0] == "duplicate-key"
    assert judge([None], "json", "[None]")[0].startswith("unparseable:foreign-literal")
    assert judge([1, 2], "py", "[1,\n, 2]")[0].startswith("unparseable:comma-without-value")
    assert judge([1, 2], "json", "[1\n 2]")[0].startswith("unparseable:missing-comma")
    assert judge([1, {"a": 2}], "json", '[1, {"a": 2},]')[0].startswith("unparseable:dangling-comma")
    assert judge([1, 2], "json", "[1, 2")[0].startswith("unparseable:unbalanced")
    assert judge([7] * 300, "json", json.dumps([7] * 300))[0].startswith("not-wrapped")
    assert rlen(["ab", None, {"k": 1}, []]) == len('["ab", None, {"k": 1}, []]')
