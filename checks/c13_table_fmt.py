"""C13 — a table's reported format string reproduces the table (DESIGN.md §2 C13).

Explicit-state search over the life-cycle machine of one PPTable, for every table of the alphabet:

  table     = column description tuple (quick: every description alone + pairs over COLS2_QUICK; thorough:
              all pairs + triples over COLS3; fixed, ranged and default widths, enum modifiers, break-by,
              repeated fields, hidden fields) x (initial record limits, record set) out of COMBOS: limits
              none / '*' / '1:1' / '2:0' / '3:3' / '2:2' with 3, 4 or 6 records; with '1:1' the longest
              values sit in the skipped part; '3:3' x 6 records and '2:2' x 4 records are truncated only
              because the empty lines of a break-by column use up visible slots
  operations= print | fmt = str(fmt) | fmt = "" | fmt = ";1:1" | fmt = ";0:1" | fmt = ";3:3" | fmt = ";*" |
              fmt = "*" | fmt = <other explicit format> | rebuild (replace the table by
              PPTable(records, fmt=str(fmt), same fields / types / header))
  state     = reached by replaying the operation path on a fresh table (tables cannot be copied);
              every state check starts from the module / class level state of a fresh interpreter
              (mc.hist_render.StateSnapshot); canonical key = (reference model of the format,
              printed-since-last-format-change flag, str(table.fmt)); merged states have the same future
              because set_fmt rebuilds every column object from the format (negotiated widths and the 'lines skipped' flag are the only memory and
              both show in str(fmt)).
  invariant (every distinct state):  s = str(table.fmt)
      (a) `fmt = s` is accepted and the rendering afterwards == the rendering of the state;
      (b) PPTable(records, fmt=s, ...) is accepted and renders the same;
      (c) `fmt = e` for e in "", ";", ";;" leaves rendering and reported columns as they are;
      (d) s describes the columns and limits the reference model says the table has.
Oracle: rendering equality (differential) + a 20-line reference parser of the documented fmt grammar.
"""

import itertools
import re

from mc import hist_render as H
from models import render_objs as R

ID = "C13"
TITLE = "A table's reported format string reproduces the table"
TECHNIQUE = ("explicit-state search (BFS, replay from a fresh table, canonical state keys) over the table "
             "life-cycle machine for every table of a column-description alphabet; differential oracle")
DESIGN_REF = "§2 C13"
LEVEL_TEXT = ("For every table built from <= 2 (quick) / <= 3 (thorough) column descriptions, four initial "
              "record limits (one with a zero) and two record sets, every state reachable by <= 3 / <= 4 life-cycle operations "
              "is visited; in each state str(table.fmt) is fed to the setter and to the constructor and the "
              "renderings are compared; empty formats must change nothing.")
LEVEL_NOTE = ("Bounded: column alphabet of 22 descriptions over six fields (two with parentheses in the name), two record sets, depth of the "
              "life-cycle. Trusted: the small reference parser of the fmt grammar in this file. Renderings are "
              "compared without colors (C10 covers colors).")
RULE = ("case = one distinct state (canonical key) of one table's life-cycle machine, reached by the shortest "
        "operation path; evaluations = invariant checks (a)-(d) in that state. Non-trivial: the table has been "
        "printed since its format was last changed, so the serialized format carries negotiated widths / "
        "knows whether lines were skipped.")
ASSUMPTIONS = [
    "tables have at least one visible column and are built with an explicit `fields` list (a format using "
    "value paths 'name<-path' cannot be rebuilt from str(fmt): paths are not part of the reported format and "
    "not named in the property's quantifier)",
    "records are not modified during the table's life",
    "min width <= max width",
]
REQUIRED_FEATURES = ["col:field-name-with-parenthesis", "col:fixed", "col:ranged", "col:default-width", "col:modifier", "col:break-by",
                     "col:repeated-field", "col:hidden", "limits:none", "limits:star", "limits:1:1", "limits:2:0", "limits:3:3", "limits:2:2", "limits:2:None", "limits:None:1",
                     "col:typed-field-explicit-1-999", "col:typed-field-default-width",
                     "window:truncated-though-records<=limits",
                     "state:fresh", "state:printed", "state:re-formatted", "state:printed-lines-skipped",
                     "op:rebuild-accepted", "op:set-own-fmt-accepted", "fmt:width-annotation", "fmt:limits-omitted"]

# SQL-style field names with parentheses; 'size' is a prefix of 'size(kb)' up to the parenthesis
FIELDS = ["id", "name", "st", "size", "size(kb)", "count(*)", "code"]
# 'code' has a field type with its own width limits: a column without widths means 4-8 for it, not 1-999
CODE_WIDTHS = (4, 8)
COLS = ["id:3", "name:5", "st:12",                     # fixed (name:5 truncates)
        "id:1-4", "name:2-6", "name:3-20", "st:4-30",    # ranged
        "id", "name", "st",                              # default widths
        "st/val", "st/name:3-20", "st/full:20",          # enum modifiers
        "id!:2", "st!", "st/name!:3-8", "name!",         # break-by
        "name:-1",                                       # hidden field
        "size(kb)", "size(kb):2-12", "count(*)", "size:3",   # field names containing '(' (sql columns)
        "code:1-999", "code"]                            # typed field: explicit 1-999 vs the type's own 4-8
COLS3 = ["size(kb)", "name:2-6", "name:3-20", "st", "st/val", "st/name!:3-8", "id!:2", "name!", "name:-1", "st:4-30"]
# pairs over this sub-alphabet in the quick tier (all descriptions as single columns; all pairs in thorough)
COLS2_QUICK = ["name:2-6", "name:3-20", "st", "st/val", "st/name:3-20", "id!:2", "st!", "st/name!:3-8",
               "name!", "name:-1", "size(kb)", "count(*)", "code:1-999"]
LIMITS = {"none": "", "star": ";*", "1:1": ";1:1", "2:0": ";2:0", "3:3": ";3:3", "2:2": ";2:2",
          "2:None": "", "None:1": ""}
# one-sided limits can only be given through the constructor argument `limits=`; the documentation allows
# "a tuple of two optional integers" and records are hidden only when both are set
ARG_LIMITS = {"2:None": (2, None), "None:1": (None, 1)}
# (initial limits, record set).  '3:3' x big and '2:2' x four are the window where, with a break-by column,
# the empty break lines use up visible slots: n_first + n_last + 1 - #break lines < #records <= n_first + n_last,
# i.e. the table is truncated although it has no more records than the limits allow lines.
COMBOS = [("none", "small"), ("none", "big"), ("star", "big"), ("1:1", "small"), ("1:1", "big"), ("2:0", "big"),
          ("3:3", "big"), ("2:2", "four"), ("2:None", "big"), ("None:1", "big")]
RECORDS = {
    "small": [(1, "ab", 10, 7, 1234, 3, "x1"), (2, "abcdefgh", 10, 70, 12, 11, "never-seen"),
              (3, "abc", 999, 700, 5, 2, "abcde")],
    "big": [(1, "ab", 10, 7, 1, 3, "x1"), (22, "abcdefghij", 10, 70, 123456, 11, "abcdefghijkl"),
            (333, "abc", 999, 7, 12, 2, "abcde"), (4, None, 7, 7000, 1, 1234567, "y"),
            (5, "abcdefg", 20, 7, 1234, 5, "abcdefghi"), (6, "a", 20, 70, 2, 3, "z9")],
    "four": [(1, "ab", 10, 7, 1, 3, "x1"), (1, "abcdefghi", 10, 70, 12345, 12, "abcdefghijkl"),
             (2, "abc", 999, 7, 12, 2, "abc"), (3, "abc", 7, 700, 1, 1, "q")],
}
OTHER_FMT = "name:2-7,id!:3"
# (fmt = ";" and fmt = ";;" are applied in *every* state by invariant (c); as transitions they lead to the
# state fmt = "" leads to)
OPS = ["print", "set:self", "set:empty", "set:lim11", "set:lim01", "set:lim33", "set:limall",
       "set:star", "set:other", "rebuild"]
_SET = {"set:empty": "", "set:lim11": ";1:1", "set:lim01": ";0:1", "set:lim33": ";3:3",
        "set:limall": ";*", "set:star": "*", "set:other": OTHER_FMT}
EMPTY_FORMATS = ["", ";", ";;"]


def bounds(tier):
    return {"column_descriptions": len(COLS), "columns_per_table":
            ("1 over all descriptions, 2 over %d descriptions" % len(COLS2_QUICK)) if tier == "quick" else
            "1..2 over all descriptions, 3 over %d descriptions" % len(COLS3),
            "initial_limits_x_records": [list(c) for c in COMBOS],
            "record_sets": {k: len(v) for k, v in RECORDS.items()},
            "operations": OPS, "depth": 3 if tier == "quick" else 4}


def _tables(tier):
    tuples = [(c,) for c in COLS]
    if tier == "thorough":
        tuples += list(itertools.product(COLS, repeat=2)) + list(itertools.product(COLS3, repeat=3))
    else:
        tuples += list(itertools.product(COLS2_QUICK, repeat=2))
    out = []
    for tup in tuples:
        if all(c.endswith(":-1") for c in tup):
            continue                       # no visible column: outside the domain
        for lim, rec in COMBOS:
            out.append((tup, lim, rec))
    return out


def shards(tier):
    n = len(_tables(tier))
    k = 97 if tier == "quick" else 193          # prime: every shard gets every (limits, records) combination
    return [("tables", i, k) for i in range(min(k, n))]


# ------------------------------------------------------------------------- reference parser / model
_ANNOT = re.compile(r"\(\d+\)$")


def parse_col(descr):
    """documented grammar  name[/modifier][!][:width | :min-max[(actual)] | :-1]  ->  column tuple."""
    descr = descr.strip()
    head, _, width = descr.partition(":")
    head, width = head.strip(), width.strip()
    brk = head.endswith("!")
    if brk:
        head = head[:-1]
    name, _, mod = head.partition("/")
    width = _ANNOT.sub("", width)
    if width == "":
        lo = hi = None
    elif width == "-1":
        lo = hi = -1
    elif "-" in width:
        a, b = width.split("-")
        lo, hi = int(a), int(b)
    else:
        lo = hi = int(width)
    return (name, mod or None, brk, lo, hi)


def parse_fmt(s):
    """-> (columns or None when the section is empty / '*' is kept as '*', limits)
    limits: 'absent' | None (unlimited) | (n_first, n_last)."""
    parts = s.split(";")
    cols_s = parts[0].strip()
    lim_s = parts[1].strip() if len(parts) > 1 else ""
    if cols_s in ("", "*"):
        cols = cols_s
    else:
        cols = [parse_col(c) for c in cols_s.split(",")]
    if lim_s == "":
        lim = "absent"
    elif lim_s == "*":
        lim = None
    else:
        a, b = lim_s.split(":")
        lim = (int(a), int(b))
    return cols, lim


def safe_parse(s):
    try:
        return parse_fmt(s)
    except Exception:  # noqa   (a reported format the documented grammar cannot read)
        return "unreadable", "unreadable"


def cols_match(reported, model):
    """reported columns (from str(fmt)) describe the model columns; a width the model leaves open
    (None) matches anything."""
    if len(reported) != len(model):
        return False
    for r, m in zip(reported, model):
        # modifier 'full' is the documented default presentation of an enum: no modifier == 'full'
        if (r[0], r[1] or "full", r[2]) != (m[0], m[1] or "full", m[2]):
            return False
        if m[3] is not None and (r[3], r[4]) != (m[3], m[4]):
            return False
    return True


class Model:
    """What the documented semantics of fmt strings say the table's format is."""

    def __init__(self, fmt):
        cols, lim = parse_fmt(fmt)
        self.cols = [c for c in cols if c[3] != -1]
        self.limits = None if lim == "absent" else lim
        self.printed = False
        self.rebuilt = False
        self.reformatted = False

    def set_fmt(self, fmt):
        cols, lim = parse_fmt(fmt)
        if cols == "*":
            self.cols = [(f, None, False, None, None) for f in FIELDS]
        elif cols != "":
            self.cols = [c for c in cols if c[3] != -1]
        if lim != "absent":
            self.limits = lim
        self.printed = False
        self.reformatted = True

    def key(self):
        return (tuple(self.cols), self.limits, self.printed)


# ------------------------------------------------------------------------- the real table
class Rejected(Exception):
    def __init__(self, op, exc):
        super().__init__(f"{op}: {type(exc).__name__}: {exc}")
        self.op, self.exc = op, exc


def render(table):
    return table.ch_text(no_color=True).plain_text()


def new_table(spec, enum, fmt=None):
    """The table of `spec`; with `fmt` given: a table rebuilt from that format string alone."""
    from ak.ppobj import PPTable, FieldType
    tup, lim, rec = spec
    kw = {}
    if fmt is None:
        fmt = ",".join(tup) + LIMITS[lim]
        if lim in ARG_LIMITS:
            kw["limits"] = ARG_LIMITS[lim]
    types = {"st": enum, "code": FieldType(min_width=CODE_WIDTHS[0], max_width=CODE_WIDTHS[1])}
    return PPTable(list(RECORDS[rec]), fields=list(FIELDS), fields_types=types, fmt=fmt, header="T", **kw)


class Life:
    """One table + its model, driven through a path of operations."""

    def __init__(self, spec):
        self.spec = spec
        self.enum = R.make_enum()
        tup, lim, rec = spec
        try:
            self.table = new_table(spec, self.enum)
        except Exception as e:  # noqa  -- every table of the alphabet is described by a valid format
            raise Rejected("construct", e)
        self.model = Model(",".join(tup) + LIMITS[lim])
        self.skipped = False
        self.n_ops = 0

    def apply(self, op):
        """Apply one operation to table and model. Raises Rejected if the table refuses a format."""
        self.n_ops += 1
        m = self.model
        if op == "print":
            text = render(self.table)
            m.printed = True
            self.skipped = "records skipped" in text
            return
        if op == "set:self":
            s = str(self.table.fmt)
            try:
                self.table.fmt = s
            except Exception as e:  # noqa
                raise Rejected(op, e)
            # semantically nothing changes; the table is "freshly formatted" again
            m.printed = False
            m.reformatted = True
            return
        if op == "rebuild":
            s = str(self.table.fmt)
            try:
                self.table = new_table(self.spec, self.enum, fmt=s)
            except Exception as e:  # noqa
                raise Rejected(op, e)
            # a constructor without a limits section means "no limits"; that is only a change when the
            # reported format left the limits out, which is claimed to be harmless (nothing was skipped)
            if safe_parse(s)[1] == "absent":
                m.limits = None
            m.printed = False
            m.rebuilt = True
            return
        fmt = _SET[op]
        try:
            self.table.fmt = fmt
        except Exception as e:  # noqa
            raise Rejected(op, e)
        m.set_fmt(fmt)


def replay_path(spec, path):
    life = Life(spec)
    for op in path:
        life.apply(op)
    return life


def state_key(life):
    return (life.model.key(), str(life.table.fmt))


# ------------------------------------------------------------------------- invariants of one state
def _sig_suffix(s):
    return "width-annotation" if "(" in s else "plain"


def check_state(spec, path, acc):
    """Evaluate invariants (a)-(d) in the state reached by `path`. -> (outcome label, features)."""
    case = {"table": {"columns": list(spec[0]), "limits": spec[1], "records": spec[2]}, "path": list(path)}
    H.pristine_state().restore()        # module / class level state of ak as in a fresh interpreter
    base = replay_path(spec, path)
    acc.trans(base.n_ops)
    s = str(base.table.fmt)
    feats = []
    if "(" in s:
        feats.append("fmt:width-annotation")
    rep_cols, rep_lim = safe_parse(s)
    if rep_lim == "absent":
        feats.append("fmt:limits-omitted")
    label = "ok"

    def bad(sig, msg, obs, exp):
        nonlocal label
        acc.violation("C13:" + sig, case, msg, obs, exp)
        label = "viol:" + sig

    acc.trans(1)
    try:
        r0 = render(replay_path(spec, path).table)
    except Exception as e:  # noqa  -- every format used here is valid: the table must be printable
        bad("state-cannot-be-rendered", f"a table brought into this state by valid operations cannot be printed: "
            f"{type(e).__name__}", f"{s!r}: {e}", "a rendering")
        return label, feats, base
    if "records skipped" in r0:
        feats.append("state:renders-with-skipped-lines")
        lim = base.model.limits
        if lim and len(RECORDS[spec[2]]) <= lim[0] + lim[1]:
            feats.append("window:truncated-though-records<=limits")    # break lines use up visible slots

    # (d) the reported format describes the format the table has
    if not isinstance(rep_cols, list) or not cols_match(rep_cols, base.model.cols):
        bad("reported-columns-differ", "str(table.fmt) does not describe the table's columns", s,
            [list(c) for c in base.model.cols])
    if rep_lim != "absent" and rep_lim != base.model.limits:
        bad("reported-limits-differ", "str(table.fmt) reports other record limits than were set", s,
            base.model.limits)

    # (a) the setter accepts it and it reproduces the rendering
    t = replay_path(spec, path).table
    acc.trans(2)
    try:
        t.fmt = s
        r1 = render(t)
    except Exception as e:  # noqa
        bad("setter-rejects-own-fmt:" + _sig_suffix(s), f"table.fmt = str(table.fmt) raised {type(e).__name__}",
            f"{s!r}: {e}", "accepted")
    else:
        if r1 != r0:
            bad("setter-changes-rendering:" + _sig_suffix(s), "table.fmt = str(table.fmt) changed the rendering",
                {"fmt": s, "rendering": r1}, r0)
        s1 = str(t.fmt)
        c1, _ = safe_parse(s1)
        if not isinstance(c1, list) or not cols_match(c1, base.model.cols) or c1 != rep_cols:
            bad("setter-changes-format", "str(table.fmt) after fmt = str(fmt) describes other columns / width "
                "bounds than before", s1, s)

    # (b) the constructor accepts it and it reproduces the rendering
    acc.trans(2)
    try:
        t2 = new_table(spec, base.enum, fmt=s)
        r2 = render(t2)
    except Exception as e:  # noqa
        bad("constructor-rejects-own-fmt:" + _sig_suffix(s),
            f"PPTable(records, fmt=str(table.fmt)) raised {type(e).__name__}", f"{s!r}: {e}", "accepted")
    else:
        if r2 != r0:
            bad("constructor-changes-rendering:" + _sig_suffix(s),
                "PPTable(records, fmt=str(table.fmt)) renders differently", {"fmt": s, "rendering": r2}, r0)
        c2, _ = safe_parse(str(t2.fmt))
        if not isinstance(c2, list) or not cols_match(c2, base.model.cols):
            bad("constructor-changes-format", "the table rebuilt from str(table.fmt) reports other columns",
                str(t2.fmt), s)

    # (c) empty and separators-only formats change nothing
    for e_fmt in EMPTY_FORMATS:
        t3 = replay_path(spec, path).table
        acc.trans(2)
        try:
            t3.fmt = e_fmt
            r3 = render(t3)
        except Exception as e:  # noqa
            bad("empty-fmt-rejected", f"table.fmt = {e_fmt!r} raised {type(e).__name__}", str(e), "accepted")
            continue
        if r3 != r0:
            bad("empty-fmt-changes-rendering", f"table.fmt = {e_fmt!r} changed the rendering",
                {"fmt_before": s, "fmt_after": str(t3.fmt), "rendering": r3}, r0)
        c3, l3 = safe_parse(str(t3.fmt))
        if not isinstance(c3, list) or not cols_match(c3, base.model.cols) or c3 != rep_cols or (
                l3 != "absent" and l3 != base.model.limits):
            bad("empty-fmt-changes-format", f"table.fmt = {e_fmt!r} changed the reported format", str(t3.fmt), s)
    return label, feats, base


def explore_table(spec, depth, acc):
    """BFS over the life-cycle machine of one table; every distinct state is checked once."""
    tup = spec[0]
    tfeats = set()
    fields_seen = []
    for c in tup:
        name, mod, brk, lo, hi = parse_col(c)
        if lo == -1:
            tfeats.add("col:hidden")
        elif lo is None:
            tfeats.add("col:default-width")
        elif lo == hi:
            tfeats.add("col:fixed")
        else:
            tfeats.add("col:ranged")
        if mod:
            tfeats.add("col:modifier")
        if "(" in name:
            tfeats.add("col:field-name-with-parenthesis")
        if name == "code":
            tfeats.add("col:typed-field-explicit-1-999" if lo == 1 else "col:typed-field-default-width")
        if brk:
            tfeats.add("col:break-by")
        if name in fields_seen and lo != -1:
            tfeats.add("col:repeated-field")
        if lo != -1:
            fields_seen.append(name)
    tfeats.add("limits:" + spec[1])

    try:
        init = replay_path(spec, ())
    except Rejected as r:
        acc.trans(1)
        acc.violation("C13:valid-fmt-rejected", {"table": {"columns": list(tup), "limits": spec[1], "records": spec[2]},
                                                 "path": []},
                      f"the constructor rejected a valid format string: {r}", str(r), "accepted")
        acc.case(nontrivial=False, features=sorted(tfeats), outcome="viol:valid-fmt-rejected")
        return
    seen = {state_key(init): ()}
    frontier = [()]
    level = 0
    while frontier:
        nxt = []
        for path in frontier:
            label, feats, life = check_state(spec, path, acc)
            m = life.model
            sfeats = set(feats) | tfeats
            if not path:
                sfeats.add("state:fresh")
            if m.printed:
                sfeats.add("state:printed")
                if life.skipped:
                    sfeats.add("state:printed-lines-skipped")
            if m.reformatted:
                sfeats.add("state:re-formatted")
            acc.case(nontrivial=m.printed, features=sorted(sfeats),
                     outcome=f"{label}:{'printed' if m.printed else 'unprinted'}:"
                             f"{'annot' if 'fmt:width-annotation' in feats else 'plain'}:"
                             f"{'nolim' if 'fmt:limits-omitted' in feats else 'lim'}", traces=6)
            if m.printed and len(path) == 2 and "col:ranged" in tfeats:
                acc.sample({"table": {"columns": list(tup), "limits": spec[1], "records": spec[2]},
                            "path": list(path), "fmt": str(life.table.fmt)})
            if level >= depth:
                continue
            for op in OPS:
                p2 = path + (op,)
                try:
                    k2 = state_key(replay_path(spec, p2))
                except Rejected as r:
                    acc.trans(len(p2))
                    acc.feat("transition-rejected:" + r.op)
                    if r.op not in ("set:self", "rebuild"):
                        acc.violation("C13:valid-fmt-rejected", {"table": {"columns": list(tup), "limits": spec[1],
                                                                           "records": spec[2]}, "path": list(p2)},
                                      f"a valid format string was rejected: {r}", str(r), "accepted")
                    continue              # set:self / rebuild rejections are reported by the invariant of `path`
                acc.trans(len(p2))
                if op == "rebuild":
                    acc.feat("op:rebuild-accepted")
                elif op == "set:self":
                    acc.feat("op:set-own-fmt-accepted")
                if k2 not in seen:
                    seen[k2] = p2
                    nxt.append(p2)
        frontier = nxt
        level += 1
    acc.note_max("states_per_table", len(seen))


def run_shard(shard, tier, seed, acc):
    H.pristine_state()                  # snapshot before the first table of this process exists
    _, i, k = shard
    depth = 3 if tier == "quick" else 4
    for n, spec in enumerate(_tables(tier)):
        if n % k != i:
            continue
        explore_table(spec, depth, acc)
        if acc.expired():
            return


def replay(case, acc):
    H.pristine_state()
    t = case["table"]
    spec = (tuple(t["columns"]), t["limits"], t["records"])
    path = tuple(case["path"])
    try:
        label, feats, life = check_state(spec, path, acc)
    except Rejected as r:
        if r.op not in ("set:self", "rebuild") or not path:
            acc.violation("C13:valid-fmt-rejected", case, f"a valid format string was rejected: {r}", str(r),
                          "accepted")
        else:                               # the rejection is what check_state reports for the prefix
            label, feats, life = check_state(spec, path[:-1], acc)
    acc.case(nontrivial=True, outcome="replay")


def selftest():
    """The reference parser reads the formats spelled out in tests/test_ppobj.py the way the tests expect."""
    assert parse_fmt("id:10,level:15") == ([("id", None, False, 10, 10), ("level", None, False, 15, 15)], "absent")
    assert parse_fmt(" id:5,id:10,  level:11;1:0")[1] == (1, 0)
    assert parse_fmt("id, status/name, status/full!:3-10(7);*") == (
        [("id", None, False, None, None), ("status", "name", False, None, None), ("status", "full", True, 3, 10)],
        None)
    assert parse_fmt(";20:20;") == ("", (20, 20)) and parse_fmt("*;*") == ("*", None)
    m = Model("id:1-2,name:-1;1:2")
    assert m.cols == [("id", None, False, 1, 2)] and m.limits == (1, 2)
    m.set_fmt(";*")
    assert m.limits is None and m.cols == [("id", None, False, 1, 2)]
