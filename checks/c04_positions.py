"""C04 — source positions are exact and cover the text (DESIGN.md §2 C04).

Space (every member is visited, nothing sampled):
  texts   : every concatenation of <= n pieces of the piece alphabet (a prefix code, so distinct piece
            sequences are distinct texts)
  forms   : the text given as ``str`` and as list of lines (thorough: also as a tuple of lines)
  configs : the three tokenizer configurations of models/positions.py
  grammars: for every lexically valid text, every grammar of ``grammar_specs`` (trailing / leading
            nullable children, all-empty inner node, factorized rule with nullable remainder in both
            factorization modes, empty production reached by roll-back out of a longer alternative as
            last / first child, a bracket-less ListProds, a ProdSequence)
Oracle: models/positions.py (own scanner, own line arithmetic).  Obligations per (text, form, config):
  * real token list == reference token list (names and spans; values are not judged), ``$END$`` empty,
    not before the end of the last token, inside the text
  * unmatched character  =>  LexicalError whose src_pos.line is the line of that character
  * raw tree: leaves in document order are exactly the non-skipped tokens; a node that matched nothing
    has an empty span at the start of the following non-skipped token (``$END$`` position at the end);
    an inner node spans first token start .. last token end of the leaves under it;
    get_orig_text(node) == slice of the text between the node's positions (== lexeme for a leaf)
  * after the default cleanup every surviving node still has the span it had before
Sequences: every ordered pair (t1, t2) of the text pool (all texts of <= 2 pieces over six pieces plus ten
longer ones: unclosed spans, closers without opener, unmatched characters, spans closing on the same / a later
line, texts a grammar rejects) on ONE freshly constructed parser object, (a) t1 parsed (errors caught by the
caller) then t2 judged, (b) a token generator over t1 advanced by one token and left suspended while t2 is
judged, then resumed, (c) config iii: the list-of-lines object of t1 parsed, edited in place so that its lines are
those of t2 (appended / inserted blank / re-indented lines among them), parsed again.  Obligation: t2 is handled exactly as t2 alone; the resumed generator delivers t1's tokens.
Every reported case is self-contained: a violation seen on re-used objects of the single-text space is re-run
on freshly constructed ones and reported from there (or as a recorded sequence of texts).
Trailing blanks of a line: the statement does not say whether they are tokenized (the code strips them
for ``str`` input and keeps them for a list of lines); both behaviours are accepted for both forms.
"""

import itertools

from ak import llparser as impl
from models import positions as P

ID = "C04"
TITLE = "Source positions are exact and cover the text"
TECHNIQUE = "bounded exhaustive text enumeration against a reference position calculator"
DESIGN_REF = "§2 C04"
LEVEL_TEXT = ("Every text of up to n pieces over a 13-piece alphabet (words, blanks, line breaks, form feed and "
              "U+2028, quoted strings and a lone quote, comment openers/closers, an unmatched character), as "
              "str and as list of lines, under three tokenizer configurations and ten grammars, is tokenized and parsed by the "
              "real code; every token, leaf, empty node and inner node span and every get_orig_text "
              "result is compared with an independent position calculator.")
LEVEL_NOTE = ("Small-scope: texts longer than the piece bound, other token patterns and wider characters "
              "are not covered. Trusted: the hand-written scanner and line arithmetic in "
              "models/positions.py; the tree walk takes the tree's shape from the real parser (only "
              "positions are judged here, derivations belong to C01).")
RULE = ("case = one (text, input form, tokenizer configuration) — texts are distinct piece sequences of a "
        "uniquely decodable code — or one ordered pair of pool texts handled by one freshly constructed "
        "parser object (non-trivial unless the first text is a valid text without span token). Non-trivial: lexically valid text in which a token is the first of a line after "
        "line 1, or a skipped token (blanks/comment) or a span token occurs, or the unmatched character "
        "is on a line after line 1.")
ASSUMPTIONS = [
    "a text has at least one line; a list of lines contains no line-break characters",
    "token patterns never match the empty string",
    "a line ends at a line-feed only (the tokenizer splits a str at '\\n', get_orig_text and the list form "
    "do the same); form feed, U+2028 and the like are ordinary characters of a line",
    "whether trailing blanks of a line are tokenized is not fixed by the property: both accepted",
    "an unclosed span token is outside the statement: counted, not judged",
    "token values and ParsingError positions are not compared (not part of the statement)",
]
REQUIRED_FEATURES = [
    "input:str", "input:list", "cfg:i", "cfg:ii", "cfg:iii", "lines:one", "lines:many", "blank-line",
    "line>1:first-token-at-col-1", "line>1:first-token-indented", "line1:first-token-indented",
    "trailing-blanks", "span:closes-same-line", "span:closes-later-line", "span:opener-first-on-line",
    "value-narrower-than-match", "eol-comment", "lexical-error", "lexical-error:line>1",
    "tree:empty-node", "tree:empty-last-child", "tree:empty-first-child", "tree:all-empty-inner-node",
    "tree:empty-node-at-end", "tree:empty-node-before-skipped-text",
    "tree:empty-node-by-rollback:last-child", "tree:empty-node-by-rollback:first-child",
    "exotic-line-break:in-skipped-whitespace", "exotic-line-break:in-eol-comment",
    "exotic-line-break:in-span-token", "exotic-line-break:in-string-token", "exotic-line-break:token-follows",
    "tree:list-template",
    "tree:sequence-template", "tree:factorized",
    "sequence:first:unclosed-span", "sequence:first:unmatched-character", "sequence:first:valid-text",
    "sequence:first:valid-text-with-span", "sequence:first:rejected-by-a-grammar",
    "sequence:second:valid-text", "sequence:second:valid-text-with-span", "sequence:second:unclosed-span",
    "sequence:second:unmatched-character", "sequence:mode:parse-then-parse", "sequence:mode:interleaved",
    "sequence:generator-suspended", "sequence:mode:same-list-edited-in-place", "edit:line-appended",
    "edit:blank-line-inserted", "edit:line-re-indented",
]

# "\x0c" (form feed) and "\u2028" (line separator) are line boundaries for str.splitlines() but not for the
# tokenizer contract (lines end at "\n" only): for the token patterns they are blanks / ordinary characters.
# The lone quote lets them (and anything else) get inside a string token.
PIECES = ["ab", "c", " ", "\n", "+", "'q r'", "/*", "*/", "//x", "#", "\x0c", "\u2028", "'"]
BASIC = PIECES[:10]                               # thorough: one piece more over the basic pieces
REDUCED = ["ab", " ", "\n", "+", "/*", "*/"]     # thorough: longer texts over the pieces that matter most
ALPHABETS = {"full": PIECES, "basic": BASIC, "reduced": REDUCED}

_TIERS = {
    # spaces: (alphabet, length of the shard prefix, min pieces, max pieces); in the "full" space only the
    # texts that contain at least one of the three pieces beyond BASIC are visited (the others belong to
    # the "basic" space), so no text is visited twice
    "quick": {"spaces": (("basic", 2, 2, 5), ("full", 2, 2, 4)), "forms": ("str", "list")},
    "thorough": {"spaces": (("basic", 3, 2, 6), ("full", 2, 2, 5), ("reduced", 3, 7, 7)),
                 "forms": ("str", "list", "tuple")},
}
N_BASIC = len(BASIC)


def bounds(tier):
    t = _TIERS[tier]
    return {"spaces": [{"pieces": ALPHABETS[a], "min_pieces": 0 if a == "basic" else (1 if a == "full" else lo),
                        "max_pieces": hi,
                        "restriction": "contains a piece beyond the basic ten" if a == "full" else None}
                       for a, _, lo, hi in t["spaces"]],
            "forms": list(t["forms"]), "configs": sorted(P.CONFIGS),
            "sequences": {"pool_texts": len(seq_pool()), "ordered_pairs": len(seq_pool()) ** 2,
                          "modes": list(SEQ_MODES), "configs": list(SEQ_CFGS), "grammars": sorted(SEQ_GRAMMARS)},
            "grammars": [g[0] for g in grammar_specs(P.CONFIGS["iii"])]}


def shards(tier):
    t = _TIERS[tier]
    sh = [("short",)]
    for alpha, plen, lo, hi in t["spaces"]:
        k = len(ALPHABETS[alpha])
        if lo < plen:                   # the texts shorter than the shard prefix of this space
            sh.append(("upto", alpha, lo, plen - 1))
        sh += [("pfx", alpha, pfx, max(lo, plen), hi) for pfx in itertools.product(range(k), repeat=plen)]
    # sequences of two texts on one freshly constructed parser object: all ordered pairs over seq_pool()
    sh += [("seq", cfg_name, mode, i) for cfg_name in SEQ_CFGS for mode in SEQ_MODES for i in range(len(seq_pool()))
           if not (mode == "same-list-edited-in-place" and cfg_name != "iii")]
    return sh


def _texts(shard, tier):
    if shard[0] == "short":             # the empty text and the one-piece texts
        yield ""
        for p in PIECES:
            yield p
        return
    if shard[0] == "upto":              # ("upto", alphabet, lo, hi): all texts of lo..hi pieces
        _, alpha_name, lo, hi = shard
        alpha = ALPHABETS[alpha_name]
        for n in range(lo, hi + 1):
            for idx in itertools.product(range(len(alpha)), repeat=n):
                if alpha_name == "full" and max(idx) < N_BASIC:
                    continue
                yield "".join(alpha[i] for i in idx)
        return
    _, alpha_name, pfx_idx, lo, hi = shard
    alpha = ALPHABETS[alpha_name]
    pfx = "".join(alpha[i] for i in pfx_idx)
    only_new = alpha_name == "full"
    pfx_new = max(pfx_idx) >= N_BASIC
    for extra in range(max(0, lo - len(pfx_idx)), hi - len(pfx_idx) + 1):
        for rest in itertools.product(range(len(alpha)), repeat=extra):
            if only_new and not pfx_new and (not rest or max(rest) < N_BASIC):
                continue
            yield pfx + "".join(alpha[i] for i in rest)


# ------------------------------------------------------------------------------------ grammars
def grammar_specs(cfg):
    """[(name, productions factory, kwargs)] — factories, because template objects are single-use."""
    W, PL = cfg.word, cfg.plus
    atoms = [W] + ([cfg.string, cfg.kwc] if cfg.string else [])

    def base():
        return {"E": [("ITEMS",)], "ITEMS": [("ITEM", "ITEMS"), None], "ATOM": [(a,) for a in atoms]}

    def g_trailing():
        g = base()
        g.update({"ITEM": [("ATOM", "OPT")], "OPT": [(PL,), None]})
        return g

    def g_both_ends():
        g = base()
        g.update({"ITEM": [("PRE", "ATOM", "POST")], "PRE": [(PL,), None], "POST": [(PL,), None]})
        return g

    def g_factorized():
        g = base()
        g.update({"ITEM": [("ATOM", PL, "ATOM"), ("ATOM", PL, "OPT"), ("ATOM",)], "OPT": [(PL,), None]})
        return g

    def g_all_empty():
        g = base()
        g.update({"ITEM": [("ATOM", "TAIL")], "TAIL": [("NA", "NB")], "NA": [None], "NB": [(PL,), None]})
        return g

    def g_list():
        return {"E": [("LIST",)], "LIST": impl.ListProds(None, "ITEM", None, None),
                "ITEM": [("ATOM", "OPT"), (PL,)], "OPT": [(PL,), None], "ATOM": [(a,) for a in atoms]}

    def g_seq():
        return {"E": [("SEQ", "OPT")], "SEQ": impl.ProdSequence(*atoms, "PP"), "PP": [(PL, "OPT")],
                "OPT": [(PL,), None]}

    def g_only_empty():
        # start symbol that may match nothing at all / leading empty node before everything
        return {"E": [("OPT", "ITEMS", "OPT")], "ITEMS": [("ATOM", "ITEMS"), None],
                "OPT": [(PL,), None], "ATOM": [(a,) for a in atoms]}

    def g_rollback_last():
        # ARG's non-empty alternative starts with a token that may also follow ARG (the next ITEM): both
        # productions are in the parse-table cell; "ab c" takes (ATOM PL), consumes 'c', fails, and rolls
        # back straight into the empty production
        g = base()
        g.update({"ITEM": [("ATOM", "ARG")], "ARG": [("ATOM", PL), None]})
        return g

    def g_rollback_first():
        g = base()
        g.update({"ITEM": [("PRE", "ATOM")], "PRE": [("ATOM", PL), None]})
        return g

    return [("trailing-opt", g_trailing, {}), ("nullable-first-and-last", g_both_ends, {}),
            ("rollback-empty-last", g_rollback_last, {}), ("rollback-empty-first", g_rollback_first, {}),
            ("factorized-smart", g_factorized, {}),
            ("factorized-plain", g_factorized, {"smart_factorization": False}),
            ("all-empty-inner", g_all_empty, {}), ("list-template", g_list, {}),
            ("sequence-template", g_seq, {}), ("empty-around", g_only_empty, {})]


# ------------------------------------------------------------------------------------ judging
class Viol(Exception):
    def __init__(self, sig, msg, obs, exp):
        super().__init__(sig)
        self.sig, self.msg, self.obs, self.exp = sig, msg, obs, exp


def _mk_input(text, form):
    lines = text.split("\n")
    if form == "str":
        return text, lines
    if form == "list":
        return list(lines), lines
    return tuple(lines), lines


def _tok_view(t):
    return [t.name, t.value, list(t.start_pos.coords), list(t.end_pos.coords)]


def _compare_tokens(actual, ref):
    """actual: real tokens without $END$; ref: Scan.  -> None or (sig, msg, obs, exp)."""
    rt = ref.tokens
    for i, (a, r) in enumerate(zip(actual, rt)):
        a_s, a_e = a.start_pos.coords, a.end_pos.coords
        exp = [r.name, r.value, list(r.start), list(r.end)]
        if a.name != r.name:
            return ("token-list-differs", f"token #{i} has another name", _tok_view(a), exp)
        if a_s != r.start:
            if a_s[0] < r.start[0]:
                return ("token-starts-on-earlier-line",
                        f"token #{i} is the first of its line but its span starts on an earlier line",
                        _tok_view(a), exp)
            return ("token-start", f"token #{i} starts elsewhere", _tok_view(a), exp)
        if a_e != r.end:
            return ("span-token-end" if r.is_span else "token-end", f"token #{i} ends elsewhere",
                    _tok_view(a), exp)
    if len(actual) != len(rt):
        return ("token-list-differs", "number of tokens differs",
                [_tok_view(a) for a in actual], [repr(r) for r in rt])
    return None


def judge_tokens(tokenize, cfg, inp, lines, tx, feats):
    """-> ('ok', Scan, end_pos) | ('lexerr',) | ('unclosed', label); raises Viol."""
    raw = P.scan(lines, cfg)
    stripped_lines = P.strip_lines(lines)
    refs = [raw] if stripped_lines == lines else (
        [P.scan(stripped_lines, cfg), raw] if isinstance(inp, str) else [raw, P.scan(stripped_lines, cfg)])
    ref0 = refs[0]
    feats |= ref0.feats
    # features are taken from the reference scan, never from what the code under test did
    if ref0.status == "lexerr":
        feats.add("lexical-error")
        if ref0.error_line > 1:
            feats.add("lexical-error:line>1")
    elif ref0.status == "unclosed":
        feats.add("unclosed-span")
    try:
        toks = list(tokenize(inp, "t"))
        err = None
    except impl.LexicalError as e:
        toks, err = None, e
    if ref0.status == "lexerr":
        if err is None:
            raise Viol("unmatched-character-not-reported", "a character no pattern matches did not raise "
                       "LexicalError", [_tok_view(t) for t in toks][:8], f"LexicalError line {ref0.error_line}")
        line = getattr(getattr(err, "src_pos", None), "line", None)
        if line != ref0.error_line:
            raise Viol("lexical-error-line", "LexicalError names another line", line, ref0.error_line)
        return ("lexerr", ref0)
    if ref0.status == "unclosed":
        return ("unclosed", "LexicalError" if err is not None else "tokens")
    if err is not None:
        raise Viol("spurious-lexical-error", "LexicalError for a text every character of which is matched",
                   [getattr(getattr(err, "src_pos", None), "coords", None)], "tokens")
    if not toks or toks[-1].name != "$END$":
        raise Viol("token-list-differs", "token list does not end with $END$", [_tok_view(t) for t in toks][-3:], "$END$")
    end = toks[-1]
    body = toks[:-1]
    diffs = []
    chosen = None
    for r in refs:
        d = _compare_tokens(body, r)
        if d is None:
            chosen = r
            break
        diffs.append(d)
    if chosen is None:
        raise Viol(*diffs[0])
    e_s, e_e = end.start_pos.coords, end.end_pos.coords
    if e_s != e_e or e_s < chosen.last_end or not tx.inside(e_s):
        raise Viol("end-token-position", "$END$ is not an empty span at or after the end of the last token "
                   "inside the text", [list(e_s), list(e_e)], f">= {chosen.last_end}, inside the text")
    return ("ok", chosen, e_s)


def _orig(node, inp, tx, what):
    span = node.span
    exp = tx.slice(span[0], span[1])
    try:
        got = node.get_orig_text(inp)
    except Exception as e:  # noqa
        raise Viol("get_orig_text-raises", f"get_orig_text of {what} '{node.name}' raised {type(e).__name__}",
                   [list(span[0]), list(span[1])], exp)
    if got != exp:
        raise Viol("get_orig_text-differs", f"get_orig_text of {what} '{node.name}' is not the text between "
                   "its positions", got, exp)


# symbols whose empty production shares a parse-table cell with a longer alternative that starts with an
# ATOM token: an empty node of such a symbol directly before an ATOM token was reached by roll-back
ROLLBACK_SYMBOLS = {"ARG": "tree:empty-node-by-rollback:last-child", "PRE": "tree:empty-node-by-rollback:first-child"}
ATOM_TOKENS = {"WORD", "STRING", "KWC"}


def walk(node, R, k, endpos, tx, inp, feats, registry, skipped_before):
    """Judge ``node`` and everything below; returns the index of the next unconsumed token of R."""
    registry.append((node, node.span))
    val = node.value
    span = node.span
    if val is None:
        at = R[k].start if k < len(R) else endpos
        feats.add("tree:empty-node")
        if node.name in ROLLBACK_SYMBOLS and k < len(R) and R[k].name in ATOM_TOKENS:
            feats.add(ROLLBACK_SYMBOLS[node.name])
        if k >= len(R):
            feats.add("tree:empty-node-at-end")
        if k in skipped_before:
            feats.add("tree:empty-node-before-skipped-text")
        if span != (at, at):
            raise Viol("empty-node-position", f"node '{node.name}' matched nothing but is not an empty span at "
                       "the following token", [list(span[0]), list(span[1])], [list(at), list(at)])
        _orig(node, inp, tx, "empty node")
        return k
    if isinstance(val, str):
        if k >= len(R) or R[k].name != node.name:
            raise Viol("leaf-sequence", f"leaf '{node.name}' is not the next token of the text",
                       [node.name, val], repr(R[k]) if k < len(R) else "no token left")
        r = R[k]
        if span != (r.start, r.end):
            raise Viol("leaf-span", f"leaf '{node.name}' does not have the span of its token",
                       [list(span[0]), list(span[1])], [list(r.start), list(r.end)])
        _orig(node, inp, tx, "leaf")
        return k + 1
    if not (isinstance(val, list) and val and all(isinstance(c, impl.TElement) for c in val)):
        if isinstance(val, list) and not val:
            # a sequence that matched nothing: value [] (leaf); it matched no token
            at = R[k].start if k < len(R) else endpos
            feats.add("tree:empty-node")
            if span != (at, at):
                raise Viol("empty-node-position", f"node '{node.name}' matched nothing but is not an empty span "
                           "at the following token", [list(span[0]), list(span[1])], [list(at), list(at)])
            return k
        raise Viol("tree-shape", f"unexpected value in raw tree node '{node.name}'", repr(val)[:200], "str/None/list")
    k0 = k
    first_empty = last_empty = False
    for i, child in enumerate(val):
        kb = k
        k = walk(child, R, k, endpos, tx, inp, feats, registry, skipped_before)
        if k == kb:
            if i == 0:
                first_empty = True
            if i == len(val) - 1:
                last_empty = True
    if k == k0:
        feats.add("tree:all-empty-inner-node")
        at = R[k].start if k < len(R) else endpos
        if span != (at, at):
            raise Viol("empty-node-position", f"inner node '{node.name}' matched nothing but is not an empty span "
                       "at the following token", [list(span[0]), list(span[1])], [list(at), list(at)])
    else:
        if first_empty:
            feats.add("tree:empty-first-child")
        if last_empty:
            feats.add("tree:empty-last-child")
        exp = (R[k0].start, R[k - 1].end)
        if span != exp:
            view = [list(span[0]), list(span[1])]
            expv = [list(exp[0]), list(exp[1])]
            following = R[k].start if k < len(R) else endpos
            if span[0] == exp[0] and span[1] == following:
                raise Viol("inner-node-ends-after-its-last-token",
                           f"inner node '{node.name}' ends at the following token (after skipped text) instead "
                           "of at the end of its last token"
                           + (" — its last child matched nothing" if last_empty else ""), view, expv)
            if span[0] != exp[0]:
                raise Viol("inner-node-start", f"inner node '{node.name}' does not start at its first token",
                           view, expv)
            raise Viol("inner-node-end", f"inner node '{node.name}' does not end at its last token", view, expv)
    _orig(node, inp, tx, "inner node")
    return k


def _reachable(x, out, seen):
    if isinstance(x, impl.TElement):
        if id(x) in seen:
            return
        seen.add(id(x))
        out.append(x)
        _reachable(x.value, out, seen)
    elif isinstance(x, list):
        for i in x:
            _reachable(i, out, seen)
    elif isinstance(x, dict):
        for kk, v in x.items():
            _reachable(kk, out, seen)
            _reachable(v, out, seen)


def judge_tree(gname, parser, inp, tx, scan, endpos, feats, acc):
    """-> outcome label; raises Viol."""
    acc.trans()
    try:
        root = parser.parse(inp, do_cleanup=False)
    except impl.ParsingError:
        return "rejected"
    except impl.LexicalError as e:
        # the token list of this text was judged before: every character is matched, every span closed
        raise Viol("spurious-lexical-error", "parse() raised LexicalError for a text every character of which "
                   "is matched", str(e)[:120], "a tree or ParsingError")
    toks = scan.tokens
    R = [t for t in toks if not t.skipped]
    skipped_before = set()
    n = 0
    prev_skipped = False
    for t in toks:
        if t.skipped:
            prev_skipped = True
        else:
            if prev_skipped:
                skipped_before.add(n)
            n += 1
            prev_skipped = False
    if prev_skipped:
        skipped_before.add(n)
    registry = []
    k = walk(root, R, 0, endpos, tx, inp, feats, registry, skipped_before)
    if k != len(R):
        raise Viol("leaf-sequence", "the tree does not contain all tokens of the text", k, len(R))
    if gname.startswith("factorized"):
        feats.add("tree:factorized")
    elif gname == "list-template":
        feats.add("tree:list-template")
    elif gname == "sequence-template":
        feats.add("tree:sequence-template")
    # default cleanup keeps every surviving node's span
    acc.trans()
    parser.cleanup(root)
    before = {id(nd): sp for nd, sp in registry}
    after = []
    _reachable(root, after, set())
    for nd in after:
        sp = before.get(id(nd))
        if sp is not None and nd.span != sp:
            raise Viol("cleanup-changes-span", f"node '{nd.name}' has another span after the default cleanup",
                       [list(nd.span[0]), list(nd.span[1])], [list(sp[0]), list(sp[1])])
        if sp is not None:
            _orig(nd, inp, tx, "cleaned node")
    return "parsed"


# ------------------------------------------------------------------------------------ objects under test
class World:
    """The objects one case (or one sequence of texts) runs on: a tokenizer and one parser per grammar.

    The single-text space re-uses a world for many texts (construction of ten parsers costs 4 ms); to
    keep every *reported* case self-contained a violation seen on a re-used world is re-run on a fresh
    world before it is reported (run_case), and the stand-alone tokenizer is thrown away after every
    tokenization that ended with an exception."""

    def __init__(self, cfg_name, grammars=None):
        self.cfg_name = cfg_name
        cfg = P.CONFIGS[cfg_name]
        self.parsers = []
        for name, fac, kw in grammar_specs(cfg):
            if grammars is not None and name not in grammars:
                continue
            self.parsers.append((name, impl.LLParser(cfg.tokenizer_str, productions=fac(),
                                                     **cfg.real_kwargs(), **kw)))
        self._tokenizer = None
        self.history = []               # texts given to this world so far (most recent last)

    def tokenize(self, inp, src_name):
        """Stand-alone tokenizer (the class the parser itself uses), fresh after every failed run."""
        if self._tokenizer is None:
            cfg = P.CONFIGS[self.cfg_name]
            self._tokenizer = impl._Tokenizer(cfg.tokenizer_str, **cfg.real_kwargs())
        try:
            yield from self._tokenizer.tokenize(inp, src_name)
        except BaseException:
            self._tokenizer = None
            raise


_WORLDS = {}


def shared_world(cfg_name):
    w = _WORLDS.get(cfg_name)
    if w is None or len(w.history) >= 4096:
        w = _WORLDS[cfg_name] = World(cfg_name)
    return w


def judge_text(world, tokenize, text, form, acc, only_grammar=None, inp_object=None):
    """Judge one text on the given objects.  -> (violations, features, outcome).
    inp_object: the (list) object to hand to the library instead of a new one — its content is ``text``."""
    cfg_name = world.cfg_name
    cfg = P.CONFIGS[cfg_name]
    inp, lines = _mk_input(text, form)
    if inp_object is not None:
        assert list(inp_object) == lines
        inp = inp_object
    tx = P.Text(lines)
    case = {"text": text, "form": form, "cfg": cfg_name}
    feats = {"input:" + form, "cfg:" + cfg_name, "lines:one" if len(lines) == 1 else "lines:many"}
    if any(l and P.is_space(l[-1]) for l in lines):
        feats.add("trailing-blanks")
    viols = []
    acc.trans()
    outcome = None
    try:
        res = judge_tokens(tokenize, cfg, inp, lines, tx, feats)
    except Viol as v:
        viols.append(("C04:" + v.sig, case, v.msg, v.obs, v.exp))
        res = None
        outcome = v.sig
    if res is not None:
        if res[0] == "lexerr":
            outcome = "lexical-error"
        elif res[0] == "unclosed":
            outcome = "unclosed-span:" + res[1]
        else:
            scan, endpos = res[1], res[2]
            feats |= scan.feats
            labels = []
            for gname, parser in world.parsers:
                if only_grammar is not None and gname != only_grammar:
                    continue
                try:
                    labels.append(judge_tree(gname, parser, inp, tx, scan, endpos, feats, acc))
                except Viol as v:
                    c = dict(case)
                    c["grammar"] = gname
                    viols.append(("C04:" + v.sig, c, v.msg, v.obs, v.exp))
                    labels.append(v.sig)
            n_ok = labels.count("parsed")
            outcome = "tokens-ok/" + ("no-parse" if n_ok == 0 else "some-parsed" if n_ok < len(labels) else "all-parsed")
            bad = [l for l in labels if l not in ("parsed", "rejected")]
            if bad:
                outcome = bad[0]
    return viols, feats, outcome


def _nontrivial(feats):
    # measured on the reference scan, so the count does not depend on what the code under test does
    if "lexical-error" in feats:
        return "lexical-error:line>1" in feats
    if "unclosed-span" in feats:
        return False
    return "skipped-token" in feats or any(f.startswith("line>1:") for f in feats)


def run_case(text, form, cfg_name, acc, only_grammar=None, fresh=False):
    """One (text, form, config) of the single-text space."""
    world = World(cfg_name, None if only_grammar is None else {only_grammar}) if fresh else shared_world(cfg_name)
    viols, feats, outcome = judge_text(world, world.tokenize, text, form, acc, only_grammar)
    prev = world.history[-8:]
    world.history.append([text, form])
    if viols and not fresh:
        # report only what a freshly constructed parser/tokenizer shows as well (self-contained case)
        fw = World(cfg_name)
        fv, _, _ = judge_text(fw, fw.tokenize, text, form, acc, only_grammar)
        if {v[0] for v in fv} != {v[0] for v in viols}:
            acc.feat("single-text:result-depended-on-earlier-texts")
            hist = _attribute_history(cfg_name, prev, text, form, {v[0] for v in viols}, acc)
            sig, c, msg, obs, exp = viols[0]
            viols = list(fv)
            if hist is not None:
                viols.append(("C04:sequence:result-depends-on-earlier-texts",
                              {"cfg": cfg_name, "steps": [["parse", t, f] for t, f in hist] + [["judge", text, form]]},
                              "on a parser that parsed other texts before: " + msg, obs, exp))
            _WORLDS.pop(cfg_name, None)
    acc.case(nontrivial=_nontrivial(feats), features=sorted(feats), outcome=outcome)
    seen = set()
    for sig, c, msg, obs, exp in viols:
        if sig in seen:
            continue          # one report per class and case is enough
        seen.add(sig)
        acc.violation(sig, c, msg, obs, exp)
    return viols


def _attribute_history(cfg_name, prev, text, form, sigs, acc):
    """Shortest suffix of the recent history that, replayed on fresh objects, reproduces the violation."""
    for n in (1, 2, 8):
        hist = prev[-n:]
        w = World(cfg_name)
        for t, f in hist:
            _apply_step(w, "parse", t, f)
        v, _, _ = judge_text(w, w.tokenize, text, form, acc)
        if {x[0] for x in v} & sigs:
            return hist
    return None


# ------------------------------------------------------------------------------------ sequences of texts
# Texts for the sequences on ONE parser object: everything of <= 2 pieces over SEQ_PIECES (unclosed spans,
# closers without opener, unmatched characters, blank texts ...) plus longer texts with spans closing on the
# same / a later line, an error behind a closed span, a text some grammars reject.
SEQ_PIECES = ["ab", "\n", "/*", "*/", "#", " "]
SEQ_EXTRA = ["ab /*\n*/ c", "/* x\n", "ab\n/*\nc", "c */ ab", "ab #", "/**/ #", "+ +", "ab +\nc", "/* c */ab",
             "ab\n #"]
SEQ_GRAMMARS = {"trailing-opt", "sequence-template", "list-template"}
SEQ_MODES = ("parse-then-parse", "interleaved", "same-list-edited-in-place")
SEQ_CFGS = ("iii", "i")


def seq_pool():
    pool = [""] + list(SEQ_PIECES) + [a + b for a in SEQ_PIECES for b in SEQ_PIECES]
    for t in SEQ_EXTRA:
        if t not in pool:
            pool.append(t)
    return pool


def _apply_step(world, op, text, form):
    """A step whose result is not judged: the caller catches what the library raises.  -> label"""
    inp, _ = _mk_input(text, form)
    labels = []
    if op == "parse":
        for _, parser in world.parsers:
            try:
                parser.parse(inp)
                labels.append("parsed")
            except impl.Error as e:
                labels.append(type(e).__name__)
        try:
            list(world.tokenize(inp, "t"))
        except impl.Error:
            pass
    world.history.append([text, form])
    return labels


def _kind_of(text, cfg):
    r = P.scan(text.split("\n"), cfg)
    if r.status == "unclosed":
        return "unclosed-span"
    if r.status == "lexerr":
        return "unmatched-character"
    return "valid-text-with-span" if any(t.is_span for t in r.tokens) else "valid-text"


def run_sequence(cfg_name, mode, t1, t2, acc, report=True):
    """(t1, t2) on one freshly constructed world; the result for t2 must be what t2 alone gives (= what the
    reference says about t2).  mode 'interleaved': a token generator over t1 is advanced by one token and
    left suspended while t2 is judged, then resumed: the remaining tokens of t1 must be the reference's."""
    cfg = P.CONFIGS[cfg_name]
    world = World(cfg_name, SEQ_GRAMMARS)
    k1, k2 = _kind_of(t1, cfg), _kind_of(t2, cfg)
    feats = {"sequence", "sequence:mode:" + mode, "sequence:cfg:" + cfg_name, "sequence:first:" + k1,
             "sequence:second:" + k2}
    viols = []
    case = {"cfg": cfg_name, "mode": mode, "texts": [t1, t2]}
    gen = None
    got1 = []
    the_list = None
    if mode == "same-list-edited-in-place":
        # one list-of-lines object: parsed, edited in place (here: its lines become those of t2), parsed
        # again by the same parsers with the same src_name — the second result must be t2's
        the_list = t1.split("\n")
        for _, parser in world.parsers:
            try:
                parser.parse(the_list)
            except impl.Error:
                pass
        l1, l2 = list(the_list), t2.split("\n")
        the_list[:] = l2
        if len(l2) == len(l1) + 1 and l2[:len(l1)] == l1:
            feats.add("edit:line-appended")
        if len(l2) == len(l1) + 1 and any(l2[:i] + l2[i + 1:] == l1 and not l2[i].strip() for i in range(len(l2))):
            feats.add("edit:blank-line-inserted")
        if len(l2) == len(l1) and l1 != l2 and all(a.strip() == b.strip() for a, b in zip(l1, l2)) and t1.strip():
            feats.add("edit:line-re-indented")
        if l1 == l2:
            feats.add("edit:none")
    elif mode == "parse-then-parse":
        labels = _apply_step(world, "parse", t1, "str")
        if k1.startswith("valid") and "ParsingError" in labels:
            feats.add("sequence:first:rejected-by-a-grammar")
    else:
        # the very tokenizer object of the first parser: the same object then parses t2
        gen = world.parsers[0][1].tokenizer.tokenize(t1, "t")
        try:
            got1.append(next(gen))
            feats.add("sequence:generator-suspended")
        except (StopIteration, impl.Error):
            gen = None
    outcome = "second-text-as-alone"
    for form in (("list",) if the_list is not None else ("str", "list")):
        tokenize = world.parsers[0][1].tokenizer.tokenize
        v, _, _ = judge_text(world, tokenize, t2, form, acc, inp_object=the_list)
        if v:
            alone = World(cfg_name, SEQ_GRAMMARS)
            va, _, _ = judge_text(alone, alone.parsers[0][1].tokenizer.tokenize, t2, form, acc)
            if {x[0] for x in va} == {x[0] for x in v}:
                outcome = "second-text-violates-alone"      # reported by the single-text space
                continue
            sig, c, msg, obs, exp = v[0]
            after = ("a-suspended-token-generator" if mode == "interleaved" else
                     "an-in-place-edit-of-the-same-list-object" if the_list is not None else k1)
            viols.append(("C04:sequence:second-text-differs-after-" + after, dict(case, form=form),
                          f"after {after.replace('-', ' ')} on the same parser object the second text is not "
                          f"handled as it is alone: [{sig}] {msg}", obs, exp))
            outcome = "second-text-differs"
            break
    if gen is not None and not viols:
        # resume the suspended generator: the tokens of t1 must still be t1's tokens
        lines = t1.split("\n")
        try:
            got1.extend(gen)
            err = None
        except impl.LexicalError as e:
            err = e
        refs = [P.scan(P.strip_lines(lines), cfg), P.scan(lines, cfg)]
        ok = False
        for r in refs:
            if r.status == "ok" and err is None and got1 and got1[-1].name == "$END$":
                ok = ok or _compare_tokens(got1[:-1], r) is None
            elif r.status != "ok" and err is not None:
                ok = ok or _compare_tokens(got1, r) is None
        if not ok:
            # the same text alone, on fresh objects: if that gives the very same tokens the deviation is a
            # single-text matter (reported by the single-text space), not an effect of the interleaving
            alone = World(cfg_name, SEQ_GRAMMARS)
            a_toks, a_err = [], None
            try:
                for tok in alone.parsers[0][1].tokenizer.tokenize(t1, "t"):
                    a_toks.append(tok)
            except impl.LexicalError as e:
                a_err = e
            if (a_err is None) == (err is None) and [_tok_view(t) for t in a_toks] == [_tok_view(t) for t in got1]:
                ok = True
                outcome = "first-text-violates-alone"
        if not ok:
            viols.append(("C04:sequence:resumed-generator-differs", dict(case, form="str"),
                          "a token generator that was suspended while another text was parsed does not "
                          "deliver the tokens of its own text", [_tok_view(t) for t in got1][:8],
                          [repr(t) for t in refs[0].tokens][:8]))
            outcome = "resumed-generator-differs"
    if report:
        acc.case(nontrivial=(k1 != "valid-text"), features=sorted(feats), outcome=outcome)
        for sig, c, msg, obs, exp in viols:
            acc.violation(sig, c, msg, obs, exp)
    return viols


def run_shard(shard, tier, seed, acc):
    t = _TIERS[tier]
    if shard[0] == "seq":
        _, cfg_name, mode, i = shard
        pool = seq_pool()
        for t2 in pool:
            run_sequence(cfg_name, mode, pool[i], t2, acc)
        if i % 7 == 0:
            acc.sample({"cfg": cfg_name, "mode": mode, "texts": [pool[i], pool[(i * 5 + 3) % len(pool)]]})
        return
    _WORLDS.clear()                     # a shard starts on freshly constructed objects
    n = 0
    for text in _texts(shard, tier):
        for form in t["forms"]:
            for cfg_name in ("i", "ii", "iii"):
                run_case(text, form, cfg_name, acc)
        n += 1
        if n % 64 == 0:
            if acc.expired():
                return
            if n % 1024 == 0 and "\n" in text:
                acc.sample({"text": text})


def replay(case, acc):
    if "texts" in case:
        run_sequence(case["cfg"], case["mode"], case["texts"][0], case["texts"][1], acc)
        return
    if "steps" in case:                 # a recorded history on one world, the last step is judged
        w = World(case["cfg"])
        for op, text, form in case["steps"][:-1]:
            _apply_step(w, op, text, form)
        _, text, form = case["steps"][-1]
        v, feats, outcome = judge_text(w, w.tokenize, text, form, acc)
        acc.case(outcome=outcome)
        if v:
            sig, c, msg, obs, exp = v[0]
            acc.violation("C04:sequence:result-depends-on-earlier-texts", case,
                          "on a parser that parsed other texts before: " + msg, obs, exp)
        return
    run_case(case["text"], case["form"], case["cfg"], acc, only_grammar=case.get("grammar"), fresh=True)


def selftest():
    """The tree walk accepts hand-built correct trees and rejects hand-built wrong ones."""
    SP = impl.SrcPos
    cfg = P.CONFIGS["i"]
    lines = ["ab  +", "", "c"]
    tx = P.Text(lines)
    sc = P.scan(lines, cfg)
    R = [t for t in sc.tokens if not t.skipped]
    assert [(t.start, t.end) for t in R] == [((1, 1), (1, 3)), ((1, 5), (1, 6)), ((3, 1), (3, 2))]

    def leaf(name, val, s, e):
        return impl.TElement(name, val, start_pos=SP("t", *s), end_pos=SP("t", *e))

    def node(name, kids, s, e):
        return impl.TElement(name, kids, start_pos=SP("t", *s), end_pos=SP("t", *e))

    def tree(end_of_first):
        a = leaf("WORD", "ab", (1, 1), (1, 3))
        opt = leaf("OPT", None, (1, 5), (1, 5))
        first = node("ITEM", [a, opt], (1, 1), end_of_first)
        p = leaf("PLUS", "+", (1, 5), (1, 6))
        c = leaf("WORD", "c", (3, 1), (3, 2))
        return node("E", [first, p, c], (1, 1), (3, 2))

    assert walk(tree((1, 3)), R, 0, (3, 2), tx, lines, set(), [], set()) == 3
    try:
        walk(tree((1, 5)), R, 0, (3, 2), tx, lines, set(), [], set())
    except Viol as v:
        assert v.sig == "inner-node-ends-after-its-last-token", v.sig
    else:
        raise AssertionError("walk accepted an inner node that ends after skipped blanks")
