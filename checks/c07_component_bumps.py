"""C07 — component builds are reported at the first parent build that ships them; repositories are
analysed components first; cyclic component dependencies are rejected (DESIGN.md §2 C07).

Part A (two repositories ``app`` -> ``lib``), every member of the space is visited:
  * component ``lib``: a linear release branch of 1..4 commits, or any commit DAG with merges (side lines
    merged into the main line, both parent orders) on 3 commits (thorough: 4), or (thorough) a second release
    branch forking from the first; any non-empty subset of commits tagged as builds (numbers increase with the
    commit), optionally commits built twice (two build tags n, n+1 on one commit), any subset matching the
    search text;
  * parent ``app``: any commit DAG on 1..3 commits (thorough: 4 commits without merges) under one or two
    release branches (every head placement covering all commits), any subset tagged, matching subsets as
    bounded per group, and *every* assignment of a pinned component build (DEPENDS file) to the commits
    that names an existing component build and never decreases along a parent edge.
  Some groups replay a *history of report requests* on one ReposCollection object (same text twice, another
  text first); every report of the history is compared.
  The real ``ReposCollection.make_report`` runs on deterministic fake repositories; ``RBuild.included_at`` of
  every report-related component build and the parent's reported builds / bumps are compared with a
  reachability reference (models/ghist_model.py: c07_expected).
Part B (ordering): every dependency digraph (self loops included) on up to 4 repository ids (thorough: 5
  without self loops) x supply orders, optional dependencies on absent repositories; stub ProjectRepo
  objects record the order of ``build_report_rgraph`` calls and the ``components_rgraphs`` they receive.
"""

import itertools

from models import ghist_model as gm

ID = "C07"
TITLE = "Component builds are reported at the first parent build that ships them"
TECHNIQUE = ("bounded exhaustive enumeration of component/parent histories with all monotone version pins, and of all "
             "small dependency digraphs, against reachability / topological-order reference models")
DESIGN_REF = "§2 C07"
LEVEL_TEXT = ("All two-repository scenarios within the bounds (component up to 3-4 builds, parent up to 3-4 commits on 1-2 "
              "branches, every monotone pin assignment) and all dependency digraphs on up to 4 (5) repositories are run "
              "through the real report builder and compared with independent reference models.")
LEVEL_NOTE = ("Small-scope: longer histories, component DAGs beyond 3-4 commits, several components per parent, pins that "
              "decrease or name unknown versions (outside the property's quantifier), component cut-off window (all "
              "dates within one day) are not explored. A pinned version of another component release branch that "
              "contains a build only by reachability is accepted either way (statement does not settle it). Trusted: "
              "reference model and fake repositories in models/ghist_model.py (cross-checked against tests/test_ghist.py).")
RULE = ("part A case = (component history, parent history, pin assignment); non-trivial when some report-related "
        "component build is shipped by a parent branch that has at least two candidate builds, so 'first' is a real "
        "choice. Part B case = (dependency digraph, supply order); non-trivial when there is at least one dependency "
        "between present repositories.")
ASSUMPTIONS = [
    "component build numbers increase along the component history; build tags build_<n>_release_X_Y_success, or "
    "build_<n>_master_success with major.minor in the built commit's VERSION file (minor changing at most once)",
    "the pinned component version names an existing component build and never decreases along a parent edge",
    "commit times of both repositories within one day, or (groups with time levels) spread over days with every "
    "parent commit newer than the oldest report-related component build minus one day (the component cut-off window)",
    "one component per parent in part A (two in the three-repository family); dependency graphs in part B use stubs",
    "a component build that lists no commit of its own (merge of two built side lines) may or may not be recorded; "
    "if it is, only at a first parent build that ships it",
]
REQUIRED_FEATURES = ["A:component-version-from-VERSION-file", "A:VERSION-changes-between-report-related-component-builds",
                     "A:build-made-after-VERSION-change-is-shipped", "A:parent-pins-two-components", "A:both-components-have-shipped-report-builds",
                     "A:commit-times-spread-over-days", "A:oldest-report-build-in-later-sorted-component-branch",
                     "A:shipping-parent-build-days-before-first-branch-report-builds", "A:component-merge", "A:side-line-build-shipped-after-main-line-build",
                     "A:side-line-shares-ancestor-build-with-shipped-main-line",
                     "A:component-commit-built-twice", "A:pin-names-second-build-of-a-commit",
                     "A:second-build-number-ships-first", "A:repeated-request", "A:other-text-first",
                     "A:component-build-without-own-commit", "B:repeated-request", "A:ships", "A:bump-without-own-matching-commit", "A:parent-two-branches", "A:parent-merge",
                     "A:pin-names-non-report-build", "A:bump-spans-several-component-builds", "A:ships-at-not-built-head",
                     "A:component-partially-tagged", "A:component-head-not-built", "A:pin-without-report-content",
                     "A:shipped-in-two-parent-branches", "A:later-candidate-not-first", "A:parent-own-matching-commit",
                     "B:acyclic", "B:cyclic", "B:self-loop", "B:absent-dependency", "B:order-forced"]

PB1 = ("release/1.0",)
PB2 = ("release/1.0", "release/2.0")


# ------------------------------------------------------------------ part A space
def _linear_comps(n_max, n_min=1, full_only=False):
    out = []
    for n in range(n_min, n_max + 1):
        parents = [[]] + [[i] for i in range(1, n)]
        ids = list(range(1, n + 1))
        for tags in gm.subsets(ids):
            if not tags or (full_only and len(tags) != n):
                continue
            for match in gm.subsets(ids):
                out.append({"parents": parents, "heads": [["release/1.0", n]], "tags": tags, "match": match, "major": 1})
    return out


def _merge_comps(n):
    """Every DAG on n commits with at least one merge whose last commit reaches all commits; one release branch."""
    out = []
    ids = list(range(1, n + 1))
    full = (1 << (n + 1)) - 2
    for parents in gm.enumerate_dags(n):
        if not any(len(p) == 2 for p in parents) or gm.reach_masks(parents)[n] != full:
            continue
        for tags in gm.subsets(ids):
            if not tags:
                continue
            for match in gm.subsets(ids):
                out.append({"parents": parents, "heads": [["release/1.0", n]], "tags": tags, "match": match, "major": 1})
    return out


def _merge_full_comps(n):
    return [c for c in _merge_comps(n) if len(c["tags"]) == n]


def _version_file_comps(n_max):
    """Linear components on master whose build tags do not encode the version (build_<n>_master_success): major.minor
    is read from the VERSION file of the built commit; the saved minor never decreases along the history (0 -> 1)."""
    out = []
    for comp in _linear_comps(n_max):
        n = len(comp["parents"])
        for k in range(n + 1):                      # commits 1..k say minor 0, the rest minor 1
            out.append(dict(comp, heads=[["master", n]], minors=[0] * k + [1] * (n - k)))
    return out


def _twice_built_comps(n_max, d_max):
    """Linear components in which 1..d_max tagged commits carry two build tags."""
    out = []
    for comp in _linear_comps(n_max):
        for two in gm.subsets(comp["tags"]):
            if two and len(two) <= d_max:
                out.append(dict(comp, tags2=two))
    return out


def _small_fork_comps():
    """Two component release branches on at most 3 commits: 1..a on release/1.0, a+1..a+b on release/2.0 forking at f."""
    out = []
    for a, b in ((1, 1), (1, 2), (2, 1)):
        for f in range(1, a + 1):
            n = a + b
            parents = [[]] + [[i] for i in range(1, a)] + [[f]] + [[i] for i in range(a + 1, n)]
            major = {str(i): (1 if i <= a else 2) for i in range(1, n + 1)}
            ids = list(range(1, n + 1))
            for tags in gm.subsets(ids):
                if not tags:
                    continue
                for match in gm.subsets(ids):
                    out.append({"parents": parents, "heads": [["release/1.0", a], ["release/2.0", n]],
                                "tags": tags, "match": match, "major": major})
    return out


def _fork_comps():
    out = []
    for a in (2, 3):                   # commits 1..a on release/1.0
        for b in (1, 2):               # commits a+1..a+b on release/2.0
            if a + b > 4:
                continue
            for f in range(1, a + 1):  # fork point
                n = a + b
                parents = [[]] + [[i] for i in range(1, a)] + [[f]] + [[i] for i in range(a + 1, n)]
                major = {str(i): (1 if i <= a else 2) for i in range(1, n + 1)}
                ids = list(range(1, n + 1))
                for tags in gm.subsets(ids):
                    if not tags:
                        continue
                    for match in gm.subsets(ids):
                        out.append({"parents": parents, "heads": [["release/1.0", a], ["release/2.0", n]],
                                    "tags": tags, "match": match, "major": major})
    return out


def _parent_shapes(n, names, merges=True):
    """All (DAG, heads) with every commit reachable from some head."""
    out = []
    ids = list(range(1, n + 1))
    full = (1 << (n + 1)) - 2
    for parents in gm.enumerate_dags(n):
        if not merges and any(len(p) > 1 for p in parents):
            continue
        r = gm.reach_masks(parents)
        for hs in itertools.product(ids, repeat=len(names)):
            cover = 0
            for h in hs:
                cover |= r[h]
            if cover == full:
                out.append((parents, [[b, h] for b, h in zip(names, hs)]))
    return out


# group: name -> (component family, parent commits, branch tuples, merges allowed in the parent, max matching commits
#                 in the parent, number of shards, compare printed report, request histories: "single" | "repeat")
_A_GROUPS = {
    "quick": [
        ("lin3/p2", ("linear", 3), (1, 2), (PB1, PB2), True, 2, 8, True, "repeat"),
        ("lin3/p3b1", ("linear", 3), (3,), (PB1,), True, 3, 24, False, "single"),
        ("lin3/p3b2", ("linear", 3), (3,), (PB2,), True, 0, 48, False, "single"),
        ("merge3/p3b1", ("merge", 3), (3,), (PB1,), False, 0, 16, False, "single"),
        ("lin4full/p3", ("linear-full", 4), (3,), (PB1,), True, 0, 8, False, "single"),
        ("merge3/p2", ("merge", 3), (1, 2), (PB1, PB2), True, 1, 32, False, "single"),
        ("twice3/p2", ("twice", 3), (1, 2), (PB1, PB2), True, 1, 24, False, "single"),
        ("merge4full/p2b1", ("merge-full", 4), (1, 2), (PB1,), True, 0, 24, False, "single"),
        ("fork3days/p2b1", ("small-fork", 3), (1, 2), (PB1,), True, 0, 24, False, "levels"),
        ("vfile3/p2b1", ("version-file", 3), (1, 2), (PB1,), True, 0, 16, False, "single"),
    ],
    "thorough": [
        ("lin4/p2", ("linear", 4), (1, 2), (PB1, PB2), True, 2, 32, True, "repeat"),
        ("lin3/p3", ("linear", 3), (3,), (PB1, PB2), True, 3, 128, False, "single"),
        ("lin4/p3", ("linear4", 4), (3,), (PB1, PB2), True, 1, 256, False, "single"),
        ("lin3/p4", ("linear-full", 3), (4,), (PB1, PB2), False, 1, 128, False, "single"),
        ("lin3/p4merges", ("linear-full", 3), (4,), (PB1, PB2), True, 0, 192, False, "single"),
        ("fork/p3", ("fork", 4), (1, 2, 3), (PB1, PB2), False, 1, 192, False, "single"),
        ("merge3/p2", ("merge", 3), (1, 2), (PB1, PB2), True, 2, 16, False, "repeat"),
        ("merge3/p3", ("merge", 3), (3,), (PB1, PB2), True, 0, 64, False, "single"),
        ("merge4/p2", ("merge", 4), (1, 2), (PB1, PB2), True, 1, 96, False, "single"),
        ("twice3/p2", ("twice-all", 3), (1, 2), (PB1, PB2), True, 2, 16, False, "single"),
        ("twice3/p3b1", ("twice-all", 3), (3,), (PB1,), True, 1, 64, False, "single"),
        ("fork3days/p2", ("small-fork", 3), (1, 2), (PB1, PB2), True, 1, 32, False, "levels"),
        ("fork3days/p3b1", ("small-fork", 3), (3,), (PB1,), False, 0, 48, False, "levels"),
        ("lin3days/p2", ("linear", 3), (1, 2), (PB1, PB2), True, 1, 16, False, "levels"),
        ("vfile3/p3", ("version-file", 3), (1, 2, 3), (PB1, PB2), False, 1, 64, False, "single"),
    ],
}
_COMPS = {}


def _comps(fam):
    if fam not in _COMPS:
        kind, n = fam
        if kind == "linear":
            _COMPS[fam] = _linear_comps(n)
        elif kind == "linear4":
            _COMPS[fam] = _linear_comps(n, n_min=4)
        elif kind == "linear-full":
            _COMPS[fam] = _linear_comps(n, n_min=n, full_only=True)
        elif kind == "small-fork":
            _COMPS[fam] = _small_fork_comps()
        elif kind == "version-file":
            _COMPS[fam] = _version_file_comps(n)
        elif kind == "merge":
            _COMPS[fam] = _merge_comps(n)
        elif kind == "merge-full":
            _COMPS[fam] = _merge_full_comps(n)
        elif kind == "twice":
            _COMPS[fam] = _twice_built_comps(n, 1)
        elif kind == "twice-all":
            _COMPS[fam] = _twice_built_comps(n, n)
        else:
            _COMPS[fam] = _fork_comps()
    return _COMPS[fam]


_B_GROUPS = {
    # (number of ids, self loops, supply orders: "all" | k, absent dependency variants, shards)
    "quick": [(1, True, "all", True, 1), (2, True, "all", True, 1), (3, True, "all", True, 1), (4, True, 2, False, 8)],
    "thorough": [(1, True, "all", True, 1), (2, True, "all", True, 1), (3, True, "all", True, 1),
                 (4, True, "all", False, 24), (5, False, 2, False, 32)],
}


def bounds(tier):
    return {
        "part_A_groups": [{"name": g[0], "component": f"{g[1][0]} up to {g[1][1]} commits", "parent_commits": list(g[2]),
                           "parent_branches": [list(b) for b in g[3]], "parent_merges": g[4],
                           "parent_matching_commits_at_most": g[5], "shards": g[6], "printed_report_compared": g[7],
                           "request_histories": _HISTORIES[g[8]],
                           "commit_times": ("component commits 2 days apart in both orders, parent commits 2 days apart "
                                            "starting at every level from half a day before the oldest report-related "
                                            "component build") if g[8] == "levels" else "all within one day"}
                          for g in _A_GROUPS[tier]],
        "pins": "every assignment naming an existing component build and never decreasing along a parent edge",
        "part_A_three_repositories": "app pins lib (linear, up to %d commits) and lib2 (linear, up to 2 commits), parent "
                                     "up to 2 commits, every tag set and every pair of monotone pin assignments"
                                     % (3 if tier == "thorough" else 2),
        "part_B_groups": [{"ids": g[0], "self_loops": g[1], "supply_orders": g[2], "absent_dependencies": g[3],
                           "shards": g[4]} for g in _B_GROUPS[tier]],
    }


_A3_SHARDS = {"quick": 16, "thorough": 64}


def shards(tier):
    out = [("A3", 0, j) for j in range(_A3_SHARDS[tier])]
    for gi, g in enumerate(_A_GROUPS[tier]):
        out += [("A", gi, j) for j in range(g[6])]
    for gi, g in enumerate(_B_GROUPS[tier]):
        out += [("B", gi, j) for j in range(g[4])]
    return out


# ------------------------------------------------------------------ part A: one scenario
T1 = gm.SEARCH_TEXT
T2 = "BUG-8"          # contained in the messages of some commits that do not match T1
_HISTORIES = {"single": [[T1]], "repeat": [[T1], [T1, T1], [T2, T1], [T1, T2]], "levels": [[T1]]}


def _judge_report(comp, par, report, compare_printed, info, lib="lib", repos=("app", "lib")):
    """One report of a two-repository collection against the reference. comp/par carry the matching sets
    valid for the text of this request."""
    problems = []
    rg = dict(report.data)
    if sorted(rg) != sorted(repos) or len(report.data) != len(repos):
        return [("report-repositories", "the report does not hold each repository once",
                 [r for r, _g in report.data], sorted(repos))]
    lib_rg, app_rg = rg[lib], rg["app"]
    # ---- the component's own report must be right (C06 reference); it says which builds are report-related
    ref_builds, comp_exp = gm.c07_component_builds(comp)
    if ref_builds is None or comp.get("tags2") or any(len(p) == 2 for p in comp["parents"]):
        # non-linear or twice-built component: the whole component report is judged by the C06 reference (for linear
        # and forked components the comparison of the listing builds below says the same)
        cprob = gm.c06_judge(comp["parents"], comp["heads"], comp["tags"], comp["match"], gm.observe_rgraph(lib_rg),
                             comp_exp, label_of=lambda c: gm.c07_version(comp, c))
        if cprob:
            sig, msg, obs, want = cprob[0]
            return [("component-report/" + sig, "component repository: " + msg, obs, want)]
    seen, listing = {}, set()
    for rb in lib_rg.branches:
        for b in rb.get_rbuilds_list():
            inc = [(str(x[0]), str(x[1]), str(x[2])) for x in b.included_at]
            if b.rcommit is None:
                if inc:
                    problems.append(("pseudo-build-included", "a 'not merged' pseudo build of the component has included_at",
                                     inc, []))
                continue
            key = (rb.branch_name, b.rcommit.commit.intid)
            seen[key] = inc
            if b.get_printable_rcommits():
                listing.add(key)
    if ref_builds is not None and listing != ref_builds:
        return problems + [("component-report-builds", "report-related builds of the component differ from the reference",
                            sorted(listing), sorted(ref_builds))]
    if len(seen) > len(listing):
        info["nonlisting"] = True
    req, opt = gm.c07_expected(comp, par, set(seen), comp_exp)
    info["req"] = {k: v for k, v in req.items() if k in listing}
    info["listing"] = listing
    ndup = 0
    for key in sorted(seen):
        inc = seen[key]
        got = set(inc)
        if len(got) != len(inc):
            ndup += 1
        want = {("app", pb, lab) for pb, lab, _pc in req[key]}
        allowed = want | {("app", pb, lab) for pb, lab, _pc in opt[key]}
        missing = (want - got) if key in listing else set()
        extra = got - allowed
        info["opt_expected"] = info.get("opt_expected", 0) + len(allowed - want)
        info["opt_observed"] = info.get("opt_observed", 0) + len((allowed - want) & got)
        if missing:
            problems.append(("first-shipping-build-missing",
                             f"component build {key} is shipped first by parent build(s) {sorted(want)} but included_at "
                             f"is {sorted(got)}", sorted(got), sorted(want)))
        if extra:
            problems.append(("included-at-wrong-build/" + _wrong_build_class(comp, par, key, req[key], sorted(extra)[0]),
                             f"component build {key} is recorded as included at {sorted(extra)}, which is not a first "
                             f"parent build shipping it (first: {sorted(want)})", sorted(got), sorted(want)))
    info["dups"] = ndup
    # ---- parent side: every first shipping build is a reported build with the right number and bump
    shown = {}
    for rb in app_rg.branches:
        for b in rb.get_rbuilds_list():
            if b.rcommit is not None:
                bump = b.bumps.get(lib)
                shown[(rb.branch_name, b.rcommit.commit.intid)] = (
                    str(b.build_num), None if bump is None else str(bump.to_buildnum),
                    [rc.commit.intid for rc in b.get_printable_rcommits()])
    info["shown"] = shown
    for key in sorted(listing):
        for pb, lab, pc in sorted(req[key]):
            sh = shown.get((pb, pc))
            pin = gm.c07_version(comp, par["pins"][pc - 1])
            if sh is None:
                problems.append(("shipping-build-not-reported",
                                 f"parent build at commit {pc} of {pb} first ships component build {key} but is not "
                                 f"among the reported builds", sorted(shown), [pb, pc]))
            elif sh[0] != lab or sh[1] != pin:
                problems.append(("shipping-build-label",
                                 f"parent build at commit {pc} of {pb} is reported as {sh[0]} with lib={sh[1]}",
                                 list(sh[:2]), [lab, pin]))
    if compare_printed and not problems:
        try:
            pp = gm.parse_printed(str(report))
            for rb in lib_rg.branches:
                pblds = dict((b[0], b) for b in next(x[1] for x in pp[lib] if x[0] == rb.branch_name))
                for b in rb.get_rbuilds_list():
                    lab = gm.printed_label("not-merged" if b.rcommit is None else "build", str(b.build_num))
                    want = [f"{x[0]} {x[1]} {gm.printed_label('build', str(x[2]))}" for x in b.included_at]
                    if pblds[lab][2] != want:
                        problems.append(("printed-included-at-differs", "printed report shows other parent builds",
                                         pblds[lab][2], want))
        except (ValueError, KeyError, StopIteration) as e:
            problems.append(("printed-report-unparseable", repr(e), None, None))
    return problems


def _wrong_build_class(comp, par, key, first_items, extra_item):
    """Class of a wrong included_at entry, computed from the case:
    build-not-shipping-it                      the pin of that parent build does not contain the component build
    ancestor-of-shipped-build-via-side-line    it does, a first shipping build of the branch precedes it, and the
                                               component build is reached from the later pin along a side line that
                                               avoids the version pinned by the first shipping build
    later-build-of-the-branch                  it does, but only through the version already shipped"""
    _repo, pbranch, label = extra_item
    ptags = set(par["tags"])
    cand = None
    for e in gm.c06_expected(par["parents"], par["heads"], par["tags"], []):
        if e["branch"] == pbranch:
            for b in e["builds"]:
                if (gm.c07_parent_tag_label(b) if b in ptags else gm.NOT_BUILT) == label:
                    cand = b
    if cand is None:
        return "build-not-shipping-it"
    rc = gm.reach_masks(comp["parents"])
    top = gm.pin_commit(par["pins"][cand - 1])
    if not (rc[top] >> key[1]) & 1:
        return "build-not-shipping-it"
    avoid = {gm.pin_commit(par["pins"][pc - 1]) for pb, _l, pc in first_items if pb == pbranch}
    stack, seen = [top], set()
    while stack:
        c = stack.pop()
        if c in seen or c in avoid:
            continue
        seen.add(c)
        stack.extend(comp["parents"][c - 1])
    return "ancestor-of-shipped-build-via-side-line" if key[1] in seen and avoid else "later-build-of-the-branch"


def check_scenario(case, acc, compare_printed=False):
    """Replays the case's history of report requests on one ReposCollection; -> (problems, info of the last request)."""
    comp, par = case["comp"], case["par"]
    texts = case.get("texts") or [T1]
    info = {}
    comp2 = case.get("comp2")
    try:
        with gm.cpu_limit(5.0):
            if comp2 is not None:
                coll = gm.three_repo_collection(gm.c07_comp_spec(comp), gm.c07_comp_spec(comp2, name="lib2"),
                                                gm.c07_parent_spec(par, comp, comp2=comp2),
                                                order=tuple(case.get("order", ("app", "lib", "lib2"))))
            else:
                coll = gm.two_repo_collection(gm.c07_comp_spec(comp), gm.c07_parent_spec(par, comp),
                                              order=tuple(case.get("order", ("app", "lib"))))
    except gm.Hang:
        return [("hangs", "ReposCollection does not terminate (5 s CPU)", "no result", "a collection")], info
    except Exception as e:  # noqa
        return [(f"raises-{type(e).__name__}", f"ReposCollection raised {type(e).__name__}: {e}", repr(e), "a collection")], info
    nc, npar = len(comp["parents"]), len(par["parents"])
    for k, text in enumerate(texts):
        acc.trans(1)
        comp_t = comp if text == T1 else dict(comp, match=gm.matching_for_text(nc, comp["match"], text))
        par_t = par if text == T1 else dict(par, match=gm.matching_for_text(npar, par["match"], text))
        info = {}
        try:
            with gm.cpu_limit(5.0):
                report = coll.make_report(text)
            if comp2 is not None:
                # a parent pinning two components: each component's builds are judged on their own
                repos = ("app", "lib", "lib2")
                info2 = {}
                problems = _judge_report(comp_t, par_t, report, False, info, "lib", repos)
                p2 = _judge_report(comp2, dict(par_t, pins=par["pins2"]), report, False, info2, "lib2", repos)
                problems += [("second-component/" + q[0],) + tuple(q[1:]) for q in p2]
                info["req2"] = info2.get("req", {})
            else:
                problems = _judge_report(comp_t, par_t, report, compare_printed, info)
        except gm.Hang:
            problems = [("hangs", "make_report does not terminate (5 s CPU)", "no result", "a report")]
        except Exception as e:  # noqa
            problems = [(f"raises-{type(e).__name__}", f"make_report raised {type(e).__name__}: {e}", repr(e), "a report")]
        if problems:
            if k:       # a later request of the history: tell it apart from a defect visible on a fresh collection
                problems = [(f"request-{k + 1}-of-history/" + p[0],) + tuple(p[1:]) for p in problems]
            return problems, info
    return [], info


def _features_A(case, info):
    comp, par = case["comp"], case["par"]
    f = set()
    req = info.get("req", {})
    shown = info.get("shown", {})
    pmatch = set(par["match"])
    ctags = set(comp["tags"])
    texts = case.get("texts") or [T1]
    if len(texts) > 1:
        f.add("A:repeated-request")
        if texts[0] != T1:
            f.add("A:other-text-first")
    if comp.get("levels"):
        f.add("A:commit-times-spread-over-days")
        lv, plv = comp["levels"], par["levels"]
        listing = info.get("listing", set())
        per_branch = {}
        for b, c in listing:
            per_branch.setdefault(b, []).append(lv[c - 1])
        order = [b for b in gm.sorted_branches(per_branch)]
        if len(order) >= 2 and min(per_branch[order[0]]) > min(min(per_branch[b]) for b in order[1:]):
            f.add("A:oldest-report-build-in-later-sorted-component-branch")
            first_min = min(per_branch[order[0]])
            if any(plv[pc - 1] <= first_min - 2 for items in req.values() for _pb, _l, pc in items):
                f.add("A:shipping-parent-build-days-before-first-branch-report-builds")
        if any(plv[pc - 1] < lv[key[1] - 1] for key, items in req.items() for _pb, _l, pc in items):
            f.add("A:parent-build-older-than-component-build-it-ships")
    if comp.get("minors"):
        f.add("A:component-version-from-VERSION-file")
        mins = comp["minors"]
        rb = sorted(c for _b, c in req if c in set(comp["tags"]))
        if len({mins[c - 1] for c in rb}) > 1:
            f.add("A:VERSION-changes-between-report-related-component-builds")
            if any(mins[key[1] - 1] != mins[rb[0] - 1] and items for key, items in req.items()):
                f.add("A:build-made-after-VERSION-change-is-shipped")
    if case.get("comp2") is not None:
        f.add("A:parent-pins-two-components")
        if any(req.values()) and any(info.get("req2", {}).values()):
            f.add("A:both-components-have-shipped-report-builds")
    if len(par["heads"]) == 2:
        f.add("A:parent-two-branches")
    if any(len(p) == 2 for p in par["parents"]):
        f.add("A:parent-merge")
    if any(len(p) == 2 for p in comp["parents"]):
        f.add("A:component-merge")
    if comp.get("tags2"):
        f.add("A:component-commit-built-twice")
    if info.get("nonlisting"):
        f.add("A:component-build-without-own-commit")
    if pmatch:
        f.add("A:parent-own-matching-commit")
    if len(ctags) < len(comp["parents"]):
        f.add("A:component-partially-tagged")
    if any(c not in ctags for _b, c in req):
        f.add("A:component-head-not-built")
    cb_commits = {c for _b, c in req}
    pin_commits = [gm.pin_commit(v) for v in par["pins"]]
    if any(gm.pin_rank(v) for v in par["pins"]):
        f.add("A:pin-names-second-build-of-a-commit")
    if any(v not in cb_commits for v in pin_commits):
        f.add("A:pin-names-non-report-build")
    rc = gm.reach_masks(comp["parents"])
    if any(not any((rc[v] >> c) & 1 for c in cb_commits) for v in pin_commits):
        f.add("A:pin-without-report-content")
    nontrivial = False
    by_parent_build = {}
    for key, items in req.items():
        if items:
            f.add("A:ships")
        if len({pb for pb, _l, _c in items}) == 2:
            f.add("A:shipped-in-two-parent-branches")
        for pb, lab, pc in items:
            by_parent_build.setdefault((pb, pc), set()).add(key)
            if lab == gm.NOT_BUILT:
                f.add("A:ships-at-not-built-head")
            if gm.pin_rank(par["pins"][pc - 1]) and gm.pin_commit(par["pins"][pc - 1]) == key[1]:
                f.add("A:second-build-number-ships-first")
            if pc not in pmatch and not (shown.get((pb, pc)) or (0, 0, [1]))[2]:
                f.add("A:bump-without-own-matching-commit")
    if any(len(v) >= 2 for v in by_parent_build.values()):
        f.add("A:bump-spans-several-component-builds")
    # a side-line build (not contained in the main-line build shipped earlier) is shipped by a later parent build
    rp = gm.reach_masks(par["parents"])
    for (pb1, pc1), keys1 in by_parent_build.items():
        for (pb2, pc2), keys2 in by_parent_build.items():
            if pb1 == pb2 and pc1 != pc2 and (rp[pc2] >> pc1) & 1:
                if any(not (rc[a[1]] >> b[1]) & 1 and not (rc[b[1]] >> a[1]) & 1 for a in keys1 for b in keys2):
                    f.add("A:side-line-build-shipped-after-main-line-build")
                    # ... and the two lines have a report-related build in common below them
                    if any(not (rc[a[1]] >> b[1]) & 1 and not (rc[b[1]] >> a[1]) & 1
                           and any((rc[a[1]] >> c[1]) & 1 and (rc[b[1]] >> c[1]) & 1 for c in req)
                           for a in keys1 for b in keys2):
                        f.add("A:side-line-shares-ancestor-build-with-shipped-main-line")
    # 'first' is a real choice: a later candidate of the same branch also ships the build
    pexp = gm.c06_expected(par["parents"], par["heads"], par["tags"], [])
    for e in pexp:
        if len(e["builds"]) >= 2:
            for key, items in req.items():
                firsts = {pc for pb, _l, pc in items if pb == e["branch"]}
                if firsts and any(b not in firsts and (rc[pin_commits[b - 1]] >> key[1]) & 1 for b in e["builds"]):
                    f.add("A:later-candidate-not-first")
                    nontrivial = True
    return f, nontrivial


def _report(acc, case, problems):
    seen = set()
    for sig, msg, obs, want in problems:
        if sig not in seen:
            seen.add(sig)
            acc.violation("C07:" + sig, case, msg, obs, want)


def _run_A(shard, tier, acc):
    _p, gi, j = shard
    name, fam, pns, branch_sets, merges, match_max, k, printed, hist = _A_GROUPS[tier][gi]
    comps = _comps(fam)
    shapes = []
    for n in pns:
        for names in branch_sets:
            shapes += [(n, p, h) for p, h in _parent_shapes(n, names, merges)]
    idx = -1
    for comp0 in comps:
        rc = gm.reach_masks(comp0["parents"])
        versions = gm.c07_versions(comp0)
        nc = len(comp0["parents"])
        if hist == "levels":
            # component commit times 2 days apart, in history order and against it; the parent's commits follow each
            # other 2 days apart, starting at every level from just (half a day) before the oldest report-related
            # component build - the earliest time the property's quantifier allows - to the newest component commit
            ref_builds, _e = gm.c07_component_builds(comp0)
            timed = []
            for lv in (list(range(nc)), list(range(nc - 1, -1, -1))):
                kmin = min((lv[c - 1] for _b, c in ref_builds), default=0)
                timed.append((dict(comp0, levels=lv), list(range(kmin - 1, nc))))
        else:
            timed = [(comp0, [None])]
        for n, parents, heads in shapes:
            idx += 1
            if idx % k != j:
                continue
            if acc.expired():
                return
            ids = list(range(1, n + 1))
            pin_sets = list(gm.enumerate_pins(parents, versions, rc))
            for comp, starts in timed:
              for start in starts:
                for tags in gm.subsets(ids):
                    for match in gm.subsets(ids):
                        if len(match) > match_max:
                            continue
                        for pins in pin_sets:
                            for texts in _HISTORIES[hist]:
                                par = {"parents": parents, "heads": heads, "tags": tags, "match": match, "pins": pins}
                                if start is not None:
                                    par["levels"] = [start + i for i in range(n)]
                                case = {"part": "A", "comp": comp, "par": par}
                                if texts != [T1]:
                                    case["texts"] = texts
                                problems, info = check_scenario(case, acc, printed)
                                feats, nontriv = _features_A(case, info)
                                if info.get("dups"):
                                    acc.note_sum("A_duplicate_included_at_entries", info["dups"])
                                if info.get("opt_expected"):
                                    acc.feat("A:cross-branch-containment(accepted either way)")
                                    acc.note_sum("A_cross_branch_entries_possible", info["opt_expected"])
                                    acc.note_sum("A_cross_branch_entries_recorded", info.get("opt_observed", 0))
                                nship = sum(len(v) for v in info.get("req", {}).values())
                                acc.case(nontrivial=nontriv, features=tuple(feats),
                                         outcome=f"A builds={len(info.get('req', {}))} ships={nship}"
                                                 + (" VIOLATION" if problems else ""))
                                if nontriv and len(match) == 0 and len(tags) == 1:
                                    acc.sample(case)
                                if problems:
                                    _report(acc, case, problems)
                                    if _too_many_hangs(acc, problems):
                                        return


# ------------------------------------------------------------------ part B
class _StubRepo:
    """Has exactly what ReposCollection uses of a ProjectRepo."""

    def __init__(self, repo_id, deps, log):
        self.repo_id = repo_id
        self._COMPONENTS_VERSIONS_LOCATIONS = {d: "DEPENDS" for d in deps}
        self._log = log

    def build_report_rgraph(self, search_text, components_rgraphs):
        token = ("rgraph", self.repo_id, search_text)       # the graph made for this request
        self._log.append((self.repo_id, search_text, dict(components_rgraphs)))
        return token


def check_collection(case, acc):
    try:
        with gm.cpu_limit(0.3):
            return _check_collection(case, acc)
    except gm.Hang:
        return [("collection-hangs", "ReposCollection / make_reports_data does not terminate (0.3 s CPU)",
                 "no result", "ValueError" if gm.deps_cyclic(case["ids"], case["deps"]) else "an ordering")]


def _check_collection(case, acc):
    ids, order = case["ids"], case["order"]
    deps = {k: list(v) for k, v in case["deps"].items()}
    present = set(ids)
    cyclic = gm.deps_cyclic(ids, deps)
    log = []
    acc.trans(1)
    try:
        coll = gm.ghist.ReposCollection({i: _StubRepo(i, deps.get(i, ()), log) for i in order})
    except ValueError:
        if cyclic:
            return []
        return [("acyclic-rejected", "ValueError for an acyclic dependency graph", "ValueError", "an ordering")]
    except gm.Hang:
        raise
    except Exception as e:  # noqa
        return [(f"collection-raises-{type(e).__name__}", f"ReposCollection raised {e!r}", repr(e),
                 "ValueError" if cyclic else "an ordering")]
    if cyclic:
        return [("cycle-accepted", "cyclic component dependencies were not rejected with ValueError",
                 list(coll.sorted_repos), "ValueError")]
    so = list(coll.sorted_repos)
    if sorted(so) != sorted(ids):
        return [("order-not-a-permutation", "sorted_repos is not a permutation of the repositories", so, sorted(ids))]
    pos = {r: k for k, r in enumerate(so)}
    for r in ids:
        for d in deps.get(r, ()):
            if d in present and pos[d] > pos[r]:
                return [("owner-before-component", f"{r} is ordered before its component {d}", so, None)]
    # a history of report requests on the same collection object: every request analyses every repository once,
    # components first, and hands each repository the graphs made for *this* request
    for k, text in enumerate(case.get("texts") or ["BUG-7"]):
        del log[:]
        acc.trans(1)
        pre = f"request-{k + 1}-of-history/" if k else ""
        try:
            res = coll.make_reports_data(text)
        except gm.Hang:
            raise
        except Exception as e:  # noqa
            return [(f"{pre}reports-raises-{type(e).__name__}", f"make_reports_data raised {e!r}", repr(e), None)]
        called = [c[0] for c in log]
        if sorted(called) != sorted(ids):
            return [(pre + "analysis-calls", "not every repository was analysed exactly once", called, sorted(ids))]
        cpos = {r: n for n, r in enumerate(called)}
        for r in ids:
            for d in deps.get(r, ()):
                if d in present and cpos[d] > cpos[r]:
                    return [(pre + "analysis-order", f"{r} was analysed before its component {d}", called, None)]
        for rid, got_text, comps in log:
            want = {d: ("rgraph", d, text) for d in deps.get(rid, ()) if d in present}
            if comps != want or got_text != text:
                return [(pre + "components-argument",
                         f"{rid} did not receive exactly the graphs of its present components made for this request",
                         sorted(comps.items()), sorted(want.items()))]
        if sorted(res) != sorted((r, ("rgraph", r, text)) for r in ids):   # order of the result: not in the statement
            return [(pre + "reports-data", "make_reports_data does not return every repository's graph once",
                     repr(res), None)]
    return []


_NAMES = ["a", "b", "c", "d", "e"]
ABSENT = "zz_absent"


def _run_B(shard, tier, acc):
    _p, gi, j = shard
    k_ids, loops, orders, absent, nsh = _B_GROUPS[tier][gi]
    ids = _NAMES[:k_ids]
    pairs = [(u, v) for u in ids for v in ids if loops or u != v]
    perms = list(itertools.permutations(ids))
    if orders != "all":
        perms = [perms[0], perms[-1]][:orders]
    absent_variants = list(gm.subsets(ids)) if absent else [[]]
    for mask in range(j, 1 << len(pairs), nsh):
        if (mask & 1023) == 0 and acc.expired():
            return
        deps = {i: [] for i in ids}
        for b, (u, v) in enumerate(pairs):
            if (mask >> b) & 1:
                deps[u].append(v)
        for av in absent_variants:
            d2 = {i: deps[i] + ([ABSENT] if i in av else []) for i in ids}
            for order in perms:
                case = {"part": "B", "ids": ids, "deps": d2, "order": list(order), "texts": ["BUG-7", "BUG-8", "BUG-7"]}
                problems = check_collection(case, acc)
                cyc = gm.deps_cyclic(ids, d2)
                nedges = sum(1 for u in ids for v in d2[u] if v in ids)
                feats = ["B:cyclic" if cyc else "B:acyclic"]
                if not cyc:
                    feats.append("B:repeated-request")
                if any(u in d2[u] for u in ids):
                    feats.append("B:self-loop")
                if av:
                    feats.append("B:absent-dependency")
                if not cyc and nedges:
                    feats.append("B:order-forced")
                acc.case(nontrivial=nedges > 0, features=feats,
                         outcome=("B cyclic" if cyc else f"B acyclic edges={nedges}") + (" VIOLATION" if problems else ""))
                if nedges == 2 and order == perms[-1]:
                    acc.sample(case)
                if problems:
                    _report(acc, case, problems)
                    if _too_many_hangs(acc, problems):
                        return


def _too_many_hangs(acc, problems):
    """Every hanging case costs its whole CPU limit: after three of them the shard stops (run reported as capped)."""
    if any("hangs" in p[0] for p in problems):
        acc.note_sum("hangs", 1)
        if acc.extra.get("sum_hangs", 0) >= 3:
            acc.capped = True
            return True
    return False


def _run_A3(shard, tier, acc):
    """Three repositories: app pins lib and lib2 (both linear, up to 2 commits; thorough: lib up to 3)."""
    _p, _gi, j = shard
    k = _A3_SHARDS[tier]
    comps1 = _linear_comps(3 if tier == "thorough" else 2)
    comps2 = _linear_comps(2)
    shapes = []
    for n in (1, 2):
        shapes += [(n, p, h) for p, h in _parent_shapes(n, PB1, True)]
    if tier == "thorough":
        shapes += [(2, p, h) for p, h in _parent_shapes(2, PB2, True)]
    idx = -1
    for comp in comps1:
        rc1 = gm.reach_masks(comp["parents"])
        for comp2 in comps2:
            rc2 = gm.reach_masks(comp2["parents"])
            idx += 1
            if idx % k != j:
                continue
            if acc.expired():
                return
            for n, parents, heads in shapes:
                ids = list(range(1, n + 1))
                pins1 = list(gm.enumerate_pins(parents, gm.c07_versions(comp), rc1))
                pins2 = list(gm.enumerate_pins(parents, gm.c07_versions(comp2), rc2))
                for tags in gm.subsets(ids):
                    for p1 in pins1:
                        for p2 in pins2:
                            case = {"part": "A", "comp": comp, "comp2": comp2,
                                    "par": {"parents": parents, "heads": heads, "tags": tags, "match": [],
                                            "pins": p1, "pins2": p2}}
                            problems, info = check_scenario(case, acc, False)
                            feats, nontriv = _features_A(case, info)
                            nship = sum(len(v) for v in info.get("req", {}).values()) + \
                                sum(len(v) for v in info.get("req2", {}).values())
                            acc.case(nontrivial=nontriv, features=tuple(feats),
                                     outcome=f"A3 ships={nship}" + (" VIOLATION" if problems else ""))
                            if problems:
                                _report(acc, case, problems)
                                if _too_many_hangs(acc, problems):
                                    return


def run_shard(shard, tier, seed, acc):
    if shard[0] == "A3":
        _run_A3(shard, tier, acc)
    elif shard[0] == "A":
        _run_A(shard, tier, acc)
    else:
        _run_B(shard, tier, acc)


def replay(case, acc):
    if case["part"] == "A":
        problems, _info = check_scenario(case, acc, True)
    else:
        problems = check_collection(case, acc)
    acc.case(nontrivial=True, outcome="replay" + (" VIOLATION" if problems else ""))
    _report(acc, case, problems)
