"""C02 — conflict-free (LL(1)) grammars are parsed exactly (DESIGN.md §2 C02).

Space (every member is visited, nothing sampled)
  sized   : the size-bounded grammar spaces of C01 (non-terminals (E,A) / (E,A,B), terminals a,b / a).
  follow  : directed family "one rich symbol + two helper symbols" for FOLLOW interplay
            (models.grammar.family_follow): E with 1-2 alternatives of length <= 3 over {A, N} and three
            terminals, A and N from the menu of <= 2 alternatives of length <= 1 (eps / one terminal, both
            orders).  quick: every alternative of E contains a helper and one representative per renaming
            of the terminals; thorough: the whole family, plus E occurring in its own alternatives behind a
            terminal, plus "two rich symbols + one helper".
  Grammars the *reference* left-recursion test rejects are outside the quantifier and only counted.
  x insertion order of the productions dict (start symbol first / start symbol last; sized spaces and the
    two-rich family) x both smart_factorization settings x all token strings of length <= L (members and
    non-members).  One case is a short history on one parser object: construct, is_ambiguous(), all
    parses, is_ambiguous() again.
  x call sequences on ONE parser object (sized / blank spaces; thorough also follow2): 2-3 calls over
    {plain parse, parse(start_symbol_name=X) for every other non-terminal X} x {shortest sentence, shortest
    non-sentence}, ending with a plain parse, each sequence on a freshly constructed parser.  Every plain
    parse is judged by the language of the constructor's start symbol regardless of the calls before it
    (an overridden call carries no obligation).

Oracle: independent nullable / FIRST / FOLLOW / predict sets (models.grammar) decide "LL(1) as written";
the reference language Lang_<=L(E) is a bounded fixpoint over sets of token tuples.
  (a) LL(1) as written  =>  is_ambiguous() is False in both modes, and -- whatever is_ambiguous() says --
      a token string is accepted iff it is in Lang(E), with a tree that passes the C01 validator (the
      derivation is unique), and every non-member raises ParsingError;
  (b) is_ambiguous() False in a mode  =>  the same language obligation in that mode; when both modes are
      obliged they return the same tree.
"""

import itertools

from mc import llharness as H
from models import grammar as G

ID = "C02"
TITLE = "Conflict-free (LL(1)) grammars are parsed exactly"
TECHNIQUE = ("bounded exhaustive grammar x input enumeration; independent FIRST/FOLLOW LL(1) test and "
             "bounded-fixpoint reference language")
DESIGN_REF = "§2 C02"
LEVEL_TEXT = ("Every non-left-recursive grammar of the size-bounded spaces and of the directed FOLLOW family "
              "that is LL(1) as written (independent FIRST/FOLLOW) or whose table the parser reports "
              "conflict-free is run, in both factorization modes, on every token string up to the length "
              "bound; acceptance, the returned tree and the ambiguity report are compared with the reference "
              "language and the derivation validator.")
LEVEL_NOTE = ("Small-scope: at most 3 non-terminals, alternatives of length <= 3, inputs up to the length "
              "bound. Trusted: models/grammar.py (nullable, FIRST, FOLLOW, bounded language, validator); an "
              "LL(1) grammar is unambiguous, so a valid derivation tree is the unique one.")
RULE = ("case = one non-left-recursive grammar: reference LL(1) test, constructed in both modes, ambiguity "
        "report compared, and -- when LL(1) as written or reported conflict-free -- every token string up to "
        "the length bound parsed and compared with the reference language. Distinct by construction. "
        "Non-trivial: the grammar carries a language obligation, has a nullable symbol (FOLLOW decides "
        "table entries) and has both members and non-members among the inputs.")
ASSUMPTIONS = [
    "left-recursive grammars (reference cycle test) are outside the quantifier: counted, not judged",
    "LL(1) as written is decided on the user's grammar by the text-book fixpoints over all productions "
    "(also unreachable ones) -- the strictest reading, so no grammar is wrongly put under obligation (a)",
    "for a grammar that is not LL(1) as written only the modes whose table the parser itself reports "
    "conflict-free are obliged (limited back-tracking may legitimately reject in the other mode)",
    "a constructor answer GrammarIsRecursive for a reference-acyclic grammar is C03's finding, and a parse "
    "stopped by the non-termination guard is C03's finding: counted here, not alarmed on",
]
REQUIRED_FEATURES = ["ref:ll1-as-written", "ref:not-ll1-as-written", "impl:table-conflict-free",
                     "impl:table-with-conflicts", "obliged:ll1:member", "obliged:ll1:non-member",
                     "obliged:conflict-free-only:member", "obliged:conflict-free-only:non-member",
                     "grammar:nullable", "grammar:nullable-symbol-after-non-terminal",
                     "grammar:epsilon-alternative-before-token-alternative", "family:follow",
                     "order:start-symbol-last", "grammar:follow-dependency-chain",
                     "family:wide", "grammar:more-than-5-alternatives-with-one-first-symbol",
                     "family:diverge", "prefix-family:non-monotone-divergence",
                     "family:blank", "config:skip_tokens-empty", "config:skip_tokens-None",
                     "config:skip_tokens-SPACE", "config:sentence-with-blank-token",
                     "history:override-then-plain-parse", "history:override-call-returned-tree",
                     "history:override-call-failed",
                     "family:syn", "config:syn-chain", "config:syn-identity", "config:syn-merge"]

_SPACES = {
    # (kind, params..., input length, shards)
    "quick": [("sized", "EA", "ab", 2, 2, 5, 4, 16), ("sized", "EAB", "a", 2, 3, 6, 4, 48),
              ("follow", "xyb", 3, True, True, False, 3, 160, False),
              ("wide", "pqzcdefgh", 0, 0, 0, 0, 3, 8), ("diverge", "pabcdxy", 0, 0, 0, 0, 3, 8),
              ("blank", "EA", "blank", 2, 2, 4, 4, 16), ("syn", "", 0, 0, 0, 0, 3, 4)],
    "thorough": [("sized", "EA", "ab", 3, 3, 6, 5, 32), ("sized", "EA", "ab", 3, 3, 7, 4, 160),
                 ("sized", "EAB", "a", 2, 3, 6, 5, 64), ("sized", "EAB", "ab", 2, 2, 5, 4, 32),
                 ("follow", "xyb", 3, False, True, False, 4, 400, True),
                 ("follow", "xy", 3, False, False, True, 4, 120, True),
                 ("follow2", "xy", 0, 0, 0, 0, 4, 64),
                 ("prefix", "ab", True, 4, 0, 0, 5, 64), ("wide", "pqzcdefgh", 0, 0, 0, 0, 4, 48),
                 ("diverge", "pabcdxy", 0, 0, 0, 0, 4, 24), ("blank", "EA", "blank", 2, 2, 5, 5, 32),
                 ("syn", "", 0, 0, 0, 0, 4, 4)],
}
# spaces explored in both insertion orders of the productions dict
_BOTH_ORDERS = ("sized", "follow2")
# call sequences on one parser object: {tier: {space kind: longest sequence}}; the first sized space (E, A)
# also gets the sequences of three calls in the quick tier
_SEQ_LEN = {"quick": {"sized": 2, "blank": 2}, "thorough": {"sized": 3, "follow2": 3, "blank": 3}}


def _space_gen(sp, k, K):
    kind = sp[0]
    if kind == "sized":
        _, nts, key, ma, ml, ms, L, _ = sp
        cfg = G.letters_cfg(key)
        return cfg, L, G.enum_sized(tuple(nts), cfg.terms, ma, ml, ms, (k, K))
    if kind == "follow":
        _, key, ml, need_nt, canonical, self_ref, L, _, two = sp
        cfg = G.letters_cfg(key)
        return cfg, L, G.family_follow(cfg.terms, ml, need_nt, canonical, (k, K), self_ref=self_ref,
                                       two_token_helpers=two)
    if kind == "follow2":
        cfg = G.letters_cfg(sp[1])
        return cfg, sp[6], G.family_follow2(cfg.terms, (k, K))
    if kind == "wide":
        cfg = G.letters_cfg(sp[1])
        return cfg, sp[6], (g for j, g in enumerate(G.family_wide(cfg.terms)) if j % K == k)
    if kind == "syn":
        cfg = G.syn_cfg(sorted(G.SYN_MAPS)[k])
        return cfg, sp[6], iter(G.family_syn(cfg.terms))
    if kind == "blank":
        _, nts, key, ma, ml, ms, L, _ = sp
        cfg = G.blank_cfg()
        return cfg, L, G.enum_sized(tuple(nts), ("a", "SPACE"), ma, ml, ms, (k, K))
    if kind == "diverge":
        cfg = G.letters_cfg(sp[1])
        return cfg, sp[6], (g for j, g in enumerate(G.family_diverge(cfg.terms)) if j % K == k)
    if kind == "prefix":
        cfg = G.letters_cfg(sp[1])
        gen = (g for j, g in enumerate(G.family_prefix(cfg.terms, ("E", "A"), full=sp[2], min_group=sp[3]))
               if j % K == k)
        return cfg, sp[6], gen
    raise ValueError(sp)


def bounds(tier):
    out = []
    for sp in _SPACES[tier]:
        if sp[0] == "sized":
            _, nts, key, ma, ml, ms, L, _ = sp
            out.append({"space": "sized", "non_terminals": list(nts), "terminals": list(key), "dict_orders": 2,
                        "max_alternatives": ma, "max_alt_len": ml, "max_total_size": ms,
                        "grammars": G.count_sized(len(nts), len(key), ma, ml, ms), "input_len_max": L})
        elif sp[0] == "follow":
            _, key, ml, need_nt, canonical, self_ref, L, _, two = sp
            out.append({"space": "follow-family", "terminals": list(key), "rich_alt_len_max": ml,
                        "helper_definitions_with_two_terminals": two,
                        "every_rich_alternative_has_a_helper": need_nt,
                        "one_representative_per_terminal_renaming": canonical,
                        "rich_symbol_in_own_alternatives_behind_terminal": self_ref,
                        "grammars": "counted at run time (feature family:follow)", "input_len_max": L})
        elif sp[0] == "syn":
            out.append({"space": "synonym-map family: tokenizer configurations whose synonyms rename re groups in "
                                 "chains / to themselves x tiny LL(1) grammars over the final token names",
                        "synonym_maps": {k_: v[0] for k_, v in G.SYN_MAPS.items()},
                        "grammars_per_map": len(G.family_syn(("a", "b", "c", "d"))), "input_len_max": sp[6]})
        elif sp[0] == "blank":
            _, nts, key, ma, ml, ms, L, _ = sp
            out.append({"space": "sized x constructor option skip_tokens (tokenizer with SPACE and COMMENT groups; "
                                 "SPACE is a terminal of the grammars)", "non_terminals": list(nts),
                        "terminals": ["a", "SPACE"], "skip_tokens_values":
                            [repr(G.skip_value(o)) for o in _skip_options(tier)],
                        "max_alternatives": ma, "max_alt_len": ml, "max_total_size": ms,
                        "grammars": G.count_sized(len(nts), 2, ma, ml, ms), "input_len_max": L})
        elif sp[0] == "diverge":
            out.append({"space": "non-monotone-divergence family (three alternatives with one first symbol, "
                                 "all six orders) under obligation (b)", "terminals": list(sp[1]),
                        "grammars": sum(1 for _ in G.family_diverge(tuple(sp[1]))), "input_len_max": sp[6]})
        elif sp[0] == "wide":
            out.append({"space": "wide-group family (4-7 alternatives with one prefix and distinct next symbols)",
                        "terminals": list(sp[1]), "grammars": sum(1 for _ in G.family_wide(tuple(sp[1]))),
                        "input_len_max": sp[6]})
        elif sp[0] == "prefix":
            out.append({"space": "common-prefix family of C01 (groups around the 'more than 5 alternatives' "
                                 "rule of smart factorization)", "min_group": sp[3], "all_variants": sp[2],
                        "grammars": sum(1 for _ in G.family_prefix(tuple(sp[1]), full=sp[2], min_group=sp[3])),
                        "input_len_max": sp[6]})
        else:
            out.append({"space": "two-rich-one-helper family", "terminals": list(sp[1]), "dict_orders": 2,
                        "grammars": "counted at run time (feature family:follow2)", "input_len_max": sp[6]})
    return {"spaces": out, "modes": ["smart_factorization=True", "smart_factorization=False"],
            "start_symbol": "E",
            "call_sequences_on_one_parser": {"longest_sequence_per_space": _SEQ_LEN[tier],
                                             "first_sized_space_quick": 3,
                                             "calls": "plain parse / parse(start_symbol_name=X) for every other "
                                                      "non-terminal X, shortest sentence and shortest non-sentence "
                                                      "each; sequences end with a plain parse and contain an "
                                                      "override; every sequence on a fresh parser"}}


def _skip_options(tier):
    return G.SKIP_OPTIONS if tier == "thorough" else G.SKIP_OPTIONS[:5]


def shards(tier):
    return [(i, k, sp[7]) for i, sp in enumerate(_SPACES[tier]) for k in range(sp[7])]


# ------------------------------------------------------------------------------------ one case
def _shape_feats(pm):
    nul = G.nullables(pm)
    feats = []
    if nul:
        feats.append("grammar:nullable")
    for x, alts in pm.items():
        for a in alts:
            for i in range(1, len(a)):
                if a[i] in nul and a[i - 1] in pm:
                    feats.append("grammar:nullable-symbol-after-non-terminal")
        # chain of FOLLOW dependencies: x ends with a non-terminal y whose alternative ends with a
        # non-terminal again
        for a in alts:
            if a and a[-1] in pm and a[-1] != x and any(b and b[-1] in pm and b[-1] not in (x, a[-1])
                                                       for b in pm[a[-1]]):
                feats.append("grammar:follow-dependency-chain")
        if len(alts) > 5 and max(sum(1 for a in alts if a[:1] == b[:1]) for b in alts) > 5:
            feats.append("grammar:more-than-5-alternatives-with-one-first-symbol")
        seen_eps = False
        for a in alts:
            if not a:
                seen_eps = True
            elif seen_eps and a[0] not in pm:
                feats.append("grammar:epsilon-alternative-before-token-alternative")
    return sorted(set(feats)), bool(nul)


def _machine_state(p):
    """Everything LLParser.parse reads from the parser object (the tokenizer configuration is the same
    for both modes by construction); None when it cannot be read."""
    try:
        return ({x: [tuple(r.production) for r in rr] for x, rr in p.prods_map.items()},
                {k: [tuple(r.production) for r in rr] for k, rr in p.parse_table.items() if rr},
                set(p._suffix_symbols), set(p._seq_symbols), set(p.terminals), set(p.skip_tokens),
                p.start_symbol_name)
    except Exception:  # noqa
        return None


_ABSENT = "absent"      # the constructor argument skip_tokens is not given at all


def _call_sequences(pm, start, inputs, skipped, lang_all, seq_len):
    """Call sequences of length 2..seq_len on ONE parser object that end with a plain parse() and contain
    at least one parse(text, start_symbol_name=X), X another non-terminal.  A call is (X or None, tokens);
    the texts are the first sentence and the first non-sentence, in the (shortest first) input list of the
    case, of the symbol the call starts from.  -> list of sequences."""
    def texts(sym):
        lg = lang_all[sym]
        sent = non = None
        for toks in inputs:
            names = tuple(n for n, _ in toks if n not in skipped)
            if names in lg:
                if sent is None:
                    sent = toks
            elif non is None:
                non = toks
            if sent is not None and non is not None:
                break
        return [t for t in (sent, non) if t is not None]
    plain = [(None, t) for t in texts(start)]
    over = [(x, t) for x in pm if x != start for t in texts(x)]
    seqs = [(o, pl) for o in over for pl in plain]
    if seq_len >= 3:
        calls = plain + over
        seqs += [(c1, c2, pl) for c1 in calls for c2 in calls if c1[0] is not None or c2[0] is not None
                 for pl in plain]
    return seqs


def check_grammar(cfg, start, prods, L, inputs, acc, modes=(True, False), skip=_ABSENT, seq_len=0,
                  only_sequence=None):
    """Explore one case (one grammar, one insertion order, one value of skip_tokens).  -> (features,
    nontrivial, outcome label, number of compared parses); a grammar outside the quantifier is only labelled.
    ``seq_len`` >= 2: additionally the call sequences of _call_sequences, each on a freshly constructed
    parser; ``only_sequence``: replay of one recorded sequence."""
    pm = dict(prods)
    if G.left_cycle(pm):
        return ["outside:left-recursive"], False, "outside", 0
    skipped = cfg.effective_skip(None if skip == _ABSENT else skip)
    terms = set(cfg.terms)
    ll1 = G.is_ll1(pm, start)
    feats, has_nullable = _shape_feats(pm)
    feats.append("ref:ll1-as-written" if ll1 else "ref:not-ll1-as-written")
    lang = None
    n_cmp = 0
    members = non_members = 0
    shapes = {}
    out = []
    done = {}          # smart -> machine state of an obliged mode already explored

    if skip != _ABSENT:
        feats.append("config:skip_tokens-" + ("None" if skip is None else
                                              ("empty" if not skip[1] else "+".join(skip[1]))))
    lang_all = None
    wrong_fresh = set()
    # violations seen under an explicit skip_tokens value name that value in their signature
    opt = "" if skip == _ABSENT else ":skip_tokens=" + ("None" if skip is None else
                                                        ("empty" if not skip[1] else "+".join(skip[1])))

    def case(smart, toks=None):
        c = G.to_case(cfg, start, prods, smart=smart, L=L)
        if toks is not None:
            c["input"] = [list(t) for t in toks]
        if skip != _ABSENT:
            c["skip"] = skip
        return c

    def make(smart):
        return H.build(cfg, start, prods, smart) if skip == _ABSENT else H.build(cfg, start, prods, smart,
                                                                                  skip=skip)

    for smart in modes:
        with H.Watchdog():
            try:
                res, p = make(smart)
            except H.Abort:
                res, p = "abort:watchdog", None
            acc.trans()
            if res != "ok":
                feats.append("impl:rejected:" + res)
                out.append("X")
                if ll1 and res != "recursive":
                    acc.violation("C02:ll1-grammar-not-constructed:" + res.replace(":", "-"), case(smart),
                                  f"the constructor does not accept the LL(1) grammar {G.show(prods)} "
                                  f"(smart_factorization={smart}): {res}", res,
                                  "a parser that reports the grammar as not ambiguous")
                continue
            try:
                amb = bool(p.is_ambiguous())
            except Exception as e:  # noqa
                amb = None
                acc.violation("C02:is_ambiguous-raises", case(smart), f"is_ambiguous() raised {e!r}",
                              repr(e), "True or False")
            feats.append("impl:table-with-conflicts" if amb else "impl:table-conflict-free")
            diag = None
            if ll1 and amb:
                diag = H.table_diagnosis(p, start)
                acc.violation("C02:ll1-grammar-reported-ambiguous:" + diag, case(smart),
                              f"is_ambiguous() is True for the LL(1) grammar {G.show(prods)} "
                              f"(smart_factorization={smart}); predict sets "
                              f"{ {x: [sorted(s) for s in l] for x, l in G.predict_sets(pm, start).items()} }",
                              True, False)
            if not (ll1 or amb is False):
                out.append("-")
                continue
            # ---- language obligation
            why = "ll1" if ll1 else "conflict-free-only"
            out.append("L" if ll1 else "c")
            state = _machine_state(p)
            if state is not None and any(state == st for st in done.values()):
                # Same productions, table, suffix symbols, terminals and skip set as the mode explored
                # before: parse() reads nothing else, so the runs would be identical.  Not re-run.
                feats.append("modes:identical-parser-not-rerun")
                continue
            done[smart] = state
            if lang is None:
                lang_all = G.lang_bounded(pm, L)
                lang = lang_all[start]
            for toks in ([] if only_sequence else inputs):
                # the token sequence of a text: its tokens that are not skipped as configured
                names = tuple(n for n, _ in toks if n not in skipped)
                member = names in lang
                try:
                    r, root = H.parse(p, cfg, toks)
                except H.Abort:
                    r, root = "abort:watchdog", None
                acc.trans()
                n_cmp += 1
                if r.startswith("abort"):
                    feats.append("parse:" + r)       # C03's finding
                    break
                if member:
                    members += 1
                    feats.append(f"obliged:{why}:member")
                    if r == "tree":
                        if skip != _ABSENT and len(names) == len(toks) and "SPACE" in names:
                            feats.append("config:sentence-with-blank-token")
                        bad = G.validate_tree(root, pm, terms, start,
                                              toks if not skipped else tuple(t for t in toks if t[0] not in skipped))
                        shape = G.tree_shape(root)
                        if bad is not None:
                            acc.violation("C02:sentence-parsed-to-invalid-tree:" + bad[0], case(smart, toks),
                                          f"{G.show(prods)} (smart_factorization={smart}): the tree for "
                                          f"{cfg.text(toks)!r} is not the derivation tree: {bad[1]}",
                                          repr(shape), "the unique derivation tree")
                        shapes.setdefault(toks, {})[smart] = shape
                    else:
                        wrong_fresh.add(toks)
                        if diag is None:
                            diag = H.table_diagnosis(p, start)
                        acc.violation(f"C02:sentence-rejected:{why}:{diag}{opt}", case(smart, toks),
                                      f"{cfg.text(toks)!r} is a sentence of {G.show(prods)} "
                                      f"({'LL(1) as written' if ll1 else 'table reported conflict-free'}, "
                                      f"smart_factorization={smart}) but parse raised {r}", r, "a tree")
                else:
                    non_members += 1
                    feats.append(f"obliged:{why}:non-member")
                    if r == "tree":
                        wrong_fresh.add(toks)
                        if diag is None:
                            diag = H.table_diagnosis(p, start)
                        acc.violation(f"C02:non-sentence-accepted:{why}:{diag}{opt}", case(smart, toks),
                                      f"{cfg.text(toks)!r} is not a sentence of {G.show(prods)} "
                                      f"(smart_factorization={smart}) but parse returned a tree",
                                      repr(G.tree_shape(root)), "ParsingError")
                    elif r != "ParsingError":
                        acc.violation("C02:non-sentence-raises-" + r.replace(":", "-"), case(smart, toks),
                                      f"{cfg.text(toks)!r} is not a sentence of {G.show(prods)} "
                                      f"(smart_factorization={smart}): parse raised {root} instead of "
                                      f"ParsingError", r, "ParsingError")
            # ---- the report must not depend on what the parser object has parsed meanwhile
            if ll1 and amb is False:
                try:
                    amb2 = bool(p.is_ambiguous())
                except Exception as e:  # noqa
                    amb2 = repr(e)
                if amb2 is not False:
                    acc.violation("C02:ll1-grammar-reported-ambiguous-after-parsing", case(smart),
                                  f"is_ambiguous() of the LL(1) grammar {G.show(prods)} "
                                  f"(smart_factorization={smart}) was False after construction and is "
                                  f"{amb2} after parsing all token strings of length <= {L}", amb2, False)
            # ---- call sequences on one parser object: a plain parse() must not depend on earlier calls
            if seq_len >= 2 or only_sequence:
                sequences = [only_sequence] if only_sequence else _call_sequences(pm, start, inputs, skipped,
                                                                                  lang_all, seq_len)
                for seq in sequences:
                    res2, p2 = make(smart)
                    acc.trans()
                    if res2 != "ok":
                        break
                    feats.append("history:override-then-plain-parse")
                    prev_tree = False
                    for ci, (ps, toks) in enumerate(seq):
                        toks = tuple(tuple(t) for t in toks)
                        try:
                            r, root = H.parse(p2, cfg, toks, start_symbol=ps)
                        except H.Abort:
                            r, root = "abort:watchdog", None
                        acc.trans()
                        if r.startswith("abort"):
                            break
                        if ps is not None:
                            prev_tree = prev_tree or r == "tree"
                            feats.append("history:override-call-" + ("returned-tree" if r == "tree" else "failed"))
                            continue          # an overridden start symbol carries no language obligation
                        if not any(c[0] is not None for c in seq[:ci]) or toks in wrong_fresh:
                            continue
                        n_cmp += 1
                        names = tuple(n for n, _ in toks if n not in skipped)
                        member = names in lang
                        if member == (r == "tree") and (member or r == "ParsingError"):
                            continue
                        c = case(smart)
                        c["sequence"] = [[c_[0], [list(t) for t in c_[1]]] for c_ in seq[:ci + 1]]
                        what = "sentence-rejected" if member else "non-sentence-accepted"
                        acc.violation("C02:plain-parse-depends-on-earlier-calls:" + what, c,
                                      f"{G.show(prods)} (smart_factorization={smart}): after "
                                      + ", ".join(f"parse({cfg.text(tuple(tuple(t) for t in c_[1]))!r}"
                                                  + (f", start_symbol_name={c_[0]!r})" if c_[0] else ")")
                                                  for c_ in seq[:ci])
                                      + f" on the same parser object, parse({cfg.text(toks)!r}) "
                                      + (f"raised {r} although the text is a sentence" if member else
                                         f"gave {r} although the text is not a sentence")
                                      + " (a fresh parser judges it correctly)", r,
                                      "a tree" if member else "ParsingError")
                        break
    for toks, by_mode in shapes.items():
        if len(by_mode) == 2 and by_mode[True] != by_mode[False]:
            acc.violation("C02:modes-return-different-trees", case("both", toks),
                          f"{G.show(prods)}: both modes are obliged but return different trees for "
                          f"{cfg.text(toks)!r}", repr(by_mode[True]), repr(by_mode[False]))
    nontrivial = bool(n_cmp and has_nullable and members and non_members)
    return sorted(set(feats)), nontrivial, "".join(out), n_cmp


def run_shard(shard, tier, seed, acc):
    i, k, K = shard
    sp = _SPACES[tier][i]
    cfg, L, gen = _space_gen(sp, k, K)
    inputs = G.all_inputs(cfg, L)
    fam = "family:" + sp[0]
    orders = (False, True) if sp[0] in _BOTH_ORDERS else (False,)
    skips = _skip_options(tier) if sp[0] == "blank" else (_ABSENT,)
    seq_len = _SEQ_LEN[tier].get(sp[0], 0)
    if tier == "quick" and i == 0:
        seq_len = 3
    n = 0
    for prods0 in gen:
        for rev, skip in itertools.product(orders, skips):
            prods = tuple(reversed(prods0)) if rev else prods0
            feats, nt, out, n_cmp = check_grammar(cfg, "E", prods, L, inputs, acc, skip=skip,
                                                  seq_len=0 if rev else seq_len)
            if rev:
                feats.append("order:start-symbol-last")
            if sp[0] == "syn":
                feats.append("config:" + cfg.key)
            if sp[0] in ("diverge", "prefix") and G.non_monotone_divergence(dict(prods)):
                feats.append("prefix-family:non-monotone-divergence")
                if "c" in out:
                    feats.append("prefix-family:non-monotone-divergence:conflict-free")
            acc.case(nontrivial=nt, features=feats + [fam], outcome=out, traces=n_cmp)
            n += 1
            if nt and n % 101 == 0:
                acc.sample(G.show(prods))
        if n % 256 < 2 and acc.expired():
            return


def replay(case, acc):
    cfg, start, prods = G.from_case(case)
    L = int(case.get("L", 3))
    if case.get("input") is not None:
        inputs = [tuple(tuple(t) for t in case["input"])]
        L = max(L, len(inputs[0]))
    else:
        inputs = G.all_inputs(cfg, L)
    modes = (True, False) if case.get("smart", "both") == "both" else (bool(case["smart"]),)
    seq = None
    if case.get("sequence"):
        seq = tuple((c[0], tuple(tuple(t) for t in c[1])) for c in case["sequence"])
    feats, nt, out, n_cmp = check_grammar(cfg, start, prods, L, inputs, acc, modes=modes,
                                          skip=case["skip"] if "skip" in case else _ABSENT, only_sequence=seq)
    acc.case(nontrivial=nt, features=feats, outcome=out, traces=n_cmp)


def selftest():
    """Reference LL(1) test / language against the grammars of tests/test_llparser.py
    (models.grammar.selftest), and the real parser's report on the suite's own expectations:
    test_nonll1_grammar_03 (conflict-free after factorization) and _04 (conflict-free only in full mode)."""
    G.selftest()
    cfg = G.letters_cfg("klmnf")
    prods = (("E", (("A",),)), ("A", (("B", "f"),)), ("B", (("k", "l"), ("k", "l", "m"))))
    assert not G.is_ll1(dict(prods), "E")
    res, p = H.build(cfg, "E", prods, True)
    assert res == "ok" and not p.is_ambiguous()
    prods = (("E", (("A",),)), ("A", (("B", "f"),)),
             ("B", (("k", "l", "m"), ("k", "l"), ("k", "n"), ("m", "k", "l"), ("m", "k", "m"))))
    assert H.build(cfg, "E", prods, True)[1].is_ambiguous()
    assert not H.build(cfg, "E", prods, False)[1].is_ambiguous()
    lang = G.lang_bounded(dict(prods), 4)["E"]
    assert lang == {("k", "l", "m", "f"), ("k", "l", "f"), ("k", "n", "f"), ("m", "k", "l", "f"),
                    ("m", "k", "m", "f")}
