"""C15 — SQL filters select exactly the intended rows; values are always bound (DESIGN.md §2 C15).

Every filter tree of the families below is executed by the real SqlMethod / SqlMethodT against a real
in-memory sqlite3 table through a recording connection wrapper; the returned rows are compared with a
Python evaluator of SQL three-valued logic (models/sql3vl.py) and the recorded (sql, params) with the
operands of the tree.

Table t(id, s TEXT, n INT, _d INT, f REAL): 16 rows covering NULL, '', quotes, wildcard characters, an SQL
fragment, text that spells an operator ("IS NULL", "is not null", "NULL", "= 1", "IN (1)"), case variants and
small ints (ROWS below); the same strings are operand values in every spelling (3-tuple, 2-tuple, keyword, _or); "_d" is a column whose name starts with an underscore
like the special keywords _order_by / _as_scalars; columns are also addressed as "t.s", "t.n".

Families (all members visited):
  single  : every atom (column, operator, operand) of the full alphabet (168 atoms: 12 operators, NULL,
            '', quote, wildcard, fragment, [], [v], (v, w), {v, w}, [v, None], [None] ...)
            x spelling {3-tuple, list, condition object, 2-tuple, keyword}
            x method {list, all, one, one_or_none, SqlMethodT.list/one/one_or_none}
            x order {none, id, id DESC via _order_by, id / id DESC via constructor} x placeholder style {?, %s};
            and x result method {list, all, one, one_or_none} x {records, _as_scalars=True on the call,
            as_scalars=True on the method} x first selected column {id, s, n, f} (row 0 holds 0, '', 0, 0.0)
  pairs   : every ordered pair of atoms as  a AND b  and as  _or(a, b)            x placeholder style
  deco    : every sequence of <= 2 top-level items over the item alphabet built from 16 representative
            atoms: 3-tuples, 2-tuples, list/object/lower-case spellings, _or() of 0, 1, 2 operands,
            _or with keywords, static string conditions, ignored None arguments; and every item
            combined with every keyword-filter set
  triples : (thorough) every ordered triple of atoms as a AND b AND c, a AND _or(b, c), _or(a, b) AND c,
            _or(a, b, c)
  deco3   : (thorough) every sequence of 3 top-level items over a reduced item alphabet; nested _or groups
  long    : IN / NOT IN / '=' / '!=' with lists, tuples and sets of 1001 and 2001 values (absent from the table,
            with present ones at the start / beyond the 1000th place, with and without a None member), alone in
            both placeholder styles, AND-ed with 4 representative atoms, inside _or before and after them
  statics : static string conditions with case-sensitive literals ("s = 'a_b'", "s != 'o''k'", "s IN ('a_b', 'Zz')",
            "s GLOB 'a*'") are items of the deco alphabet, alone, combined and inside _or; their text must be
            part of the statement as written
  objects : a condition object g = _or(A, B) kept in a variable (A, B over the 16 representative atoms): query 1 uses g
            inside a bigger _or (first operand, non-first operand, twice in one query, with keywords; 4 partners),
            query 2 uses g alone again and is judged by g's own meaning
  interleave: on one fresh SqlMethod and one connection, all(A) advanced k rows (every k), then list / one_or_none /
            all / an abandoned all with B on the same method and connection, then the outer iterator finished:
            it must yield exactly its own rows in order (A, B over the representative atoms)
  seq     : two calls in a row on one fresh SqlMethod / SqlMethodT object in freshly reloaded modules
            (16 x 16 representative atoms x 6 method pairs x both placeholder styles); and every ordered pair of
            condition lists with the same flattened (field, operator) sequence but different grouping
            ([a, b, c], [_or(a, b), c], [_or(a, b, c)], [a, _or(b, c)], [_or(a), _or(b), c]; [a, b], [_or(a), b],
            [_or(a, b)], [a, _or(b)]) over 4 atoms, same order clause, one method object
            Every other case constructs its own SqlMethod object (only the thorough 'triples' family keeps one
            object per shard).
  illtyped: operator/operand pairs the documentation does not define (outside the property: counted;
            only the "operand never in the SQL text" obligation is checked when they execute)
"""

import sqlite3
from collections import Counter

from models import sql3vl as L

ID = "C15"
TITLE = "SQL filters select exactly the intended rows; values are always bound"
TECHNIQUE = "bounded exhaustive enumeration of filter trees on real sqlite3 against a three-valued-logic evaluator"
DESIGN_REF = "§2 C15"
LEVEL_TEXT = ("Every filter tree with at most 2 (quick) / 3 (thorough) leaves over a 168-atom alphabet, and every "
              "decorated tree (OR groups, keywords, ignored None, static conditions, spellings, methods, orders, "
              "both placeholder styles) over 16 representative atoms, is executed by the real SqlMethod on a real "
              "sqlite3 table; rows are compared with an independent 3VL evaluator, parameters with the operands.")
LEVEL_NOTE = ("Small scope: one fixed 16-row table, trees of more than 3 leaves and OR groups of more than 3 "
              "operands are not explored; GROUP BY and joins are not. The '%s' placeholder style is exercised "
              "through a wrapper that translates it for sqlite. Trusted: sqlite3 itself (3.40), models/sql3vl.py.")
RULE = ("case = one call of one method with one argument list (tree, spelling, keywords, order, placeholder "
        "style); distinct by construction. Non-trivial: some table row evaluates to 'unknown' under the tree "
        "(three-valued logic matters) or the statement binds at least two values.")
ASSUMPTIONS = [
    "operands have the type of the column they are compared with (text column: str, int column: int), or are NULL",
    "'=' / '!=' with a set, IN with a scalar, IS NULL with a value, LIKE with a non-string and unknown operators "
    "are outside the documented interface: counted, only the never-in-SQL-text obligation is checked",
    "static string conditions are single comparisons without OR (the caller owns their text)",
    "row order is compared only when an order is requested; otherwise the row multiset is compared",
    "the order of parameters inside one IN list is not observable and is not compared",
]
REQUIRED_FEATURES = [
    "op:=", "op:!=", "op:IN", "op:NOT IN", "op:IS NULL", "op:IS NOT NULL", "op:LIKE", "op:NOT LIKE",
    "op:<", "op:>", "op:<=", "op:>=",
    "val:null", "val:empty-string", "val:quote", "val:wildcard", "val:sql-fragment", "val:empty-list",
    "val:singleton-list", "val:tuple", "val:set", "val:list-with-null", "val:operator-text",
    "form:3-tuple", "form:2-tuple", "form:list", "form:object", "form:keyword", "form:or-empty", "form:or-1",
    "form:or-2", "form:or-keyword", "form:none-arg", "form:static", "form:lower-case-op",
    "form:keyword-underscore-column", "col:qualified", "col:underscore", "seq:two-calls", "val:long-list-1001", "val:long-list-2001", "val:long-list-with-null",
    "form:static-with-literal", "seq:same-flat-sequence-other-grouping", "objects:or-group-reused", "objects:first", "objects:non-first", "objects:twice",
    "objects:first+kw", "interleave:inner-list", "interleave:inner-one_or_none", "interleave:inner-all",
    "interleave:inner-all-abandoned", "interleave:outer-partly-consumed", "interleave:outer-untouched",
    "interleave:outer-exhausted",
    "select:id", "select:s", "select:n", "select:f", "scalars:-", "scalars:call", "scalars:ctor",
    "scalars:falsy-single-row:list", "scalars:falsy-single-row:all", "scalars:falsy-single-row:one",
    "scalars:falsy-single-row:one_or_none",
    "method:list", "method:all", "method:one", "method:one_or_none", "method:T.list", "method:T.one",
    "method:T.one_or_none", "order:-", "order:id", "order:id DESC", "via:ctor",
    "conn:q", "conn:p", "3vl:unknown-row", "result:empty", "result:several", "result:one",
    "outside-domain:ill-typed",
]

# ------------------------------------------------------------------------------------------ the table
ROWS = [            # (id, s, n, _d, f); position in this list == id
    (0, "", 0, 0, 0.0),             # every selectable first column of this row is falsy: 0, '', 0, 0.0
    (1, None, None, 0, 1.5),
    (2, "Zz", 2, 1, None),
    (3, "o'k", 1, None, 2.0),
    (4, "50%", 0, 0, 4.5),
    (5, "a_b", -1, 1, 5.5),
    (6, "A_B", None, None, 6.5),
    (7, "x; DROP TABLE t", 1, 0, 7.5),
    (8, "axb", 8, 0, 8.5),
    (9, "500", 0, 1, 9.5),
    (10, None, 7, None, 10.5),
    # text that looks like SQL for an operator: it is data like any other string
    (11, "IS NULL", 1, 0, 11.5),
    (12, "is not null", None, 1, 12.5),
    (13, "NULL", 2, None, 13.5),
    (14, "= 1", 0, 0, 14.5),
    (15, "IN (1)", 7, 1, 15.5),
]
assert all(r[0] == k for k, r in enumerate(ROWS))
NROWS = len(ROWS)
FULL = (1 << NROWS) - 1
COLIDX = {"id": 0, "s": 1, "n": 2, "_d": 3, "t.s": 1, "t.n": 2, "t._d": 3}
SELECT = "SELECT id, s, n FROM t"
# statements by first selected column (the column returned in scalar mode) and the projection of a table row
SELECTS = {"id": SELECT, "s": "SELECT s, id, n FROM t", "n": "SELECT n, id, s FROM t", "f": "SELECT f, id, s FROM t"}
PROJ = {"id": (0, 1, 2), "s": (1, 0, 2), "n": (2, 0, 1), "f": (4, 0, 1)}
def _glob_a(v):
    return None if v is None else v.startswith("a")


STATICS = [("id = n", lambda r: L.eq3(r[0], r[2])),
           ("s IS NOT NULL", lambda r: r[1] is not None),
           # literal-bearing static conditions: their text must reach the statement unchanged (case matters:
           # the table has 'a_b' and 'A_B', GLOB is case sensitive)
           ("s = 'a_b'", lambda r: L.eq3(r[1], "a_b")),
           ("s != 'o''k'", lambda r: L.not3(L.eq3(r[1], "o'k"))),
           ("s IN ('a_b', 'Zz')", lambda r: L.in3(r[1], ["a_b", "Zz"])),
           ("s GLOB 'a*'", lambda r: _glob_a(r[1]))]


def _static_masks(k):
    t = f = 0
    for i, row in enumerate(ROWS):
        v = STATICS[k][1](row)
        if v is True:
            t |= 1 << i
        elif v is False:
            f |= 1 << i
    return t, f


# ------------------------------------------------------------------------------------------ alphabet
S_SCAL = [None, "", "o'k", "50%", "a_b", "A_B", "x; DROP TABLE t", "zz",
          "IS NULL", "is not null", "NULL", "= 1", "IN (1)", "IS NOT NULL"]
# operands that may legitimately coincide with keyword text of the statement (never searched for in the SQL text;
# the parameter comparison covers them)
SQL_WORDS = {"IS NULL", "IS NOT NULL", "NULL", "IN", "NOT IN", "LIKE", "NOT LIKE", "OR", "AND"}
S_LISTS = [["l", []], ["l", ["o'k"]], ["t", ["a_b", "50%"]], ["l", ["x; DROP TABLE t", None]], ["l", [None]],
           ["t", [None]], ["t", ["zz", "a_b", "a_b"]], ["l", ["IS NULL", "NULL"]]]
S_SETS = [["s", ["A_B", ""]], ["s", [None]], ["s", ["50%"]]]
S_LIKE = ["", "50%", "a_b", "A_B", "%", "_", "%'%", "o'k", "%t"]
S_CMP = [None, "", "a_b", "b", "50%"]
N_SCAL = [None, -1, 0, 1, 2, 7]
N_LISTS = [["l", []], ["l", [1]], ["t", [0, 2]], ["l", [1, None]], ["l", [None]], ["t", [2, 0, 2]]]
N_SETS = [["s", [-1, 7]], ["s", [None]]]
N_CMP = [None, -1, 1, 7]


def _atom_specs():
    out = []
    for col, scal, lists, sets, cmpv in (("s", S_SCAL, S_LISTS, S_SETS, S_CMP),
                                         ("n", N_SCAL, N_LISTS, N_SETS, N_CMP)):
        for op in ("=", "!="):
            for v in scal:
                out.append((col, op, ["v", v]))
            for ls in lists:
                out.append((col, op, ls))
        for op in ("IN", "NOT IN"):
            for ls in lists + sets:
                out.append((col, op, ls))
        for op in ("IS NULL", "IS NOT NULL"):
            out.append((col, op, ["v", None]))
        if col == "s":
            for op in ("LIKE", "NOT LIKE"):
                for v in S_LIKE:
                    out.append((col, op, ["v", v]))
        for op in ("<", ">", "<=", ">="):
            for v in cmpv:
                out.append((col, op, ["v", v]))
    # the key column: filters that select exactly the row whose columns are all falsy (id 0)
    out += [("id", "=", ["v", 0]), ("id", "<", ["v", 1]), ("id", "IN", ["s", [0, 99]]), ("id", "!=", ["v", 0])]
    return out


_LONG = {}


def _expand(spec):
    """["long", {"kind": "l"|"t"|"s", "n": 1001, "col": "n"|"s", "present": "none"|"start"|"end"|"both", "null": 0|1}]
    -> the ordinary value spec with n members: values absent from the table, the present ones at the asked
    places (the last places lie beyond the 1000th member), optionally one None in the middle."""
    if spec[0] != "long":
        return spec
    key = repr(sorted(spec[1].items()))
    out = _LONG.get(key)
    if out is None:
        q = spec[1]
        n = q["n"]
        if q["col"] == "n":
            vals, present = list(range(100, 100 + n)), [1, 0]
        else:
            vals, present = ["v%04d" % k for k in range(n)], ["a_b", "IS NULL"]
        if q["present"] in ("start", "both"):
            vals[0] = present[0]
        if q["present"] == "start":
            vals[1] = present[1]
        if q["present"] in ("end", "both"):
            vals[-1] = present[1]
        if q["present"] == "end":
            vals[-2] = present[0]
        if q["null"]:
            vals[n // 2] = None
        out = _LONG[key] = [q["kind"], vals]
    return out


_MASKS = {}


def _masks(col, op, spec):
    if spec[0] != "long":
        return L.atom_masks(ROWS, COLIDX[col], op, spec)
    key = (col, op, repr(sorted(spec[1].items())))
    if key not in _MASKS:
        _MASKS[key] = L.atom_masks(ROWS, COLIDX[col], op, _expand(spec))
    return _MASKS[key]


def _val_feats(spec):
    if spec[0] == "long":
        return ["val:long-list", "val:long-list-%d" % spec[1]["n"]] + \
            (["val:long-list-with-null", "val:list-with-null"] if spec[1]["null"] else []) + \
            ({"l": [], "t": ["val:tuple"], "s": ["val:set"]}[spec[1]["kind"]])
    kind, v = spec
    f = []
    vals = v if kind != "v" else [v]
    if kind == "v" and v is None:
        f.append("val:null")
    if kind != "v":
        if not v:
            f.append("val:empty-list")
        elif len(v) == 1:
            f.append("val:singleton-list")
        if None in v:
            f.append("val:list-with-null")
        if kind == "t":
            f.append("val:tuple")
        if kind == "s":
            f.append("val:set")
    for x in vals:
        if isinstance(x, str):
            if x == "":
                f.append("val:empty-string")
            if "'" in x:
                f.append("val:quote")
            if "%" in x or "_" in x:
                f.append("val:wildcard")
            if "DROP" in x:
                f.append("val:sql-fragment")
            if x.upper() in ("IS NULL", "IS NOT NULL", "NULL") or x in ("= 1", "IN (1)"):
                f.append("val:operator-text")
    return f


def _text_checkable(x):
    return isinstance(x, str) and len(x) >= 2 and x.upper() not in SQL_WORDS


class Atom:
    __slots__ = ("col", "op", "spec", "value", "masks", "bound", "feats", "strs", "idx")

    def __init__(self, col, op, spec, idx=-1):
        self.col, self.op, self.spec, self.idx = col, op, spec, idx
        self.value = L.decode_value(spec)
        self.masks = L.atom_masks(ROWS, COLIDX[col], op, spec)
        self.bound = L.bound_values(op, spec)
        self.feats = tuple(["op:" + op.upper()] + _val_feats(spec))
        self.strs = tuple(x for x in self.bound if _text_checkable(x))

    def item(self, form="a3"):
        if form == "a2":
            return ["a2", self.col, self.spec]
        return [form, self.col, self.op, self.spec]


ATOMS = [Atom(c, o, s, i) for i, (c, o, s) in enumerate(_atom_specs())]


def _find(col, op, spec):
    for a in ATOMS:
        if (a.col, a.op, a.spec) == (col, op, spec):
            return a
    raise KeyError((col, op, spec))


REPS = [_find(*t) for t in [
    ("s", "=", ["v", "o'k"]), ("s", "=", ["v", None]), ("s", "!=", ["v", None]),
    ("n", "=", ["l", [1, None]]), ("n", "!=", ["l", [1, None]]), ("s", "IN", ["l", []]),
    ("s", "NOT IN", ["l", []]), ("n", "IN", ["s", [-1, 7]]), ("s", "LIKE", ["v", "50%"]),
    ("s", "NOT LIKE", ["v", "a_b"]), ("n", "<", ["v", 1]), ("n", ">=", ["v", None]),
    ("s", "=", ["v", "x; DROP TABLE t"]), ("n", "!=", ["v", 1]), ("s", "IN", ["t", ["a_b", "50%"]]),
    ("n", "=", ["v", 0]),
]]
KW_SETS = [{"s": ["v", "o'k"]}, {"n": ["v", 1]}, {"s": ["v", None]}, {"n": ["l", [0, 2]]},
           {"s": ["v", "a_b"], "n": ["v", -1]}, {"n": ["v", None], "s": ["v", "A_B"]},
           {"s": ["l", []]}, {"s": ["v", "x; DROP TABLE t"], "n": ["l", [1, None]]},
           {"s": ["v", "IS NULL"]}, {"s": ["v", "is not null"], "n": ["v", None]}, {"s": ["v", "NULL"], "_d": ["v", None]},
           {"_d": ["v", 0]}, {"_d": ["v", None]}, {"_d": ["l", [1]], "s": ["v", "a_b"]},
           {"_d": ["v", 1], "n": ["v", 0], "s": ["v", "500"]}]


def _item_alphabet(full):
    items = [a.item("a3") for a in REPS]
    eq = [a for a in REPS if a.op == "="]
    if full:
        items += [a.item("a2") for a in eq]
        items += [REPS[i].item("ao") for i in (0, 3, 8, 10)]
        items += [REPS[i].item("al") for i in (1, 5, 9, 14)]
        items += [["a3", "n", "in", ["s", [-1, 7]]], ["a3", "s", "like", ["v", "50%"]],
                  ["a3", "s", "is null", ["v", None]], ["a3", "s", "Not In", ["l", []]],
                  ["a3", "_d", "=", ["v", 0]], ["a2", "_d", ["v", None]], ["a3", "_d", "!=", ["l", [0, None]]],
                  ["a3", "t.s", "LIKE", ["v", "%'%"]], ["a2", "t.n", ["v", 1]], ["a3", "t._d", ">=", ["v", 1]],
                  ["a2", "s", ["v", "IS NULL"]], ["a2", "s", ["v", "is not null"]], ["a3", "s", "=", ["v", "IS NOT NULL"]],
                  ["a2", "t.s", ["v", "NULL"]], ["al", "s", "!=", ["v", "IS NULL"]], ["a2", "s", ["v", "= 1"]],
                  ["a2", "s", ["l", ["IS NULL", "NULL"]]]]
    items.append(["or", [], {}])
    if full:
        items += [["or", [a.item("a3")], {}] for a in REPS]
        items += [["or", [a.item("a3"), b.item("a3")], {}] for a in REPS for b in REPS]
        items += [["or", [], {"s": ["v", "o'k"]}], ["or", [], {"s": ["v", "a_b"], "n": ["v", 7]}],
                  ["or", [], {"n": ["v", None]}], ["or", [], {"n": ["l", [1, None]], "s": ["v", "50%"]}],
                  ["or", [REPS[8].item("a3")], {"n": ["v", 0]}], ["or", [REPS[1].item("a2")], {"s": ["v", "zz"]}],
                  ["or", [REPS[10].item("ao")], {"s": ["l", ["o'k"]]}],
                  ["or", [], {"_d": ["v", 0], "n": ["v", 7]}], ["or", [["a2", "t.s", ["v", "axb"]]], {"_d": ["v", None]}],
                  ["or", [["a2", "s", ["v", "IS NULL"]]], {}], ["or", [], {"s": ["v", "is not null"]}],
                  ["or", [["a2", "s", ["v", "NULL"]], ["a2", "n", ["v", None]]], {"s": ["v", "IN (1)"]}],
                  ["or", [["a3", "s", "IS NULL", ["v", None]]], {"s": ["v", "IS NULL"]}]]
    else:
        pairs = [(0, 10), (1, 13), (3, 8), (4, 6), (5, 2), (11, 14)]
        items += [["or", [REPS[i].item("a3"), REPS[j].item("a3")], {}] for i, j in pairs]
        items += [["or", [], {"s": ["v", "a_b"], "n": ["v", 7]}], ["or", [REPS[8].item("a3")], {"n": ["v", 0]}],
                  ["or", [], {"_d": ["v", 0], "n": ["v", 7]}], ["a3", "_d", "=", ["v", 0]],
                  ["a2", "s", ["v", "IS NULL"]], ["or", [["a2", "s", ["v", "is not null"]]], {"s": ["v", "NULL"]}]]
    items += [["st", 0], ["st", 1], ["none"]]
    if full:
        items += [["st", 2], ["st", 3], ["st", 4], ["st", 5],
                  ["or", [["st", 2], REPS[10].item("a3")], {}], ["or", [["st", 3]], {"n": ["v", 1]}],
                  ["or", [["st", 5], ["st", 4]], {}], ["or", [REPS[1].item("a3"), ["st", 2]], {"_d": ["v", 1]}]]
    else:
        items += [["st", 2], ["st", 5], ["or", [["st", 4], REPS[10].item("a3")], {}]]
    return items


# ------------------------------------------------------------------------------------------ real objects
_DB = None


def _db():
    global _DB
    if _DB is None:
        _DB = sqlite3.connect(":memory:")
        cur = _DB.cursor()
        cur.execute("CREATE TABLE t (id INTEGER PRIMARY KEY, s TEXT, n INT, _d INT, f REAL)")
        cur.executemany("INSERT INTO t (id, s, n, _d, f) VALUES (?, ?, ?, ?, ?)", ROWS)
        _DB.commit()
    return _DB


class _RecCursor:
    def __init__(self, cur, log, translate):
        self._cur, self._log, self._translate = cur, log, translate

    def execute(self, sql, params=()):
        self._log.append((sql, list(params)))
        if self._translate:
            sql = sql.replace("%s", "?")
        return self._cur.execute(sql, params)

    @property
    def description(self):
        return self._cur.description

    def __iter__(self):
        return iter(self._cur)

    def close(self):
        self._cur.close()


class _QConn:
    """Recording wrapper around the sqlite3 connection ('?' placeholders)."""
    translate = False

    def __init__(self, log):
        self.log = log

    def cursor(self):
        return _RecCursor(_db().cursor(), self.log, self.translate)


class _PConn(_QConn):
    """Same, but str(type(conn)) names 'mysql.connector', so SqlMethod emits '%s' placeholders."""
    translate = True


_PConn.__module__ = "mysql.connector.fake"


_POOL = [None]      # None: every call gets a freshly constructed method object; a dict: objects are kept in it


def _method(kind, ctor_order, select="id", ctor_scalars=False):
    """A freshly constructed SqlMethod / SqlMethodT for every call (a case must not depend on the calls made before
    it in the same worker).  Only the families that are about several calls on one object (run_seq), and the
    thorough 'triples' family for speed, keep objects in a pool for a well-defined stretch."""
    from ak.mtd_sql import SqlMethod
    from ak.mcaller_sql import SqlMethodT
    pool = _POOL[0]
    key = (kind, ctor_order, select, ctor_scalars)
    if pool is not None and key in pool:
        return pool[key]
    if kind == "T":
        m = SqlMethodT(SELECTS[select], order_by=ctor_order, record_name="rec")
    else:
        m = SqlMethod(SELECTS[select], order_by=ctor_order, record_name="rec", as_scalars=ctor_scalars)
    if pool is not None:
        pool[key] = m
    return m


# ------------------------------------------------------------------------------------------ building a case
def build_item(item):
    """item spec -> (python argument, masks-or-None, bound values, leaves, features)."""
    from ak.mtd_sql import SqlMethod, SqlFieldValCondition
    kind = item[0]
    if kind in ("a3", "al", "ao", "a2"):
        if kind == "a2":
            _, col, spec = item
            op = "="
        else:
            _, col, op, spec = item
        val = L.decode_value(_expand(spec))
        masks = _masks(col, op, spec)
        bound = L.bound_values(op, _expand(spec))
        feats = ["op:" + op.upper()] + _val_feats(spec)
        feats.append({"a3": "form:3-tuple", "al": "form:list", "ao": "form:object", "a2": "form:2-tuple"}[kind])
        if op != op.upper():
            feats.append("form:lower-case-op")
        if col.startswith("t."):
            feats.append("col:qualified")
        if col.endswith("_d"):
            feats.append("col:underscore")
        if kind == "a3":
            arg = (col, op, val)
        elif kind == "al":
            arg = [col, op, val]
        elif kind == "a2":
            arg = (col, val)
        else:
            arg = SqlFieldValCondition(col, op, val)
        return arg, masks, bound, [(col, op, spec)], feats
    if kind == "or":
        _, ops, kw = item
        built = [build_item(o) for o in ops]
        kwargs = {c: L.decode_value(s) for c, s in kw.items()}
        ms = [b[1] for b in built] + [L.atom_masks(ROWS, COLIDX[c], "=", s) for c, s in sorted(kw.items())]
        bound, leaves, feats = [], [], []
        for b in built:
            bound += b[2]
            leaves += b[3]
            feats += b[4]
        for c, s in sorted(kw.items()):
            bound += L.bound_values("=", s)
            leaves.append((c, "=", s))
            feats += ["op:="] + _val_feats(s)
        nops = len(ms)
        feats.append("form:or-empty" if nops == 0 else ("form:or-1" if nops == 1 else
                                                        ("form:or-2" if nops == 2 else "form:or-3")))
        if kw:
            feats.append("form:or-keyword")
        if any(o[0] == "or" for o in ops):
            feats.append("form:or-nested")
        return SqlMethod._or(*[b[0] for b in built], **kwargs), L.or_masks(ms, FULL), bound, leaves, feats
    if kind == "st":
        return STATICS[item[1]][0], _static_masks(item[1]), [], [], \
            ["form:static"] + (["form:static-with-literal"] if "'" in STATICS[item[1]][0] else [])
    if kind == "none":
        return None, None, [], [], ["form:none-arg"]
    raise ValueError(item)


def _expected_result(method, exp_ids, order, select="id", scalars="-"):
    if scalars == "-":
        rows = [tuple(ROWS[i][k] for k in PROJ[select]) for i in exp_ids]
    else:
        rows = [ROWS[i][PROJ[select][0]] for i in exp_ids]        # scalar mode: the first selected column
    if order == "id DESC":
        rows = rows[::-1]
    if method in ("list", "all", "T.list"):
        return ("rows", rows)
    if scalars != "-" and method in ("one", "one_or_none") and len(rows) == 1 and rows[0] is None:
        return ("any",)          # a NULL scalar cannot be told from "no record": outside the property
    if method == "one":
        return ("row", rows[0]) if len(rows) == 1 else ("ValueError",)
    if method == "one_or_none":
        return ("none",) if not rows else (("row", rows[0]) if len(rows) == 1 else ("ValueError",))
    if method == "T.one":
        return ("rows", rows) if len(rows) == 1 else ("ValueError",)
    if method == "T.one_or_none":
        return ("rows", rows) if len(rows) <= 1 else ("ValueError",)
    raise ValueError(method)


def _call(method, conn, args, kwargs, ctor_order, select="id", scalars="-"):
    rec = tuple if scalars == "-" else (lambda x: x)
    try:
        if method.startswith("T."):
            m = _method("T", ctor_order, select)
            tbl = getattr(m, method[2:])(conn, *args, **kwargs)
            if tbl is None:                       # "single record or None" (docstring of one_or_none)
                return ("rows", [])
            return ("rows", [tuple(r) for r in tbl.records])
        m = _method("S", ctor_order, select, scalars == "ctor")
        if scalars == "call":
            kwargs = dict(kwargs, _as_scalars=True)
        if method == "list":
            return ("rows", [rec(r) for r in m.list(conn, *args, **kwargs)])
        if method == "all":
            return ("rows", [rec(r) for r in m.all(conn, *args, **kwargs)])
        r = getattr(m, method)(conn, *args, **kwargs)
        return ("none",) if r is None else ("row", rec(r))
    except ValueError as e:
        return ("ValueError", str(e)[:120])
    except Exception as e:  # noqa
        return ("raise", type(e).__name__, str(e)[:160])


def _pkey(v):
    return (type(v).__name__, repr(v))


def _same_multiset(a, b):
    return len(a) == len(b) and sorted(map(_pkey, a)) == sorted(map(_pkey, b))


def run_built(args, kwargs, masks_list, bound, strs, method, order, via, conn_kind, acc, select="id", scalars="-",
              statics=()):
    """Execute one call on the real code and judge it. -> (outcome label, violation or None, unknown?)."""
    t, f = L.and_masks(masks_list, FULL)
    exp_ids = [i for i in range(NROWS) if t >> i & 1]
    unknown = (t | f) != FULL
    log = []
    conn = _QConn(log) if conn_kind == "q" else _PConn(log)
    kw = dict(kwargs)
    ctor_order = None
    if order != "-":
        if via == "ctor":
            ctor_order = order
        else:
            kw["_order_by"] = order
    acc.trans()
    got = _call(method, conn, args, kw, ctor_order, select, scalars)
    exp = _expected_result(method, exp_ids, order, select, scalars)
    label = f"{exp[0]}:{len(exp_ids)}"
    mode = method + ("" if scalars == "-" else " in scalar mode")
    # ---- result
    if got[0] == "raise":
        return label, ("statement-fails", f"{mode} raised {got[1]}: {got[2]}", list(got), list(exp)), unknown
    g, e = got, exp
    if e[0] == "any":
        pass
    elif e[0] == "ValueError":
        if g[0] != "ValueError":
            return label, ("wrong-rows", f"{mode} should raise ValueError ({len(exp_ids)} rows selected)",
                           list(g), list(e)), unknown
    else:
        if g[0] == "ValueError":
            return label, ("wrong-rows", f"{mode} raised ValueError although the conditions select "
                           f"{len(exp_ids)} row(s): {g[1]}", list(g), list(e)), unknown
        if e[0] == "rows" and order == "-" and g[0] == "rows":
            if not _same_multiset(g[1], e[1]):
                return label, ("wrong-rows", "returned rows differ from the rows selected under 3VL",
                               g[1][:20], e[1][:20]), unknown
        elif g != e or (g[0] == "rows" and list(map(_pkey, g[1])) != list(map(_pkey, e[1]))):
            if g[0] == "rows" and e[0] == "rows" and _same_multiset(g[1], e[1]):
                return label, ("wrong-order", f"rows not in the requested order '{order}'",
                               g[1][:20], e[1][:20]), unknown
            return label, ("wrong-rows", "returned rows differ from the rows selected under 3VL",
                           g[1][:20] if g[0] == "rows" else list(g), e[1][:20] if e[0] == "rows" else list(e)), unknown
    # ---- binding
    if len(log) != 1:
        return label, ("statement-count", f"{len(log)} statements executed for one call", len(log), 1), unknown
    sql, params = log[0]
    for text in statics:
        # a static condition is the caller's SQL: one with a literal must be in the statement as written
        if text not in sql and "'" not in text:
            continue                  # identifiers only: a re-spelling (case, blanks) cannot change the rows
        if text not in sql:
            return label, ("static-text-altered", "the text of a static condition is not part of the statement as "
                           "written", sql, text), unknown
        sql = sql.replace(text, " <static> ", 1)
    nph = sql.count("?") if conn_kind == "q" else sql.count("%s")
    if conn_kind == "p" and "?" in sql:
        return label, ("placeholder-style", "'?' placeholder sent to a '%s' style connection", sql, "%s"), unknown
    if nph != len(params):
        return label, ("placeholder-count", "number of placeholders differs from number of bound values",
                       {"sql": sql, "params": params}, len(params)), unknown
    if sorted(map(_pkey, params)) != sorted(map(_pkey, bound)):
        return label, ("params-differ-from-operands", "bound parameters are not the operands of the conditions",
                       {"sql": sql, "params": params}, bound), unknown
    for s in strs:
        if s in sql:
            return label, ("operand-in-sql-text", "an operand value is part of the SQL text",
                           {"sql": sql, "params": params}, "values only in params"), unknown
    if "'" in sql or '"' in sql:
        return label, ("operand-in-sql-text", "quoted literal in the SQL text",
                       {"sql": sql, "params": params}, "values only in params"), unknown
    return label, None, unknown


def _static_texts(items):
    out = []
    for it in items:
        if it[0] == "st":
            out.append(STATICS[it[1]][0])
            if "'" in STATICS[it[1]][0]:
                pass
        elif it[0] == "or":
            out += _static_texts(it[1])
    return out


def run_case(case, acc, count=True, classify=True):
    """case = {"items": [...], "kw": {...}, "order": "-", "via": "call", "method": "list", "conn": "q"}"""
    args, masks_list, bound, leaves, feats = [], [], [], [], []
    for it in case["items"]:
        a, m, b, lv, fs = build_item(it)
        args.append(a)
        if m is not None:
            masks_list.append(m)
        bound += b
        leaves += lv
        feats += fs
    kwargs = {}
    for c, s in sorted(case["kw"].items()):
        kwargs[c] = L.decode_value(s)
        masks_list.append(L.atom_masks(ROWS, COLIDX[c], "=", s))
        bound += L.bound_values("=", s)
        leaves.append((c, "=", s))
        feats += ["form:keyword", "op:="] + _val_feats(s)
        if c.startswith("_"):
            feats.append("form:keyword-underscore-column")
    strs = [x for x in bound if _text_checkable(x)]
    select, scalars = case.get("select", "id"), case.get("scalars", "-")
    label, v, unknown = run_built(args, kwargs, masks_list, bound, strs, case["method"], case["order"],
                                  case["via"], case["conn"], acc, select, scalars, _static_texts(case["items"]))
    if count:
        feats += ["method:" + case["method"], "order:" + case["order"], "conn:" + case["conn"]]
        if case["via"] == "ctor":
            feats.append("via:ctor")
        feats += ["select:" + select, "scalars:" + scalars]
        if scalars != "-" and label.endswith(":1"):
            t, _f = L.and_masks(masks_list, FULL)
            val = ROWS[t.bit_length() - 1][PROJ[select][0]]
            if val is not None and not val:
                feats.append("scalars:falsy-single-row:" + case["method"])
        _count(acc, label, unknown, len(bound), feats, v)
        if v is None and unknown and len(bound) >= 2 and acc.evaluations % 53 == 0:
            acc.sample({"case": case, "expected": label})
    if v is not None:
        _report(acc, case, v, leaves if classify else None)
    return v


def _count(acc, label, unknown, nbound, feats, v):
    kind, n = label.split(":")
    fs = set(feats)
    if unknown:
        fs.add("3vl:unknown-row")
    n = int(n)
    fs.add("result:empty" if n == 0 else ("result:one" if n == 1 else "result:several"))
    acc.case(nontrivial=unknown or nbound >= 2, features=fs,
             outcome=label + (":3vl" if unknown else "") if v is None else "violation:" + v[0])


def _leaf_class(col, op, spec):
    if spec[0] == "long":
        return _leaf_class(col, op, _expand(spec)) + "-long-list"
    cop = L.normalise(op, spec)
    name = cop[0].lower().replace(" ", "-") if cop else "ill-typed"
    kind, v = spec
    if kind != "v":
        if not v:
            name += "-empty"
        elif None in v:
            name += "-with-null"
    elif v is None and name not in ("is-null", "is-not-null"):
        name += "-null"
    if name in ("is-null", "is-not-null") and op.upper() in ("=", "!="):
        name += "-from-" + ("eq" if op == "=" else "ne")
    return name


def _report(acc, case, v, leaves):
    sig, msg, obs, exp = v
    blame = None
    if leaves is not None and sig in ("wrong-rows", "statement-fails", "params-differ-from-operands",
                                     "placeholder-count", "operand-in-sql-text", "static-text-altered"):
        # which single leaf, executed alone in the same placeholder style, already misbehaves?
        from mc import core
        for col, op, spec in leaves:
            sub = {"items": [["a3", col, op, spec]], "kw": {}, "order": "id", "via": "call",
                   "method": "list", "conn": case["conn"]}
            if run_case(sub, core.Acc(), count=False, classify=False) is not None:
                blame = _leaf_class(col, op, spec)
                break
        if blame is None and _static_texts(case["items"]):
            sub = dict(case, items=[it for it in case["items"] if it[0] != "st"
                                    and not (it[0] == "or" and _static_texts([it]))])
            if run_case(sub, core.Acc(), count=False, classify=False) is None:
                blame = "static-condition"
        if blame is None and len(leaves) == 1:
            # one leaf that is right as a 3-tuple: its spelling (2-tuple, keyword, object ...) or the method
            form = "keyword" if case["kw"] else "+".join(sorted({it[0] for it in case["items"] if it[0] != "none"}))
            sub = dict(case, method="list", order="id", via="call")
            if run_case(sub, core.Acc(), count=False, classify=False) is not None:
                blame = "spelling-" + form
            else:
                blame = "method-" + case["method"]
                if case.get("scalars", "-") != "-" and \
                        run_case(dict(case, scalars="-"), core.Acc(), count=False, classify=False) is None:
                    blame += ":scalar-mode"
        if blame is None and case["kw"]:
            sub = dict(case, kw={})
            if run_case(sub, core.Acc(), count=False, classify=False) is None:
                blame = "keywords"
        if blame is None:
            if any(it[0] == "or" for it in case["items"]):
                blame = "or-group"
            elif case["kw"]:
                blame = "keywords"
            elif case["method"] not in ("list", "all"):
                blame = "method-" + case["method"]
            elif len(leaves) >= 2:
                blame = "conjunction"
            else:
                blame = "spelling-" + "+".join(sorted({it[0] for it in case["items"]}))
    full = "C15:" + sig + (":" + blame if blame else "") + (":percent-s" if case["conn"] == "p" and blame and
                                                          _only_percent(case) else "")
    acc.violation(full, case, msg, obs, exp)


def _only_percent(case):
    from mc import core
    sub = dict(case)
    sub["conn"] = "q"
    return run_case(sub, core.Acc(), count=False, classify=False) is None


# ------------------------------------------------------------------------------------------ enumeration
def bounds(tier):
    b = {"table_rows": NROWS, "atoms": len(ATOMS), "representative_atoms": len(REPS),
         "item_alphabet_deco": len(_item_alphabet(True)), "keyword_sets": len(KW_SETS),
         "leaves": "<= 2 over the full atom alphabet (single, pairs); <= 2 top-level items over the item alphabet",
         "methods": len(METHODS), "orders": len(ORDERS), "placeholder_styles": 2,
         "two_call_sequences": "16 x 16 representative atoms x 6 method pairs x 2 placeholder styles"}
    if tier == "thorough":
        b["leaves"] = ("<= 3 over the full atom alphabet in 4 shapes; <= 3 top-level items over the reduced item "
                       "alphabet; nested OR groups over the representative atoms")
        b["item_alphabet_deco3"] = len(_item_alphabet(False))
    return b


def shards(tier):
    na = len(ATOMS)
    out = [("single", k, 8) for k in range(8)]
    out += [("pairs", lo, min(lo + 5, na)) for lo in range(0, na, 5)]
    nd = len(_item_alphabet(True))
    out += [("deco", k, 24) for k in range(24)]
    out += [("kw",), ("illtyped",)] + [("seq", k, 8) for k in range(8)] + [("seqgroup", k, 8) for k in range(8)] + [("long", k, 16) for k in range(16)] + \
        [("objects", k, 8) for k in range(8)] + [("interleave", k, 8) for k in range(8)]
    if tier == "thorough":
        out += [("triples", i) for i in range(na)]
        out += [("deco3", k, 8) for k in range(8)]
        out += [("nested", k, 4) for k in range(4)]
    assert nd > 0
    return out


METHODS = ["list", "all", "one", "one_or_none", "T.list", "T.one", "T.one_or_none"]
RESULT_METHODS = ["list", "all", "one", "one_or_none"]
SCALAR_MODES = ["-", "call", "ctor"]         # records / _as_scalars=True on the call / as_scalars=True on the method
ORDERS = [("-", "call"), ("id", "call"), ("id DESC", "call"), ("id", "ctor"), ("id DESC", "ctor")]


def _mass(acc, shape, atoms, conn):
    """Fast path for the atom-only shapes; the case spec is built only when needed."""
    if shape == "and":
        items = [a.item("a3") for a in atoms]
    elif shape == "or":
        items = [["or", [a.item("a3") for a in atoms], {}]]
    elif shape == "a-or":
        items = [atoms[0].item("a3"), ["or", [a.item("a3") for a in atoms[1:]], {}]]
    elif shape == "or-a":
        items = [["or", [a.item("a3") for a in atoms[:-1]], {}], atoms[-1].item("a3")]
    else:
        raise ValueError(shape)
    return {"items": items, "kw": {}, "order": "id", "via": "call", "method": "list", "conn": conn}


def _mass_run(acc, shape, atoms, conn, orfeat):
    from ak.mtd_sql import SqlMethod
    if shape == "and":
        args = [(a.col, a.op, a.value) for a in atoms]
        ms = [a.masks for a in atoms]
    elif shape == "or":
        args = [SqlMethod._or(*[(a.col, a.op, a.value) for a in atoms])]
        ms = [L.or_masks([a.masks for a in atoms], FULL)]
    elif shape == "a-or":
        args = [(atoms[0].col, atoms[0].op, atoms[0].value),
                SqlMethod._or(*[(a.col, a.op, a.value) for a in atoms[1:]])]
        ms = [atoms[0].masks, L.or_masks([a.masks for a in atoms[1:]], FULL)]
    else:
        args = [SqlMethod._or(*[(a.col, a.op, a.value) for a in atoms[:-1]]),
                (atoms[-1].col, atoms[-1].op, atoms[-1].value)]
        ms = [L.or_masks([a.masks for a in atoms[:-1]], FULL), atoms[-1].masks]
    bound, strs = [], []
    for a in atoms:
        bound += a.bound
        strs += a.strs
    label, v, unknown = run_built(args, {}, ms, bound, strs, "list", "id", "call", conn, acc)
    n = int(label.split(":")[1])
    fs = ["shape:" + shape, "result:empty" if n == 0 else ("result:one" if n == 1 else "result:several")]
    if unknown:
        fs.append("3vl:unknown-row")
    acc.case(nontrivial=unknown or len(bound) >= 2, features=fs,
             outcome=label + (":3vl" if unknown else "") if v is None else "violation:" + v[0])
    if v is not None:
        case = _mass(acc, shape, atoms, conn)
        _report(acc, case, v, [(a.col, a.op, a.spec) for a in atoms])


def _long_atoms():
    out = []
    for col in ("n", "s"):
        for n in (1001, 2001):
            for present in ("none", "start", "end", "both"):
                for null in (0, 1):
                    for kind in ("l", "t", "s"):
                        spec = ["long", {"kind": kind, "n": n, "col": col, "present": present, "null": null}]
                        for op in ("IN", "NOT IN") + (("=", "!=") if kind != "s" else ()):
                            out.append(["a3", col, op, spec])
    return out


def _long_block(acc, k, step):
    partners = [REPS[i].item("a3") for i in (0, 3, 10, 13)]
    for item in _long_atoms()[k::step]:
        base = {"kw": {}, "order": "id", "via": "call", "method": "list"}
        for conn in ("q", "p"):
            run_case(dict(base, items=[item], conn=conn), acc)
        for other in partners:
            run_case(dict(base, items=[item, other], conn="q"), acc)
            run_case(dict(base, items=[["or", [item, other], {}]], conn="q"), acc)
            run_case(dict(base, items=[["or", [other, item], {}], ["none"]], conn="p"), acc)
        run_case(dict(base, items=[["or", [item], {}]], kw={"_d": ["v", 0]}, conn="q", method="all"), acc)
        if acc.expired():
            return


def _bulk_feats(acc, atoms_with_counts, extra):
    for a, n in atoms_with_counts:
        for f in a.feats:
            acc.feat(f, n)
    for f, n in extra:
        acc.feat(f, n)


def run_shard(shard, tier, seed, acc):
    kind = shard[0]
    if kind == "single":
        _, k, step = shard
        for a in ATOMS[k::step]:
            forms = ["a3", "al", "ao"] + (["a2", "kw"] if a.op == "=" else [])
            for form in forms:
                for method in METHODS:
                    for order, via in ORDERS:
                        for conn in ("q", "p"):
                            if form == "kw":
                                case = {"items": [], "kw": {a.col: a.spec}}
                            else:
                                case = {"items": [a.item(form)], "kw": {}}
                            case.update({"order": order, "via": via, "method": method, "conn": conn})
                            run_case(case, acc)
            # result method x records / scalar mode x first selected column (row 0 is falsy in every column)
            for form in ["a3"] + (["kw"] if a.op == "=" else []):
                for method in RESULT_METHODS:
                    for scalars in SCALAR_MODES:
                        for select in SELECTS:
                            if scalars == "-" and select == "id":
                                continue          # visited above
                            for order in ("-", "id DESC"):
                                for conn in ("q", "p"):
                                    if form == "kw":
                                        case = {"items": [], "kw": {a.col: a.spec}}
                                    else:
                                        case = {"items": [a.item(form)], "kw": {}}
                                    case.update({"order": order, "via": "call", "method": method, "conn": conn,
                                                 "select": select, "scalars": scalars})
                                    run_case(case, acc)
            if acc.expired():
                return
        return
    if kind == "pairs":
        _, lo, hi = shard
        for a in ATOMS[lo:hi]:
            for b in ATOMS:
                for conn in ("q", "p"):
                    _mass_run(acc, "and", (a, b), conn, None)
                    _mass_run(acc, "or", (a, b), conn, None)
            _bulk_feats(acc, [(a, 4 * len(ATOMS))] + [(b, 4) for b in ATOMS],
                        [("form:3-tuple", 8 * len(ATOMS)), ("form:or-2", 2 * len(ATOMS)),
                         ("conn:q", 2 * len(ATOMS)), ("conn:p", 2 * len(ATOMS)),
                         ("method:list", 4 * len(ATOMS)), ("order:id", 4 * len(ATOMS))])
            if acc.expired():
                return
        return
    if kind == "deco":
        _, k, step = shard
        alpha = _item_alphabet(True)
        if k == 0:
            run_case({"items": [], "kw": {}, "order": "id", "via": "call", "method": "list", "conn": "q"}, acc)
        for i1 in range(k, len(alpha), step):
            run_case({"items": [alpha[i1]], "kw": {}, "order": "id", "via": "call", "method": "list",
                      "conn": "q"}, acc)
            for it2 in alpha:
                run_case({"items": [alpha[i1], it2], "kw": {}, "order": "id", "via": "call", "method": "list",
                          "conn": "q"}, acc)
            if acc.expired():
                return
        return
    if kind == "kw":
        alpha = _item_alphabet(True)
        for kw in KW_SETS:
            for conn in ("q", "p"):
                for method in METHODS:
                    run_case({"items": [], "kw": kw, "order": "-", "via": "call", "method": method,
                              "conn": conn}, acc)
                for it in alpha:
                    run_case({"items": [it], "kw": kw, "order": "id DESC", "via": "call", "method": "list",
                              "conn": conn}, acc)
                    run_case({"items": [["none"], it, ["none"]], "kw": kw, "order": "id", "via": "ctor",
                              "method": "all", "conn": conn}, acc)
        return
    if kind == "illtyped":
        _illtyped(acc)
        return
    if kind == "seq":
        _seq_block(acc, shard[1], shard[2])
        return
    if kind == "seqgroup":
        _seq_groupings_block(acc, shard[1], shard[2])
        return
    if kind == "long":
        _long_block(acc, shard[1], shard[2])
        return
    if kind == "objects":
        _objects_block(acc, shard[1], shard[2])
        return
    if kind == "interleave":
        _interleave_block(acc, shard[1], shard[2])
        return
    if kind == "triples":
        _POOL[0] = {}                 # one method object for the whole shard (17 million cases in this family)
        try:
            _triples_shard(shard, acc)
        finally:
            _POOL[0] = None
        return
    if kind == "deco3":
        _, k, step = shard
        alpha = _item_alphabet(False)
        for i1 in range(k, len(alpha), step):
            for it2 in alpha:
                for it3 in alpha:
                    run_case({"items": [alpha[i1], it2, it3], "kw": {}, "order": "id", "via": "call",
                              "method": "list", "conn": "q"}, acc)
            if acc.expired():
                return
        return
    if kind == "nested":
        _, k, step = shard
        for a in REPS[k::step]:
            for b in REPS:
                for c in REPS:
                    ia, ib, ic = a.item("a3"), b.item("a3"), c.item("a3")
                    for items in ([["or", [["or", [ia, ib], {}], ic], {}]],
                                  [["or", [ia, ["or", [ib, ic], {}]], {}]],
                                  [["or", [ia, ib, ic], {}], ["none"]]):
                        for conn in ("q", "p"):
                            run_case({"items": items, "kw": {}, "order": "id", "via": "call", "method": "list",
                                      "conn": conn}, acc)
        return
    raise ValueError(shard)



def _triples_shard(shard, acc):
    if True:
        a = ATOMS[shard[1]]
        na = len(ATOMS)
        for b in ATOMS:
            for c in ATOMS:
                for shape in ("and", "a-or", "or-a", "or"):
                    _mass_run(acc, shape, (a, b, c), "q", None)
            if acc.expired():
                return
        _bulk_feats(acc, [(a, 4 * na * na)] + [(b, 8 * na) for b in ATOMS],
                    [("form:3-tuple", 12 * na * na), ("form:or-2", 2 * na * na), ("form:or-3", na * na),
                     ("conn:q", 4 * na * na), ("method:list", 4 * na * na), ("order:id", 4 * na * na)])
        return


ILLTYPED = [
    ("s", "IN", ["v", "o'k"]), ("n", "IN", ["v", 1]), ("s", "NOT IN", ["v", None]),
    ("s", "IS NULL", ["v", "o'k"]), ("n", "IS NOT NULL", ["v", 0]), ("n", "LIKE", ["v", 1]),
    ("s", "NOT LIKE", ["v", None]), ("s", "LIKE", ["l", ["a_b"]]), ("s", "~", ["v", "o'k"]),
    ("s", "==", ["v", "a_b"]), ("s", "=", ["s", ["a_b", "50%"]]), ("s", "!=", ["s", ["x; DROP TABLE t"]]),
    ("s", "<", ["l", ["a_b"]]), ("s", "BETWEEN", ["t", ["a_b", "zz"]]),
]


def _illtyped(acc):
    """Outside the property's domain: observed and counted; judged only on 'operand never in the SQL text'."""
    from ak.mtd_sql import SqlMethod
    for col, op, spec in ILLTYPED:
        for conn_kind in ("q", "p"):
            log = []
            conn = _QConn(log) if conn_kind == "q" else _PConn(log)
            val = L.decode_value(spec)
            acc.trans()
            try:
                SqlMethod(SELECT).list(conn, (col, op, val))
                res = "executed"
            except ValueError:
                res = "ValueError"
            except Exception as e:  # noqa
                res = type(e).__name__
            acc.case(nontrivial=False, features=("outside-domain:ill-typed",), outcome="outside-domain:" + res)
            for sql, _params in log:
                vals = val if isinstance(val, (list, tuple, set)) else [val]
                for x in vals:
                    if isinstance(x, str) and len(x) >= 2 and x in sql:
                        acc.violation("C15:operand-in-sql-text:ill-typed",
                                      {"illtyped": [col, op, spec], "conn": conn_kind},
                                      "an operand value is part of the SQL text", sql, "values only in params")


def _pristine():
    """Fresh ak.mtd_sql / ak.mcaller_sql modules and fresh SqlMethod objects."""
    import importlib
    import ak.mtd_sql
    import ak.mcaller_sql
    importlib.reload(ak.mtd_sql)
    importlib.reload(ak.mcaller_sql)
    _POOL[0] = {}                     # the calls of this sequence share their method objects


def run_seq(case, acc, count=True):
    """Two calls one after the other on the same fresh SqlMethod object in freshly loaded modules: the second
    call must not be influenced by the first (nothing of a request may survive in the method object, the
    classes or the module)."""
    from mc import core
    first, second = case["seq"]
    _pristine()
    acc.trans(2)
    v1 = run_case(first, core.Acc(), count=False, classify=False)
    v2 = run_case(second, core.Acc(), count=False, classify=False) if v1 is None else None
    feats = {"seq:two-calls", "method:" + first["method"], "method:" + second["method"], "conn:" + first["conn"]}
    report = None
    if v2 is not None:
        _pristine()
        if run_case(second, core.Acc(), count=False, classify=False) is None:
            report = v2
        else:
            feats.add("seq:fails-already-alone")
    elif v1 is not None:
        feats.add("seq:fails-already-alone")
    _POOL[0] = None
    if count:
        acc.case(nontrivial=True, features=feats,
                 outcome="seq:ok" if report is None else "violation:second-call:" + report[0])
    if report is not None:
        acc.violation("C15:second-call:" + report[0], case, "second call on the same method object: " + report[1],
                      report[2], report[3])
    return report


def _seq_block(acc, k, step):
    combos = [("list", "list"), ("one_or_none", "list"), ("one", "one_or_none"), ("T.list", "T.list"),
              ("T.one", "T.list"), ("all", "one")]
    for a in REPS[k::step]:
        for b in REPS:
            for m1, m2 in combos:
                for conn in ("q", "p"):
                    c1 = {"items": [a.item("a3")], "kw": {}, "order": "id", "via": "call", "method": m1, "conn": conn}
                    c2 = {"items": [b.item("a3")], "kw": {"_d": ["v", 0]}, "order": "-", "via": "call", "method": m2,
                          "conn": conn}
                    run_seq({"seq": [c1, c2]}, acc)
        if acc.expired():
            return


# ---- condition objects kept in variables and used in several queries ---------------------------------------------
OBJECT_SHAPES = ["first", "non-first", "twice", "first+kw"]


def _atom_arg(item):
    a, m, b, _lv, _fs = build_item(item)
    strs = [x for x in b if _text_checkable(x)]
    return a, m, b, strs


def run_objects(case, acc, count=True):
    """g = _or(A, B) is built once and kept; query 1 uses g inside a bigger _or (as first operand, as non-first
    operand, twice, with keywords), query 2 uses g alone again: g must still mean A OR B."""
    from ak.mtd_sql import SqlMethod
    q = case["objects"]
    (a, ma, ba, sa), (b, mb, bb, sb), (c, mc, bc, sc) = _atom_arg(q["a"]), _atom_arg(q["b"]), _atom_arg(q["c"])
    mg, bg, sg = L.or_masks([ma, mb], FULL), ba + bb, sa + sb
    g = SqlMethod._or(a, b)
    shape = q["shape"]
    if shape == "first":
        args1, masks1, bound1 = [SqlMethod._or(g, c)], [L.or_masks([mg, mc], FULL)], bg + bc
    elif shape == "non-first":
        args1, masks1, bound1 = [SqlMethod._or(c, g)], [L.or_masks([mc, mg], FULL)], bc + bg
    elif shape == "twice":
        args1, masks1, bound1 = [g, SqlMethod._or(g, c)], [mg, L.or_masks([mg, mc], FULL)], bg + bg + bc
    else:
        args1 = [SqlMethod._or(g, c, _d=0)]
        masks1 = [L.or_masks([mg, mc, L.atom_masks(ROWS, COLIDX["_d"], "=", ["v", 0])], FULL)]
        bound1 = bg + bc + [0]
    steps = [("q0", [g], [mg], bg, sg), ("q1", args1, masks1, bound1, sg + sc), ("q2", [g], [mg], bg, sg)]
    if q.get("skip_q0", 1):
        steps = steps[1:]
    report = None
    for name, args, masks, bound, strs in steps:
        label, v, _unk = run_built(args, {}, masks, bound, strs, "list", "id", "call", case["conn"], acc)
        if v is not None:
            report = (name, v)
            break
    if count:
        acc.case(nontrivial=True, features=["objects:or-group-reused", "objects:" + shape, "conn:" + case["conn"]],
                 outcome="objects:ok" if report is None else f"violation:{report[0]}:{report[1][0]}")
    if report is not None:
        name, (sig, msg, obs, exp) = report
        what = "condition-object-changed-by-use" if name == "q2" else "condition-object-query-" + name
        acc.violation(f"C15:{what}:{sig}", case, f"{name} (g = _or(A, B) kept in a variable, shape '{shape}'): " + msg,
                      obs, exp)
    return report


def _objects_block(acc, k, step):
    partners = [REPS[i].item("a3") for i in (0, 2, 10, 14)]
    for a in REPS[k::step]:
        for b in REPS:
            for c in partners:
                for shape in OBJECT_SHAPES:
                    run_objects({"objects": {"a": a.item("a3"), "b": b.item("a3"), "c": c, "shape": shape},
                                 "conn": "q" if shape != "twice" else "p"}, acc)
        if acc.expired():
            return


# ---- a lazy all() iterator partly consumed while the same method object is called again ---------------------------
INNER_KINDS = ["list", "one_or_none", "all", "all-abandoned"]


def run_interleave(case, acc, count=True):
    """One fresh SqlMethod, one connection: outer = m.all(A) is advanced k rows, then the same method is called on
    the same connection with B (list / one_or_none / all consumed / all advanced once and dropped), then the outer
    iterator is finished: it must yield exactly its own rows, in order; the inner result is judged as well."""
    from ak.mtd_sql import SqlMethod
    q = case["interleave"]
    a, ma, _ba, _sa = _atom_arg(q["a"])
    b, mb, _bb, _sb = _atom_arg(q["b"])
    exp_a = [ROWS[i][:3] for i in range(NROWS) if ma[0] >> i & 1]
    exp_b = [ROWS[i][:3] for i in range(NROWS) if mb[0] >> i & 1]
    log = []
    conn = _QConn(log) if case["conn"] == "q" else _PConn(log)
    m = SqlMethod(SELECT, record_name="rec")
    acc.trans(2)
    report = None
    try:
        outer = m.all(conn, a, _order_by="id")
        got_a = []
        for _ in range(q["k"]):
            got_a.append(tuple(next(outer)))
        kind = q["inner"]
        if kind == "list":
            inner = ("rows", [tuple(r) for r in m.list(conn, b, _order_by="id")])
        elif kind == "all":
            inner = ("rows", [tuple(r) for r in m.all(conn, b, _order_by="id")])
        elif kind == "all-abandoned":
            it = m.all(conn, b, _order_by="id")
            first = next(it, None)
            inner = ("first", None if first is None else tuple(first))
        else:
            try:
                r = m.one_or_none(conn, b)
                inner = ("none",) if r is None else ("row", tuple(r))
            except ValueError:
                inner = ("ValueError",)
        got_a += [tuple(r) for r in outer]
    except Exception as e:  # noqa
        report = ("interleaved-iterator-raises", f"raised {type(e).__name__}: {str(e)[:120]}", type(e).__name__, "rows")
    if report is None:
        if kind in ("list", "all"):
            want = ("rows", exp_b)
        elif kind == "all-abandoned":
            want = ("first", exp_b[0] if exp_b else None)
        else:
            want = ("none",) if not exp_b else (("row", exp_b[0]) if len(exp_b) == 1 else ("ValueError",))
        if got_a != exp_a:
            report = ("interleaved-iterator-rows", f"all() advanced {q['k']} rows, then {kind}() on the same method and "
                      "connection: the iterator did not yield exactly its own rows",
                      [r[0] for r in got_a], [r[0] for r in exp_a])
        elif inner != want:
            report = ("interleaved-inner-call", f"{kind}() called while an all() iterator of the same method is open",
                      list(inner), list(want))
    if count:
        acc.case(nontrivial=0 < q["k"] < len(exp_a), outcome="interleave:ok" if report is None else "violation:" + report[0],
                 features=["interleave:inner-" + q["inner"], "conn:" + case["conn"],
                           "interleave:outer-" + ("untouched" if q["k"] == 0 else
                                                  ("exhausted" if q["k"] == len(exp_a) else "partly-consumed"))])
    if report is not None:
        acc.violation("C15:" + report[0], case, report[1], report[2], report[3])
    return report


def _interleave_block(acc, k, step):
    for a in REPS[k::step]:
        na = bin(a.masks[0]).count("1")
        for b in REPS:
            for adv in range(na + 1):
                for inner in INNER_KINDS:
                    run_interleave({"interleave": {"a": a.item("a3"), "b": b.item("a3"), "k": adv, "inner": inner},
                                    "conn": "q" if (adv + len(inner)) % 2 else "p"}, acc)
        if acc.expired():
            return


def _groupings(atoms):
    """Condition lists with the same flattened (field, operator) sequence and different grouping."""
    it = [a.item("a3") for a in atoms]
    if len(it) == 3:
        a, b, c = it
        return [[a, b, c], [["or", [a, b], {}], c], [["or", [a, b, c], {}]], [a, ["or", [b, c], {}]],
                [["or", [a], {}], ["or", [b], {}], c]]
    a, b = it
    return [[a, b], [["or", [a], {}], b], [["or", [a, b], {}]], [a, ["or", [b], {}]]]


def _seq_groupings_block(acc, k, step):
    reps = [REPS[i] for i in (0, 2, 10, 13)]
    combos = [(a, b, c) for a in reps for b in reps for c in reps] + [(a, b) for a in reps for b in reps]
    for atoms in combos[k::step]:
        gs = _groupings(atoms)
        for i, g1 in enumerate(gs):
            for j, g2 in enumerate(gs):
                if i == j:
                    continue
                for conn, order in (("q", "id"), ("p", "-")):
                    c1 = {"items": g1, "kw": {}, "order": order, "via": "call", "method": "list", "conn": conn}
                    c2 = {"items": g2, "kw": {}, "order": order, "via": "call", "method": "list", "conn": conn}
                    rep = run_seq({"seq": [c1, c2]}, acc)
                    acc.feat("seq:same-flat-sequence-other-grouping")
                    del rep
        if acc.expired():
            return


def replay(case, acc):
    if "objects" in case:
        run_objects(case, acc)
        return
    if "interleave" in case:
        run_interleave(case, acc)
        return
    if "illtyped" in case:
        _illtyped(acc)
        return
    if "seq" in case:
        run_seq(case, acc)
        return
    run_case(case, acc)


def selftest():
    L.selftest()
    from mc import core
    # sqlite agrees with the evaluator on every atom of the alphabet (plain SQL, no ak code involved)
    db = _db()
    for a in ATOMS:
        cop, v = L.normalise(a.op, a.spec)
        if cop in ("IN", "NOT IN"):
            sql = f"{a.col} {cop} ({', '.join('?' for _ in v)})"
            params = list(v)
        elif cop in ("IS NULL", "IS NOT NULL"):
            sql, params = f"{a.col} {cop}", []
        else:
            sql, params = f"{a.col} {cop} ?", [v]
        got = [r[0] for r in db.execute(f"SELECT id FROM t WHERE {sql} ORDER BY id", params)]
        exp = [i for i in range(NROWS) if a.masks[0] >> i & 1]
        assert got == exp, (a.col, a.op, a.spec, got, exp)
    for k, (text, _fn) in enumerate(STATICS):
        got = [r[0] for r in db.execute(f"SELECT id FROM t WHERE {text} ORDER BY id")]
        assert got == [i for i in range(NROWS) if _static_masks(k)[0] >> i & 1], (text, got)
    # tests/test_mtd_sql.py::test_complex_conditions, transcribed to the model
    rows = [(1, "James", 1), (2, "Arnold", 1), (3, "Chuck", 7), (4, "Harry", 7), (5, "Asimov", 7)]
    sel = [r[0] for r in rows if L.and3([L.or3([L.eq3(r[1], "Chuck"), L.eq3(r[0], 2)]), L.eq3(r[2], 1)]) is True]
    assert sel == [2]
    assert [r[0] for r in rows if L.or3([]) is True] == []
    acc = core.Acc()
    assert run_case({"items": [["or", [], {"n": ["v", 1], "s": ["v", "axb"]}]], "kw": {"n": ["v", 8]},
                     "order": "id", "via": "call", "method": "one", "conn": "q"}, acc) is None
