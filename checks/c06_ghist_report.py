"""C06 — the git history report attributes every matching commit to the right build per branch
(DESIGN.md §2 C06).

Space (every member is visited, nothing sampled): a history is
  * a commit DAG on commits 1..n: commit i has no parent, one parent, or two distinct parents in either
    order, all among 1..i-1 (several roots, merges, both parent orders by construction);
  * a head for every branch of a fixed branch-name tuple (any commit; heads may coincide or lie inside
    another branch), kept only when every commit is reachable from some head;
  * any subset of commits carrying a build tag, any subset whose message contains the search text;
  * commit times: increasing with the history by default; in the groups marked so also every order of the commit
    times relative to the history (ancestors later than descendants, all equal) and time scales of minutes, 2, 5,
    7 and 29 days between commits - always inside the 30-day window;
  * branch-name families with every separator the numeric-aware order handles (. - _ /) and names that are a
    prefix of another name;
  * search texts with regular-expression metacharacters (selection is plain substring containment).
The real ``ReposCollection.make_report`` runs on a deterministic duck-typed repository
(models/ghist_model.py); ``RGraph.branches[*].rbuilds[*]`` and the printed report are compared with a
reachability reference written from the property statement.
"""

import itertools

from models import ghist_model as gm

ID = "C06"
TITLE = "History report attributes every matching commit to the right build per branch"
TECHNIQUE = "bounded exhaustive enumeration of commit histories against a reachability reference model"
DESIGN_REF = "§2 C06"
LEVEL_TEXT = ("Every history with up to 4 commits under 1-3 branch heads and up to 3 commits under 4 heads (thorough: "
              "4 commits under 4 heads, 5 commits under 1-2 heads, 5 commits under 3 heads with at most 2 tagged and 1 "
              "matching commit), all tag and match placements, is run through the real report builder and printer "
              "and compared with an independent reachability model of the statement.")
LEVEL_NOTE = ("Small-scope: histories with more commits, octopus merges, several tags on one commit, other tag "
              "formats / VERSION files, the obsolete-branch cut-off (dates are kept inside the 30-day window as the "
              "property says) are not explored. Trusted: the reference model and the fake repository in "
              "models/ghist_model.py (cross-checked against the lists asserted in tests/test_ghist.py).")
RULE = ("case = one history (DAG, heads, tagged set, matching set); the report data and the printed report are "
        "compared with the reference. Non-trivial: some matching commit concerns at least two branches (reachable "
        "from two heads, or reachable from a lower-sorted head and therefore owed a 'not merged' line by a higher one).")
ASSUMPTIONS = [
    "commit times inside the 30-day window (property quantifier), in any order relative to the history where the "
    "group says so; the obsolete-branch cut-off is not exercised",
    "at most two parents per commit, one standard build tag per commit, build numbers from tags only",
    "one remote ('origin'); branch names release/<a><sep><b> with sep in . - _ / and master",
    "headings that list no commit are not compared (implementation-only per DESIGN §1.3)",
]
REQUIRED_FEATURES = ["printed-report-parsed", "commit-times-spread-over-days",
                     "higher-branch-head-older-than-lower-report-builds:>1d",
                     "higher-branch-head-older-than-lower-report-builds:>=5d",
                     "higher-branch-head-older-than-lower-report-builds:>=29d",
                     "higher-branch-head-newer-than-lower-report-builds:>1d",
                     "higher-branch-head-newer-than-lower-report-builds:>=29d",
                     "days-older-higher-branch-owes-not-merged",
                     "name-separator-underscore", "name-separator-dash", "name-separator-dot", "name-separator-slash",
                     "order-differs-from-concatenated-digits", "name-is-prefix-of-another-with-numeric-continuation",
                     "search-text-with-regex-metacharacters", "message-matches-as-regex-only",
                     "message-matches-as-substring-only",
                     "commit-times-against-history", "commit-times-equal",
                     "ancestor-of-inside-head-committed-later", "merge", "several-roots", "heads-coincide", "head-inside-other-branch",
                     "head-inside-other-branch+matching-reachable", "not-merged-expected", "tagged-head",
                     "not-built-head", "parallel-tagged-sub-branches", "tag-on-merge-of-built-sub-branches",
                     "lower-branch-commit-merged-into-build", "numeric-aware-order-matters", "master-present"]

B1 = ("master",)
B2 = ("release/2.0", "release/10.0")          # plain string order would put 10.0 first
B3 = ("release/2.0", "release/10.0", "master")
B4 = ("release/1.0", "release/2.0", "release/10.0", "master")
# name families for the separators the numeric-aware order handles: '.', '-', '_', '/' (component-wise numeric:
# 9_10 below 10_1 although "910" > "101"; 1.9 below 1.10; ...)
N_US = ("release/9_10", "release/10_1")
N_DOT = ("release/1.9", "release/1.10")
N_DASH = ("release/2-9", "release/2-10")
N_SLASH = ("release/3/9", "release/3/10")
N_MIX = ("release/9_10", "release/10.1", "release/10-2", "master")
# one name's item list is a strict prefix of the other's, which continues with a number: the shorter sorts first
N_PFX1 = ("release/10", "release/10.1")
N_PFX2 = ("release/2", "release/2.0.1")
TEXTS = tuple(gm.TEXT_FLAVOURS)
DAY = 86400

# group = (n, branch names, number of shards, (max matching, max tagged) or None, printed-report mode, commit times)
#   printed-report mode: "all" = every history is printed and parsed back; "distinct" = once per distinct
#   report structure per shard (the formatter receives nothing but the report data)
#   commit times (see _date_schemes): "inc" = 10 s steps in id (topological) order; "inc@7d" = 7-day steps;
#   "dec@2d"/"dec@5d" = "inc" and the reverse order (every ancestor later than its descendants) in 2/5-day steps;
#   "all" = every permutation of the commit times (10-minute steps), all-equal, increasing and reversed in 2- and
#   5-day steps, and every split of the commits into two dates 29 days apart; "lite" = the permutations, all-equal,
#   increasing in 5-day and reversed in 2-day steps; "days4" = inc, reversed@5d, all-equal, inc@7d
_GROUPS = {
    "quick": [(1, B2, 1, None, "all", "all"), (2, B2, 1, None, "all", "all"), (1, B3, 1, None, "all", "all"),
              (2, B3, 1, None, "all", "all"), (3, B1, 1, None, "all", "all"), (3, B2, 4, None, "all", "all"),
              (3, B3, 12, None, "all", "lite"), (3, B4, 12, None, "all", "dec@2d"),
              (4, B1, 2, None, "all", "dec@5d"), (4, B2, 32, None, "all", "dec@5d"),
              (4, B3, 96, None, "distinct", "inc@7d"),
              (2, N_US, 1, None, "all", "inc"), (3, N_US, 1, None, "all", "inc"),
              (2, N_DOT, 1, None, "all", "inc"), (3, N_DOT, 1, None, "all", "inc"),
              (2, N_DASH, 1, None, "all", "inc"), (3, N_DASH, 1, None, "all", "inc"),
              (2, N_SLASH, 1, None, "all", "inc"), (3, N_SLASH, 1, None, "all", "inc"),
              (2, N_MIX, 1, None, "all", "inc"),
              (2, N_PFX1, 1, None, "all", "inc"), (3, N_PFX1, 1, None, "all", "inc"),
              (2, N_PFX2, 1, None, "all", "inc"), (3, N_PFX2, 1, None, "all", "inc")]
             + [(n, B2, 1, None, "all", "inc", t) for t in TEXTS for n in (2, 3)],
    "thorough": [(1, B2, 1, None, "all", "all"), (2, B2, 1, None, "all", "all"), (1, B4, 1, None, "all", "all"),
                 (2, B4, 1, None, "all", "all"), (3, B1, 1, None, "all", "all"), (3, B2, 4, None, "all", "all"),
                 (3, B3, 16, None, "all", "all"), (3, B4, 32, None, "all", "lite"),
                 (4, B1, 4, None, "all", "all"), (4, B2, 24, None, "all", "days4"), (4, B3, 48, None, "all", "dec@5d"),
                 (4, B4, 96, None, "distinct", "inc@7d"), (5, B1, 16, None, "all", "dec@5d"),
                 (5, B2, 128, None, "distinct", "inc@7d"), (5, B3, 160, (1, 2), "distinct", "inc"),
                 (3, N_US, 1, None, "all", "inc"), (4, N_US, 8, None, "all", "inc"),
                 (3, N_DOT, 1, None, "all", "inc"), (4, N_DOT, 8, None, "all", "inc"),
                 (3, N_DASH, 1, None, "all", "inc"), (4, N_DASH, 8, None, "all", "inc"),
                 (3, N_SLASH, 1, None, "all", "inc"), (4, N_SLASH, 8, None, "all", "inc"),
                 (3, N_MIX, 4, None, "all", "inc"),
                 (3, N_PFX1, 1, None, "all", "inc"), (4, N_PFX1, 8, None, "all", "inc"),
                 (3, N_PFX2, 1, None, "all", "inc"), (4, N_PFX2, 8, None, "all", "inc")]
                + [(n, B3, 2, None, "all", "inc", t) for t in TEXTS for n in (2, 3)]
                + [(4, B2, 8, None, "all", "inc", t) for t in TEXTS],
}


def _date_schemes(n, mode):
    """-> list of None (default: 10 s steps in id order) or (rank of each commit's time, seconds per rank unit).
    The spread never exceeds 29 days."""
    up, down = list(range(1, n + 1)), list(range(n, 0, -1))
    if mode == "inc":
        return [None]
    if mode == "inc@7d":
        return [(up, 7 * DAY)]
    if mode == "dec@2d":
        return [None, (down, 2 * DAY)]
    if mode == "dec@5d":
        return [None, (down, 5 * DAY)]
    if mode == "days4":
        return [None, (down, 5 * DAY), ([1] * n, 600), (up, 7 * DAY)]
    out = [None]
    for perm in itertools.permutations(up):
        if list(perm) != up:
            out.append((list(perm), 600))
    out.append(([1] * n, 600))
    if mode == "lite":
        return out + [(up, 5 * DAY), (down, 2 * DAY)]
    out += [(up, 2 * DAY), (down, 2 * DAY), (up, 5 * DAY), (down, 5 * DAY)]
    for mask in range(1, (1 << n) - 1):
        out.append(([(mask >> i) & 1 for i in range(n)], 29 * DAY))
    for ranks, step in out[1:]:
        assert (max(ranks) - min(ranks)) * step <= 29 * DAY
    return out


def bounds(tier):
    return {"groups": [{"commits": n, "branches": list(names), "shards": k,
                        "matching_commits_at_most": lim[0] if lim is not None else n,
                        "tagged_commits_at_most": lim[1] if lim is not None else n,
                        "printed_report_compared": pr, "commit_time_orders": len(_date_schemes(n, dm)),
                        "search_text": (rest[0] if rest else gm.SEARCH_TEXT)}
                       for n, names, k, lim, pr, dm, *rest in _GROUPS[tier]],
            "parents_per_commit": "0..2, both orders", "tags": "any subset, one standard tag per commit",
            "matching": "any subset (see matching_commits_at_most)", "heads": "every tuple covering all commits"}


def shards(tier):
    out = []
    for gi, (n, names, k, lim, pr, _dm, *_rest) in enumerate(_GROUPS[tier]):
        for j in range(k):
            out.append((tier, gi, j))
    return out


_DAGS = {}


def _dags(n):
    if n not in _DAGS:
        _DAGS[n] = list(gm.enumerate_dags(n))
    return _DAGS[n]


_PRINT_SEEN = set()


def check_history(case, acc, printed_mode="all"):
    """Runs one history; -> (list of problems, expected, observed)."""
    parents, heads, tags, match = case["parents"], case["heads"], case["tags"], case["match"]
    exp = gm.c06_expected(parents, heads, tags, match)
    acc.trans(1)
    try:
        fake = gm.FakeRepo(gm.c06_repo_spec(case))
        with gm.cpu_limit(5.0):
            coll = gm.ghist.ReposCollection({"comp_1": gm.ModelProjectRepo("comp_1", fake, "origin")})
            report = coll.make_report(case.get("text", gm.SEARCH_TEXT))
        (_rid, rgraph), = report.data
        observed = gm.observe_rgraph(rgraph)
    except gm.Hang:
        return [("hangs", "make_report does not terminate (5 s CPU)", "no result", "a report")], exp, None
    except Exception as e:  # noqa
        return [(f"raises-{type(e).__name__}", f"make_report raised {type(e).__name__}: {e}", repr(e), "a report")], exp, None
    problems = gm.c06_judge(parents, heads, tags, match, observed, exp)
    if printed_mode == "distinct":
        key = repr(observed)
        if key in _PRINT_SEEN:
            return problems, exp, observed
        _PRINT_SEEN.add(key)
    acc.trans(1)
    acc.feat("printed-report-parsed")
    try:
        printed = str(report)
        pp = gm.parse_printed(printed)
        problems += gm.c06_judge_printed(observed, pp.get("comp_1", []))
    except ValueError as e:
        problems.append(("printed-report-unparseable", str(e), printed, None))
    except Exception as e:  # noqa
        problems.append((f"printing-raises-{type(e).__name__}", f"printing the report raised {e!r}", repr(e), None))
    return problems, exp, observed


def _report(acc, case, problems):
    seen = set()
    for sig, msg, obs, want in problems:
        if sig in seen:
            continue
        seen.add(sig)
        acc.violation("C06:" + sig, case, msg, obs, want)


def _outcome(observed, problems):
    if observed is None:
        return "raised"
    nb = sum(1 for _b, bl in observed for k, _l, _c, pr in bl if k == "build" and pr)
    nm = sum(1 for _b, bl in observed for k, _l, _c, pr in bl if k == "not-merged")
    nl = sum(len(pr) for _b, bl in observed for _k, _l, _c, pr in bl)
    return f"branches={len(observed)} builds={nb} notmerged={nm} listed={nl}" + (" VIOLATION" if problems else "")


def run_shard(shard, tier, seed, acc):
    _tier, gi, j = shard
    n, names, k, lim, printed_mode, date_mode, *rest = _GROUPS[tier][gi]
    text = rest[0] if rest else None
    schemes = _date_schemes(n, date_mode)
    _PRINT_SEEN.clear()             # per shard, so that what is printed does not depend on worker scheduling
    dags = _dags(n)
    full = (1 << (n + 1)) - 2
    ids = list(range(1, n + 1))
    tag_sets = [t for t in gm.subsets(ids) if lim is None or len(t) <= lim[1]]
    match_sets = [m for m in gm.subsets(ids) if lim is None or len(m) <= lim[0]]
    extra = ()
    extra += _name_features(names)
    idx = -1
    for parents in dags:
        r = gm.reach_masks(parents)
        for hs in itertools.product(ids, repeat=len(names)):
            cover = 0
            for h in hs:
                cover |= r[h]
            if cover != full:
                continue
            idx += 1
            if idx % k != j:        # the (DAG, heads) combinations are dealt round-robin to the group's shards
                continue
            heads = [[b, h] for b, h in zip(names, hs)]
            if acc.expired():
                return
            for tags in tag_sets:
                for match in match_sets:
                    base_feats = None
                    for scheme in schemes:
                        case = {"parents": parents, "heads": heads, "tags": tags, "match": match}
                        if text is not None:
                            case["text"] = text
                        dates = None
                        if scheme is not None:
                            dates, step = scheme
                            case["dates"] = dates
                            if step != 600:
                                case["step"] = step
                        problems, exp, observed = check_history(case, acc, printed_mode)
                        if base_feats is None:
                            base_feats = (tuple(gm.c06_features(parents, heads, tags, match, exp)) + extra,
                                          gm.c06_nontrivial(match, exp))
                        feats, nontriv = base_feats
                        if text is not None:
                            feats = feats + _text_features(case)
                        if dates is not None:
                            feats = feats + _date_features(parents, dates, step, match, exp)
                        acc.case(nontrivial=nontriv, features=feats, outcome=_outcome(observed, problems))
                        if nontriv and len(tags) == 1 and len(match) == 2:
                            acc.sample(case)
                        if problems:
                            _report(acc, case, problems)
                            if any(p[0] == "hangs" for p in problems):
                                acc.note_sum("hangs", 1)
                                if acc.extra.get("sum_hangs", 0) >= 3:      # each hang costs the whole CPU limit
                                    acc.capped = True
                                    return


def _text_features(case):
    import re
    text = case["text"]
    f = ("search-text-with-regex-metacharacters",)
    match = set(case["match"])
    for i in range(1, len(case["parents"]) + 1):
        msg = gm.c06_message(i, i in match, text)
        as_re = re.search(text, msg) is not None
        if as_re and text not in msg:
            f += ("message-matches-as-regex-only",)
        if text in msg and not as_re:
            f += ("message-matches-as-substring-only",)
        assert (text in msg) == (i in match)
    return tuple(dict.fromkeys(f))


def _name_features(names):
    f = ()
    rel = [n for n in names if n != "master"]
    if sorted(rel) != gm.sorted_branches(rel):
        f += ("numeric-aware-order-matters",)
    if "master" in names:
        f += ("master-present",)
    digits = sorted(rel, key=lambda n: int("".join(ch for ch in n if ch.isdigit()) or 0))
    if digits != gm.sorted_branches(rel):
        f += ("order-differs-from-concatenated-digits",)
    for sep, label in (("_", "underscore"), ("-", "dash"), (".", "dot")):
        if any(sep in n[len("release/"):] for n in rel):
            f += ("name-separator-" + label,)
    if any("/" in n[len("release/"):] for n in rel):
        f += ("name-separator-slash",)
    if any(a != b and b.startswith(a) and b[len(a)] in "._-/" and b[len(a) + 1].isdigit() for a in rel for b in rel):
        f += ("name-is-prefix-of-another-with-numeric-continuation",)
    return f


def _date_features(parents, dates, step, match, exp):
    f = ()
    if len(set(dates)) == 1:
        f += ("commit-times-equal",)
    if any(dates[p - 1] > dates[i - 1] for i, ps in enumerate(parents, start=1) for p in ps):
        f += ("commit-times-against-history",)
    for e in exp:
        if e["head_inside_lower"] and any((e["reach"] >> m) & 1 and dates[m - 1] > dates[e["head"] - 1] for m in match):
            f += ("ancestor-of-inside-head-committed-later",)
            break
    if (max(dates) - min(dates)) * step > DAY:
        f += ("commit-times-spread-over-days",)
        # a higher-sorted branch whose head is days older / newer than the earliest report build of the lower branches
        lower_builds = []
        seen = set()
        for e in exp:
            if lower_builds:
                gap = (min(lower_builds) - dates[e["head"] - 1]) * step
                for lim, name in ((DAY, ">1d"), (5 * DAY, ">=5d"), (29 * DAY, ">=29d")):
                    if (gap > lim if lim == DAY else gap >= lim) and ("o" + name) not in seen:
                        seen.add("o" + name)
                        f += ("higher-branch-head-older-than-lower-report-builds:" + name,)
                    if (-gap > lim if lim == DAY else -gap >= lim) and ("n" + name) not in seen:
                        seen.add("n" + name)
                        f += ("higher-branch-head-newer-than-lower-report-builds:" + name,)
                if gap > DAY and e["nm"] and "nm" not in seen:
                    seen.add("nm")
                    f += ("days-older-higher-branch-owes-not-merged",)
            lower_builds += [dates[b - 1] for w in e["where"].values() for b in w]
    return f


def replay(case, acc):
    problems, _exp, observed = check_history(case, acc, "all")
    acc.case(nontrivial=True, outcome=_outcome(observed, problems))
    _report(acc, case, problems)
