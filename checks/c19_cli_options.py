"""C19 — command options are inherited exactly along the declared command graph (DESIGN.md §2 C19).

Space (every member is visited):
  declarations : every list of n commands (n <= 4 quick / n <= 5 thorough) where the parents of a
                 command are any subset of the commands declared before it (1+2+8+64(+1024) graphs)
               x every choice of internal ('!') commands that leaves at least one real command
               x two assignments of names to positions (so that a two-element ``parents`` set is
                 iterated in both orders under one hash seed)
               x default command {not given, the last real command}            (graphs of <= 4 commands;
               x order in which the per-parser options are added {declaration   5 commands: not given,
                 order, reverse}                                                 declaration order)
               x hash seeds {own} (quick) / {0, 1, 2} (thorough; other seeds run in sub-processes)
  argv         : for every real command c and every parser p: [c, --opt-p, v]; for every real c:
                 [c], [c, --common, v], [c, -v], [c, --color, never], [c, --no-color]; and without a
                 command name: [], [-v], [--common, v], [--opt-p, v] for every parser p
Oracle (models/cli_model.py): transitive closure of the declared parents.
"""

import io
import json
import os
import subprocess
import sys

VERIF = os.path.dirname(os.path.dirname(os.path.abspath(__file__)))
if VERIF not in sys.path:            # only when executed as the sub-process entry point
    sys.path.insert(0, VERIF)

from models import cli_model as M  # noqa: E402

ID = "C19"
TITLE = "Command options are inherited exactly along the declared command graph"
TECHNIQUE = "bounded exhaustive enumeration of command DAGs x argv against a transitive-closure oracle"
DESIGN_REF = "§2 C19"
LEVEL_TEXT = ("Every acyclic parent declaration over at most 4 (quick) / 5 (thorough) commands, with every "
              "internal-flag choice, is built with the real ArgParser and every (command, option) pair is "
              "parsed; acceptance is compared with the transitive closure of the declared parents.")
LEVEL_NOTE = ("Small scope: graphs with more than 5 commands, options other than one optional string option "
              "per parser, positionals and abbreviations are not explored. Set iteration order of 'parents' "
              "is covered by two name assignments and (thorough) three hash seeds, not by all orders of "
              "three or more parents. Trusted: argparse itself, the closure computation in models/cli_model.py.")
RULE = ("case = one declaration (graph, internal flags, names, default command, option order, hash seed) "
        "constructed once and probed with every argv of the family; distinct by construction. "
        "Non-trivial: the graph has at least one parent edge and the probes contain both an accepted "
        "inherited option and a rejected foreign option.")
ASSUMPTIONS = [
    "parents refer to commands declared earlier (the implementation asserts this), so every declaration is acyclic",
    "one optional '--opt-<name> VALUE' option per parser; option names are not prefixes of each other",
    "argv whose first word is the name of an internal ('!') option set is outside the property (the "
    "repository's tests expect 'invalid choice'); counted, never judged",
]
REQUIRED_FEATURES = ["shape:no-edges", "shape:multi-parent", "shape:transitive", "shape:shared-ancestor",
                     "shape:forest", "shape:fan-out", "internal:some", "internal:as-parent",
                     "internal:with-parents", "internal:first-declared", "default:explicit",
                     "default:implicit", "parents-iterated:declared-order", "parents-iterated:other-order",
                     "probe:own-option", "probe:inherited-direct", "probe:inherited-transitive",
                     "probe:foreign-option", "probe:common-option", "probe:std-option",
                     "probe:no-command"]

NAMES = ["alpha", "bravo", "carol", "delta", "echo"]
THOROUGH_SEEDS = ["0", "1", "2"]


def _own_hashseed():
    return os.environ.get("PYTHONHASHSEED", "random")


def bounds(tier):
    n = 4 if tier == "quick" else 5
    return {"max_commands": n,
            "graphs": sum(2 ** (k * (k - 1) // 2) for k in range(1, n + 1)),
            "internal_flags": "all choices leaving >= 1 real command",
            "name_assignments": 2, "default_command": ["not given", "last real command (n <= 4)"],
            "option_add_order": ["declaration", "reverse (n <= 4)"],
            "hash_seeds": [_own_hashseed()] if tier == "quick" else THOROUGH_SEEDS}


def _graphs(n):
    return list(M.all_dags(n))


def shards(tier):
    nmax = 4 if tier == "quick" else 5
    seeds = [_own_hashseed()] if tier == "quick" else THOROUGH_SEEDS
    out = []
    for hs in seeds:
        out.append((hs, 1, 0, 1))
        out.append((hs, 2, 0, 2))
        out.append((hs, 3, 0, 8))
        for lo in range(0, 64, 4):
            out.append((hs, 4, lo, lo + 4))
        if nmax >= 5:
            for lo in range(0, 1024, 16):
                out.append((hs, 5, lo, lo + 16))
    return out


# ------------------------------------------------------------------ running the real code
class _Null(io.TextIOBase):
    def write(self, s):
        return len(s)


class _Quiet:
    """argparse writes usage/errors to stderr (and help to stdout) before raising SystemExit."""

    def __enter__(self):
        self.saved = sys.stdout, sys.stderr
        sys.stdout = sys.stderr = _Null()

    def __exit__(self, *exc):
        sys.stdout, sys.stderr = self.saved
        return False


def _dflt(case):
    """case["default"]: "-" = default_command not given, else the index of the command as a string."""
    return None if case["default"] == "-" else int(case["default"])


def _names(case):
    n = case["n"]
    pool = NAMES[:n]
    return pool if case["naming"] == 0 else pool[::-1]


def _declaration(case):
    names = _names(case)
    decl = []
    for i in range(case["n"]):
        s = ("!" if case["internal"][i] else "") + names[i]
        if case["parents"][i]:
            s += ":" + ",".join(names[p] for p in case["parents"][i])
        decl.append((s, "help of " + names[i]))
    return decl


def _parents_iteration_features(case):
    """Order in which the implementation's ``{pp for p in parents.split(',') ...}`` set will be iterated.

    The same strings inserted in the same order into a set in this very process iterate identically
    (str hashes are per-process), so this is measured, not assumed.
    """
    names = _names(case)
    feats = set()
    for ps in case["parents"]:
        if len(ps) >= 2:
            listed = [names[p] for p in ps]
            it = list({pp for p in ",".join(listed).split(',') if (pp := p.strip())})
            feats.add("parents-iterated:declared-order" if it == listed else "parents-iterated:other-order")
    return feats


def _parse(parser, argv):
    try:
        ns = parser.parse_args(list(argv))
    except SystemExit as e:
        return ("exit", e.code, None)
    except Exception as e:  # noqa
        return ("raise", type(e).__name__, None)
    return ("ok", None, ns)


def explore_case(case, acc, report=True):
    """Build one declaration with the real ArgParser, probe every argv. Returns a result summary."""
    from ak.cli_tools import ArgParser
    n = case["n"]
    parents, internal = case["parents"], [bool(x) for x in case["internal"]]
    names = _names(case)
    anc = M.ancestors(parents)
    feats = set(M.shape_features(parents, internal)) | _parents_iteration_features(case)
    feats.add("default:explicit" if _dflt(case) is not None else "default:implicit")
    viol = []

    def bad(sig, msg, obs, exp):
        viol.append((sig, msg, obs, exp))

    shared = "shape:shared-ancestor" in feats
    with _Quiet():
        # ---- construction must succeed for every acyclic declaration
        kwargs = {}
        if _dflt(case) is not None:
            kwargs["default_command"] = names[_dflt(case)]
        acc.trans()
        try:
            ap = ArgParser(_declaration(case), **kwargs)
        except BaseException as e:  # noqa  (AssertionError, SystemExit, ...)
            bad("construction-fails-" + ("shared-ancestor" if shared else "plain"),
                f"ArgParser(commands=...) raised {type(e).__name__} for an acyclic declaration",
                {"raised": type(e).__name__, "text": str(e)[:200], "declaration": [d[0] for d in _declaration(case)]},
                "construction succeeds")
            ap = None
        added_ok = ap is not None
        if ap is not None:
            order = list(range(n)) if case["order"] == "fwd" else list(range(n - 1, -1, -1))
            try:
                if case["order"] == "rev":
                    acc.trans()
                    ap.add_argument("--common", help="for every command")
                for i in order:
                    acc.trans()
                    ap.get_cmd_parser(names[i]).add_argument("--opt-" + names[i], help="option of " + names[i])
                if case["order"] == "fwd":
                    acc.trans()
                    ap.add_argument("--common", help="for every command")
            except BaseException as e:  # noqa
                added_ok = False
                bad("add-option-fails-" + ("shared-ancestor" if shared else "plain"),
                    f"adding one option per parser raised {type(e).__name__}",
                    {"raised": type(e).__name__, "text": str(e)[:200]}, "options can be added")

        n_acc = n_rej = 0
        if ap is not None and added_ok:
            dflt = M.default_command(internal, _dflt(case))
            real = [i for i in range(n) if not internal[i]]

            def probe(argv, want_cmd, want_attr, want_ok, kind, sig_ok, sig_rej):
                nonlocal n_acc, n_rej
                acc.trans()
                st, code, ns = _parse(ap, argv)
                feats.add(kind)
                if st == "raise":
                    bad("parse-raises", f"parse_args({argv}) raised {code}", code, "namespace or SystemExit")
                    return
                got_ok = st == "ok"
                if got_ok:
                    n_acc += 1
                else:
                    n_rej += 1
                if want_ok and not got_ok:
                    bad(sig_rej, f"parse_args({argv}) was rejected", f"SystemExit({code})", "accepted")
                elif not want_ok and got_ok:
                    bad(sig_ok, f"parse_args({argv}) was accepted", {k: v for k, v in sorted(vars(ns).items())},
                        "rejected")
                elif got_ok:
                    if getattr(ns, "command", None) != names[want_cmd]:
                        bad("wrong-command" if kind != "probe:no-command" else "default-command-wrong",
                            f"parse_args({argv}) selected another command",
                            getattr(ns, "command", None), names[want_cmd])
                    elif want_attr is not None and getattr(ns, want_attr[0], None) != want_attr[1]:
                        bad("option-value-lost", f"parse_args({argv}): value of {want_attr[0]} not stored",
                            getattr(ns, want_attr[0], "<absent>"), want_attr[1])

            for c in real:
                probe([names[c]], c, None, True, "probe:bare-command", "-", "bare-command-rejected")
                for p in range(n):
                    want = p == c or p in anc[c]
                    if p == c:
                        kind = "probe:own-option"
                    elif p in parents[c]:
                        kind = "probe:inherited-direct"
                    elif want:
                        kind = "probe:inherited-transitive"
                    else:
                        kind = "probe:foreign-option"
                    probe([names[c], "--opt-" + names[p], "val"], c, ("opt_" + names[p], "val"), want, kind,
                          "foreign-option-accepted",
                          "own-option-rejected" if p == c else
                          ("inherited-option-rejected-" + ("shared-ancestor" if M.path_counts(parents)[c][p] >= 2
                                                           else ("direct" if p in parents[c] else "transitive"))))
                probe([names[c], "--common", "val"], c, ("common", "val"), True, "probe:common-option",
                      "-", "common-option-rejected")
                probe([names[c], "-v"], c, ("verbose", 1), True, "probe:std-option", "-", "std-option-rejected")
                probe([names[c], "--color", "never"], c, ("color", "never"), True, "probe:std-option",
                      "-", "std-option-rejected")
                probe([names[c], "--no-color"], c, None, True, "probe:std-option", "-", "std-option-rejected")
            # argv that does not start with a command name -> the default command
            probe([], dflt, None, True, "probe:no-command", "-", "default-command-rejected")
            probe(["-v"], dflt, ("verbose", 1), True, "probe:no-command", "-", "default-command-rejected")
            probe(["--common", "val"], dflt, ("common", "val"), True, "probe:no-command", "-",
                  "default-command-rejected")
            for p in range(n):
                want = p == dflt or p in anc[dflt]
                probe(["--opt-" + names[p], "val"], dflt, ("opt_" + names[p], "val"), want, "probe:no-command",
                      "default-command-foreign-option-accepted", "default-command-option-rejected")
            # first word names an internal option set: outside the property, counted only
            for i in range(n):
                if internal[i]:
                    acc.trans()
                    st, code, ns = _parse(ap, [names[i]])
                    feats.add("domain:argv-starts-with-internal-name")
                    acc.feat("outside-domain:internal-name-" + st)

    has_edge = any(parents)
    nontrivial = has_edge and "probe:foreign-option" in feats and \
        ("probe:inherited-direct" in feats or "probe:inherited-transitive" in feats)
    if viol:
        outcome = "violation:" + "+".join(sorted({v[0] for v in viol}))
    else:
        outcome = f"ok:accepted={n_acc}:rejected={n_rej}"
    if report:
        acc.case(nontrivial=nontrivial, features=sorted(feats), outcome=outcome)
        if nontrivial and "shape:shared-ancestor" in feats:
            acc.sample({"declaration": [d[0] for d in _declaration(case)], "default": case["default"],
                        "hashseed": case["hashseed"], "outcome": outcome})
    seen = set()
    for sig, msg, obs, exp in viol:
        if sig in seen:
            continue                       # one report per signature and case (the smallest argv comes first)
        seen.add(sig)
        acc.violation("C19:" + sig, case, msg, obs, exp)
    return outcome


def _explore_block(hs, n, lo, hi, acc):
    graphs = _graphs(n)[lo:hi]
    for parents in graphs:
        for internal in M.internal_choices(n):
            real = [i for i in range(n) if not internal[i]]
            for naming in (0, 1):
                # n == 5 (thorough only): the default-command and option-order decorations were
                # already multiplied with every graph of <= 4 commands; keep the plain ones
                for dflt in (("-", str(real[-1])) if n <= 4 else ("-",)):
                    for order in (("fwd", "rev") if n <= 4 else ("fwd",)):
                        if acc.expired():
                            return
                        case = {"n": n, "parents": parents, "internal": [int(x) for x in internal], "naming": naming,
                                "default": dflt, "order": order, "hashseed": hs}
                        explore_case(case, acc)


def _in_subprocess(payload):
    env = dict(os.environ)
    env["PYTHONHASHSEED"] = str(payload["hashseed"])
    env["PYTHONDONTWRITEBYTECODE"] = "1"
    r = subprocess.run([sys.executable, "-B", os.path.abspath(__file__), "--child"],
                       input=json.dumps(payload), capture_output=True, text=True, env=env)
    if r.returncode != 0:
        raise RuntimeError(f"C19 child (hash seed {payload['hashseed']}) failed: {r.stderr[-2000:]}")
    return json.loads(r.stdout)


def run_shard(shard, tier, seed, acc):
    hs, n, lo, hi = shard
    hs = str(hs)
    if hs == _own_hashseed():
        _explore_block(hs, n, lo, hi, acc)
        acc.feat("hashseed:" + hs)
        return
    d = _in_subprocess({"mode": "block", "hashseed": hs, "n": n, "lo": lo, "hi": hi, "seed": seed,
                        "deadline": acc.deadline})
    acc.merge(d)
    acc.feat("hashseed:" + hs)


def replay(case, acc):
    hs = str(case.get("hashseed", _own_hashseed()))
    if hs == _own_hashseed() or hs == "random":
        explore_case(case, acc)
        return
    d = _in_subprocess({"mode": "case", "hashseed": hs, "case": case, "seed": 0, "deadline": None})
    acc.merge(d)


def required_features(tier):
    feats = list(REQUIRED_FEATURES)
    if tier == "thorough":
        feats += ["hashseed:" + s for s in THOROUGH_SEEDS]
    return feats


def selftest():
    M.selftest()
    # the tree of tests/test_cli_tools.py::test_multicmd_tree_structure goes through the harness silently
    from mc import core
    acc = core.Acc()
    case = {"n": 5, "parents": [[], [], [0, 1], [2], [0]], "internal": [0, 1, 0, 0, 0],
            "naming": 0, "default": "-", "order": "fwd", "hashseed": _own_hashseed()}
    out = explore_case(case, acc)
    assert out.startswith("ok:"), out


def _child_main():
    from mc import core
    core.bind_repo()
    # this file is executed as __main__; use the importable module so that models resolve identically
    import checks.c19_cli_options as me
    payload = json.loads(sys.stdin.read())
    assert me._own_hashseed() == str(payload["hashseed"]), (me._own_hashseed(), payload["hashseed"])
    acc = core.Acc(seed=payload.get("seed", 0), deadline=payload.get("deadline"))
    if payload["mode"] == "block":
        me._explore_block(str(payload["hashseed"]), payload["n"], payload["lo"], payload["hi"], acc)
    else:
        me.explore_case(payload["case"], acc)
    sys.stdout.write(json.dumps(acc.export(), default=repr))


if __name__ == "__main__" and "--child" in sys.argv:
    _child_main()
