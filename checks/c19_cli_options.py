"""C19 — command options are inherited exactly along the declared command graph (DESIGN.md §2 C19).

Space (every member is visited):
  declarations : every list of n commands (n <= 4 quick / n <= 5 thorough) where the parents of a
                 command are any subset of the commands declared before it (1+2+8+64(+1024) graphs)
               x every choice of internal ('!') commands that leaves at least one real command
               x three assignments of names to positions: alpha..echo forwards and backwards (so that a
                 two-element ``parents`` set is iterated in both orders under one hash seed) and
                 list, all, list-all, v1.2, dry-run (names with '-' / '.' whose pieces are commands too)
               x default command {not given, the last real command}            (graphs of <= 4 commands;
               x order in which the per-parser options are added {declaration   5 commands: not given,
                 order, reverse}                                                 declaration order)
               x hash seeds {own} (quick) / {0, 1, 2} (thorough; other seeds run in sub-processes)
  options      : per parser one value option (--<name>-opt V), one flag with a short alias
                 (-<letter> / --<name>-flag, store_true) and a second option for the dest of each of them
                 (--no-<name>-flag store_false, --default-<name>-opt store_const); one ArgParser-level option
  argv         : for every real command c and every parser p: [c, --p-opt, v], [c, --p-flag], [c, -p],
                 [c, --no-p-flag], [c, --default-p-opt];
                 for every real c: [c], all options c must accept in one argv, [c, --common, v], [c, -v],
                 [c, --color, never], [c, --no-color]; and without a command name: [], [-v],
                 [--common, v], [--p-opt, v], [--p-flag] for every parser p; and argv whose LATER words are
                 names of commands / internal option sets: [--common, <name>], [--<default>-opt, <name>, -v],
                 [x, <name>], [-v, x, <name>, --common, <other name>] for every declared name, and argv starting
                 with the end-of-options marker: [--], [--, a.txt], [--, -odd], [--, <name>], [--, --<p>-opt] (a positional
                 "words" argument is added to the ArgParser for this)
  seq          : every ordered pair of declarations with <= 3 commands (63 x 63; quick: the pairs in which at
                 least one declaration has <= 2 commands, 833), both built in one freshly
                 reloaded ak.cli_tools module: first probed, second built and probed, first probed again
Oracle (models/cli_model.py): transitive closure of the declared parents.
"""

import io
import json
import os
import subprocess
import sys

VERIF = os.path.dirname(os.path.dirname(os.path.abspath(__file__)))
if VERIF not in sys.path:            # only when executed as the sub-process entry point
    sys.path.insert(0, VERIF)

from models import cli_model as M  # noqa: E402

ID = "C19"
TITLE = "Command options are inherited exactly along the declared command graph"
TECHNIQUE = "bounded exhaustive enumeration of command DAGs x argv against a transitive-closure oracle"
DESIGN_REF = "§2 C19"
LEVEL_TEXT = ("Every acyclic parent declaration over at most 4 (quick) / 5 (thorough) commands, with every "
              "internal-flag choice, is built with the real ArgParser and every (command, option) pair is "
              "parsed; acceptance is compared with the transitive closure of the declared parents.")
LEVEL_NOTE = ("Small scope: graphs with more than 5 commands, options other than one optional string option "
              "per parser, positionals and abbreviations are not explored. Set iteration order of 'parents' "
              "is covered by two name assignments and (thorough) three hash seeds, not by all orders of "
              "three or more parents. Trusted: argparse itself, the closure computation in models/cli_model.py.")
RULE = ("case = one declaration (graph, internal flags, names, default command, option order, hash seed) "
        "constructed once and probed with every argv of the family; distinct by construction. "
        "Non-trivial: the graph has at least one parent edge and the probes contain both an accepted "
        "inherited option and a rejected foreign option.")
ASSUMPTIONS = [
    "parents refer to commands declared earlier (the implementation asserts this), so every declaration is acyclic",
    "options are spelled '--<name>-opt' / '--<name>-flag' so that no option string is a prefix (argparse abbreviation) of another",
    "argv whose first word is the name of an internal ('!') option set is outside the property (the "
    "repository's tests expect 'invalid choice'); counted, never judged",
]
REQUIRED_FEATURES = ["shape:no-edges", "shape:multi-parent", "shape:transitive", "shape:shared-ancestor",
                     "shape:forest", "shape:fan-out", "internal:some", "internal:as-parent",
                     "internal:with-parents", "internal:first-declared", "default:explicit",
                     "default:implicit", "parents-iterated:declared-order", "parents-iterated:other-order",
                     "probe:own-option", "probe:inherited-direct", "probe:inherited-transitive",
                     "probe:foreign-option", "probe:common-option", "probe:std-option",
                     "probe:no-command", "probe:no-command-later-name", "probe:no-command-end-of-options-marker",
                     "probe:all-inherited-at-once",
                     "names:punctuated-name-as-parent", "options:two-options-one-dest",
                     "seq:two-parsers"]

NAMES = ["alpha", "bravo", "carol", "delta", "echo"]
# names with '-' and '.', next to commands named like their pieces ('list', 'all')
NAMES_PUNCT = ["list", "all", "list-all", "v1.2", "dry-run"]
LETTERS = {nm: "-" + "abcde"[i] for pool in (NAMES, NAMES_PUNCT) for i, nm in enumerate(pool)}   # no -v / -h
THOROUGH_SEEDS = ["0", "1", "2"]


def _own_hashseed():
    return os.environ.get("PYTHONHASHSEED", "random")


def bounds(tier):
    n = 4 if tier == "quick" else 5
    return {"max_commands": n,
            "graphs": sum(2 ** (k * (k - 1) // 2) for k in range(1, n + 1)),
            "internal_flags": "all choices leaving >= 1 real command",
            "name_assignments": 3, "default_command": ["not given", "last real command (n <= 4)"],
            "option_add_order": ["declaration", "reverse (n <= 4)"],
            "hash_seeds": [_own_hashseed()] if tier == "quick" else THOROUGH_SEEDS}


def _graphs(n):
    return list(M.all_dags(n))


def shards(tier):
    nmax = 4 if tier == "quick" else 5
    seeds = [_own_hashseed()] if tier == "quick" else THOROUGH_SEEDS
    out = []
    for hs in seeds:
        out.append((hs, 1, 0, 1))
        out.append((hs, 2, 0, 2))
        out.append((hs, 3, 0, 8))
        for lo in range(0, 64, 4):
            out.append((hs, 4, lo, lo + 4))
        if nmax >= 5:
            for lo in range(0, 1024, 16):
                out.append((hs, 5, lo, lo + 16))
    for k in range(16):
        out.append((seeds[0], "seq", k, 16))
    return out


# ------------------------------------------------------------------ running the real code
class _Null(io.TextIOBase):
    def write(self, s):
        return len(s)


class _Quiet:
    """argparse writes usage/errors to stderr (and help to stdout) before raising SystemExit."""

    def __enter__(self):
        self.saved = sys.stdout, sys.stderr
        sys.stdout = sys.stderr = _Null()

    def __exit__(self, *exc):
        sys.stdout, sys.stderr = self.saved
        return False


def _dflt(case):
    """case["default"]: "-" = default_command not given, else the index of the command as a string."""
    return None if case["default"] == "-" else int(case["default"])


def _names(case):
    n = case["n"]
    if case["naming"] == 2:
        return NAMES_PUNCT[:n]
    pool = NAMES[:n]
    return pool if case["naming"] == 0 else pool[::-1]


def _declaration(case):
    names = _names(case)
    decl = []
    for i in range(case["n"]):
        s = ("!" if case["internal"][i] else "") + names[i]
        if case["parents"][i]:
            s += ":" + ",".join(names[p] for p in case["parents"][i])
        decl.append((s, "help of " + names[i]))
    return decl


def _parents_iteration_features(case):
    """Order in which the implementation's ``{pp for p in parents.split(',') ...}`` set will be iterated.

    The same strings inserted in the same order into a set in this very process iterate identically
    (str hashes are per-process), so this is measured, not assumed.
    """
    names = _names(case)
    feats = set()
    for ps in case["parents"]:
        if len(ps) >= 2:
            listed = [names[p] for p in ps]
            it = list({pp for p in ",".join(listed).split(',') if (pp := p.strip())})
            feats.add("parents-iterated:declared-order" if it == listed else "parents-iterated:other-order")
    return feats


def _parse(parser, argv):
    try:
        ns = parser.parse_args(list(argv))
    except SystemExit as e:
        return ("exit", e.code, None)
    except Exception as e:  # noqa
        return ("raise", type(e).__name__, None)
    return ("ok", None, ns)


def _letter(name):
    return LETTERS[name]


def _dest(prefix, name):
    # argparse's own rule for deriving a dest from "--<name>-opt" / "--<name>-flag"
    return name.replace("-", "_") + "_" + prefix.rstrip("_")


def _o(name):
    """Option strings are "--<name>-<kind>": no option is a prefix (= accepted abbreviation) of another one,
    also for the names list / list-all."""
    return "--" + name + "-opt"


def _f(name):
    return "--" + name + "-flag"


def _construct(mod, case, acc, feats, bad):
    """ArgParser for the declaration + one value option and one flag (with a short alias) per parser + one
    ArgParser-level option.  -> parser or None."""
    n = case["n"]
    names = _names(case)
    shared = "shape:shared-ancestor" in feats
    kwargs = {}
    if _dflt(case) is not None:
        kwargs["default_command"] = names[_dflt(case)]
    acc.trans()
    try:
        ap = mod.ArgParser(_declaration(case), **kwargs)
    except BaseException as e:  # noqa  (AssertionError, SystemExit, ...)
        bad("construction-fails-" + ("shared-ancestor" if shared else "plain"),
            f"ArgParser(commands=...) raised {type(e).__name__} for an acyclic declaration",
            {"raised": type(e).__name__, "text": str(e)[:200], "declaration": [d[0] for d in _declaration(case)]},
            "construction succeeds")
        return None
    order = list(range(n)) if case["order"] == "fwd" else list(range(n - 1, -1, -1))
    try:
        if case["order"] == "rev":
            acc.trans()
            ap.add_argument("--common", help="for every command")
        for i in order:
            acc.trans(2)
            cp = ap.get_cmd_parser(names[i])
            cp.add_argument(_o(names[i]), help="option of " + names[i])
            cp.add_argument(_letter(names[i]), _f(names[i]), action="store_true",
                            help="flag of " + names[i])
            # a second option writing to the same dest as each of the two: store_true / store_false pair and
            # value / const pair
            acc.trans(2)
            cp.add_argument("--no-" + names[i] + "-flag", action="store_false", dest=_dest("flag_", names[i]),
                            help="opposite of " + _f(names[i]))
            cp.add_argument("--default-" + names[i] + "-opt", action="store_const", const="dflt",
                            dest=_dest("opt_", names[i]), help=_o(names[i]) + " dflt")
        if case["order"] == "fwd":
            acc.trans()
            ap.add_argument("--common", help="for every command")
        acc.trans()
        ap.add_argument("words", nargs="*", help="positional words, for every command")
    except BaseException as e:  # noqa
        bad("add-option-fails-" + ("shared-ancestor" if shared else "plain"),
            f"adding the options raised {type(e).__name__}",
            {"raised": type(e).__name__, "text": str(e)[:200]}, "options can be added")
        return None
    return ap


def _probe_all(ap, case, acc, feats, bad, tag=""):
    """Every argv of the family against one constructed parser. -> (accepted, rejected)"""
    n = case["n"]
    parents, internal = case["parents"], [bool(x) for x in case["internal"]]
    names = _names(case)
    anc = M.ancestors(parents)
    paths = M.path_counts(parents)
    dflt = M.default_command(internal, _dflt(case))
    real = [i for i in range(n) if not internal[i]]
    counts = [0, 0]
    nbad = [0]
    report_bad = bad

    def bad(sig, msg, obs, exp):          # noqa: F811  (counts the reports of this parser)
        nbad[0] += 1
        report_bad(sig, msg, obs, exp)

    def probe(argv, want_cmd, want_attrs, want_ok, kind, sig_ok, sig_rej):
        acc.trans()
        st, code, ns = _parse(ap, argv)
        feats.add(kind)
        if st == "raise":
            bad("parse-raises" + tag, f"parse_args({argv}) raised {code}", code, "namespace or SystemExit")
            return
        got_ok = st == "ok"
        counts[0 if got_ok else 1] += 1
        if want_ok and not got_ok:
            bad(sig_rej + tag, f"parse_args({argv}) was rejected", f"SystemExit({code})", "accepted")
        elif not want_ok and got_ok:
            bad(sig_ok + tag, f"parse_args({argv}) was accepted", {k: v for k, v in sorted(vars(ns).items())},
                "rejected")
        elif got_ok:
            if getattr(ns, "command", None) != names[want_cmd]:
                bad(("wrong-command" if kind != "probe:no-command" else "default-command-wrong") + tag,
                    f"parse_args({argv}) selected another command", getattr(ns, "command", None), names[want_cmd])
                return
            for attr, val in want_attrs:
                if getattr(ns, attr, "<absent>") != val or type(getattr(ns, attr, None)) is not type(val):
                    bad("option-value-lost" + tag, f"parse_args({argv}): value of {attr} not stored",
                        getattr(ns, attr, "<absent>"), val)
                    return

    def forms(p):
        nm = names[p]
        return [([_o(nm), "val"], [(_dest("opt_", nm), "val")], ""),
                ([_f(nm)], [(_dest("flag_", nm), True)], ":flag"),
                ([_letter(nm)], [(_dest("flag_", nm), True)], ":short"),
                (["--no-" + nm + "-flag"], [(_dest("flag_", nm), False)], ":second-option-same-dest"),
                (["--default-" + nm + "-opt"], [(_dest("opt_", nm), "dflt")], ":second-option-same-dest")]

    for c in real:
        cmd_before = nbad[0]
        probe([names[c]], c, [], True, "probe:bare-command", "-", "bare-command-rejected")
        everything, attrs = [names[c]], []
        for p in range(n):
            want = p == c or p in anc[c]
            if p == c:
                kind, rej = "probe:own-option", "own-option-rejected"
            elif p in parents[c]:
                kind = "probe:inherited-direct"
                rej = "inherited-option-rejected-" + ("shared-ancestor" if paths[c][p] >= 2 else "direct")
            elif want:
                kind = "probe:inherited-transitive"
                rej = "inherited-option-rejected-" + ("shared-ancestor" if paths[c][p] >= 2 else "transitive")
            else:
                kind, rej = "probe:foreign-option", "-"
            before = nbad[0]
            for argv, want_attrs, suffix in forms(p):
                if nbad[0] == before:         # the other spellings only while the first one behaves
                    probe([names[c]] + argv, c, want_attrs, want, kind, "foreign-option-accepted" + suffix,
                          rej + suffix)
            if want:
                everything += [_o(names[p]), "v" + str(p), _letter(names[p])]
                attrs += [(_dest("opt_", names[p]), "v" + str(p)), (_dest("flag_", names[p]), True)]
        if nbad[0] == cmd_before:
            probe(everything + ["--common", "cv", "-vv"], c, attrs + [("common", "cv"), ("verbose", 2)], True,
                  "probe:all-inherited-at-once", "-", "combined-options-rejected")
        probe([names[c], "--common", "val"], c, [("common", "val")], True, "probe:common-option",
              "-", "common-option-rejected")
        probe([names[c], "-v"], c, [("verbose", 1)], True, "probe:std-option", "-", "std-option-rejected")
        probe([names[c], "--color", "never"], c, [("color", "never")], True, "probe:std-option",
              "-", "std-option-rejected")
        probe([names[c], "--no-color"], c, [], True, "probe:std-option", "-", "std-option-rejected")
    # argv that does not start with a command name -> the default command
    probe([], dflt, [], True, "probe:no-command", "-", "default-command-rejected")
    probe(["-v"], dflt, [("verbose", 1)], True, "probe:no-command", "-", "default-command-rejected")
    probe(["--common", "val"], dflt, [("common", "val")], True, "probe:no-command", "-",
          "default-command-rejected")
    for p in range(n):
        want = p == dflt or p in anc[dflt]
        for argv, want_attrs, suffix in forms(p)[:2]:
            if nbad[0]:
                break                         # an earlier report of this parser already explains it
            probe(argv, dflt, want_attrs, want, "probe:no-command",
                  "default-command-foreign-option-accepted", "default-command-option-rejected")
    # a LATER word that equals a command name or the name of an internal option set (as the value of an option
    # or as a positional word) does not make the argv start with a command name
    for k in range(n):
        if nbad[0]:
            break
        probe(["--common", names[k]], dflt, [("common", names[k])], True, "probe:no-command-later-name", "-",
              "default-command-later-word-is-a-name")
        probe([_o(names[dflt]), names[k], "-v"], dflt,
              [(_dest("opt_", names[dflt]), names[k]), ("verbose", 1)],
              True, "probe:no-command-later-name", "-", "default-command-later-word-is-a-name")
        probe(["x", names[k]], dflt, [("words", ["x", names[k]])], True, "probe:no-command-later-name", "-",
              "default-command-later-word-is-a-name")
        probe(["-v", "x", names[k], "--common", names[(k + 1) % n]], dflt,
              [("words", ["x", names[k]]), ("common", names[(k + 1) % n])], True, "probe:no-command-later-name",
              "-", "default-command-later-word-is-a-name")
    # the end-of-options marker as first word is not a command name either
    if not nbad[0]:
        for tail in ([], ["a.txt"], ["-odd"], [names[n - 1]], [_o(names[dflt])]):
            probe(["--"] + tail, dflt, [], True, "probe:no-command-end-of-options-marker", "-",
                  "default-command-end-of-options-marker")
    # first word names an internal option set: outside the property, counted only
    for i in range(n):
        if internal[i]:
            acc.trans()
            st, code, ns = _parse(ap, [names[i]])
            feats.add("domain:argv-starts-with-internal-name")
            acc.feat("outside-domain:internal-name-" + st)
    return counts


def _case_features(case):
    parents, internal = case["parents"], [bool(x) for x in case["internal"]]
    feats = set(M.shape_features(parents, internal)) | _parents_iteration_features(case)
    feats.add("default:explicit" if _dflt(case) is not None else "default:implicit")
    names = _names(case)
    if any(("-" in names[p] or "." in names[p]) for ps in parents for p in ps):
        feats.add("names:punctuated-name-as-parent")
    feats.add("options:two-options-one-dest")
    # the probes this declaration calls for (from the model, so that the vacuity guard describes the explored
    # space and not the behaviour of the implementation)
    anc = M.ancestors(parents)
    for c in range(case["n"]):
        if internal[c]:
            continue
        feats |= {"probe:own-option", "probe:common-option", "probe:std-option", "probe:no-command",
                  "probe:all-inherited-at-once", "probe:bare-command", "probe:no-command-later-name",
                  "probe:no-command-end-of-options-marker"}
        for p in range(case["n"]):
            if p == c:
                continue
            if p in parents[c]:
                feats.add("probe:inherited-direct")
            elif p in anc[c]:
                feats.add("probe:inherited-transitive")
            else:
                feats.add("probe:foreign-option")
    return feats


def _finish(case, acc, feats, viol, counts, report):
    has_edge = any(c["parents"] and any(c["parents"]) for c in case.get("seq", [case]))
    nontrivial = has_edge and "probe:foreign-option" in feats and \
        ("probe:inherited-direct" in feats or "probe:inherited-transitive" in feats)
    if viol:
        outcome = "violation:" + "+".join(sorted({v[0] for v in viol}))
    else:
        outcome = f"ok:accepted={counts[0]}:rejected={counts[1]}"
    if report:
        acc.case(nontrivial=nontrivial, features=sorted(feats), outcome=outcome)
        if nontrivial and "shape:shared-ancestor" in feats and "seq" not in case and acc.evaluations % 37 == 0:
            acc.sample({"declaration": [d[0] for d in _declaration(case)], "default": case["default"],
                        "naming": case["naming"], "option_order": case["order"], "hashseed": case["hashseed"],
                        "outcome": outcome})
    seen = set()
    for sig, msg, obs, exp in viol:
        if sig in seen:
            continue                       # one report per signature and case (the smallest argv comes first)
        seen.add(sig)
        acc.violation("C19:" + sig, case, msg, obs, exp)
    return outcome


def explore_case(case, acc, report=True):
    """Build one declaration with the real ArgParser, probe every argv. Returns an outcome label."""
    if "seq" in case:
        return explore_seq(case, acc, report)
    import ak.cli_tools as mod
    feats = _case_features(case)
    viol = []

    def bad(sig, msg, obs, exp):
        viol.append((sig, msg, obs, exp))

    counts = [0, 0]
    with _Quiet():
        ap = _construct(mod, case, acc, feats, bad)
        if ap is not None:
            counts = _probe_all(ap, case, acc, feats, bad)
    return _finish(case, acc, feats, viol, counts, report)


def explore_seq(case, acc, report=True):
    """Two parsers built one after the other in a pristine module (ak.cli_tools reloaded): the first one is
    probed, the second is built and probed, the first is probed again.  A parser must not be influenced by
    another parser object (same command names on purpose)."""
    import importlib
    import ak.cli_tools
    mod = importlib.reload(ak.cli_tools)
    first, second = case["seq"]
    feats = _case_features(first) | _case_features(second) | {"seq:two-parsers"}
    viol = []

    def bad(sig, msg, obs, exp):
        viol.append((sig, msg, obs, exp))

    def bad2(sig, msg, obs, exp):
        viol.append(("second-parser:" + sig, msg, obs, exp))

    def bad3(sig, msg, obs, exp):
        viol.append(("first-parser-after-second:" + sig, msg, obs, exp))

    counts = [0, 0]
    with _Quiet():
        ap1 = _construct(mod, first, acc, feats, bad)
        if ap1 is not None:
            _probe_all(ap1, first, acc, feats, bad)
        if not viol:
            ap2 = _construct(mod, second, acc, feats, bad2)
            if ap2 is not None:
                counts = _probe_all(ap2, second, acc, feats, bad2)
            if ap1 is not None and not viol:
                _probe_all(ap1, first, acc, feats, bad3)
    if viol:
        # a declaration that misbehaves also when it is the only parser of a pristine module is reported by the
        # single-declaration family; here only influence between parsers counts
        from mc import core
        for single in (first, second):
            mod = importlib.reload(ak.cli_tools)
            v1 = []
            with _Quiet():
                ap = _construct(mod, single, core.Acc(), set(), lambda *a: v1.append(a))
                if ap is not None:
                    _probe_all(ap, single, core.Acc(), set(), lambda *a: v1.append(a))
            if v1:
                viol = []
                feats.add("seq:fails-already-alone")
                break
    return _finish(case, acc, feats, viol, counts, report)


def _seq_configs():
    out = []
    for n in (1, 2, 3):
        for parents in _graphs(n):
            for internal in M.internal_choices(n):
                out.append((n, parents, [int(x) for x in internal]))
    return out


def _explore_seq_block(hs, k, step, acc, tier="thorough"):
    cfgs = _seq_configs()
    for i in range(k, len(cfgs), step):
        for j in range(len(cfgs)):
            if acc.expired():
                return
            if tier == "quick" and cfgs[i][0] > 2 and cfgs[j][0] > 2:
                continue          # quick: at least one of the two declarations has <= 2 commands
            seq = []
            for (n, parents, internal), naming in ((cfgs[i], 0), (cfgs[j], 0)):
                seq.append({"n": n, "parents": parents, "internal": internal, "naming": naming, "default": "-",
                            "order": "fwd", "hashseed": hs})
            explore_case({"seq": seq, "hashseed": hs}, acc)


def _explore_block(hs, n, lo, hi, acc):
    graphs = _graphs(n)[lo:hi]
    for parents in graphs:
        for internal in M.internal_choices(n):
            real = [i for i in range(n) if not internal[i]]
            # n == 5 under the additional hash seeds: one name assignment (the seed itself varies the set order)
            for naming in ((0, 1, 2) if (n <= 4 or hs == THOROUGH_SEEDS[0]) else (0,)):
                # n == 5 (thorough only): the default-command and option-order decorations were
                # already multiplied with every graph of <= 4 commands; keep the plain ones
                for dflt in (("-", str(real[-1])) if n <= 4 else ("-",)):
                    for order in (("fwd", "rev") if n <= 4 else ("fwd",)):
                        if acc.expired():
                            return
                        case = {"n": n, "parents": parents, "internal": [int(x) for x in internal], "naming": naming,
                                "default": dflt, "order": order, "hashseed": hs}
                        explore_case(case, acc)


def _in_subprocess(payload):
    env = dict(os.environ)
    env["PYTHONHASHSEED"] = str(payload["hashseed"])
    env["PYTHONDONTWRITEBYTECODE"] = "1"
    r = subprocess.run([sys.executable, "-B", os.path.abspath(__file__), "--child"],
                       input=json.dumps(payload), capture_output=True, text=True, env=env)
    if r.returncode != 0:
        raise RuntimeError(f"C19 child (hash seed {payload['hashseed']}) failed: {r.stderr[-2000:]}")
    return json.loads(r.stdout)


def run_shard(shard, tier, seed, acc):
    hs, n, lo, hi = shard
    hs = str(hs)
    if hs == _own_hashseed():
        if n == "seq":
            _explore_seq_block(hs, lo, hi, acc, tier)
        else:
            _explore_block(hs, n, lo, hi, acc)
        acc.feat("hashseed:" + hs)
        return
    d = _in_subprocess({"mode": "block", "hashseed": hs, "n": n, "lo": lo, "hi": hi, "seed": seed,
                        "deadline": acc.deadline, "tier": tier})
    acc.merge(d)
    acc.feat("hashseed:" + hs)


def replay(case, acc):
    hs = str(case.get("hashseed", _own_hashseed()))
    if hs == _own_hashseed() or hs == "random":
        explore_case(case, acc)
        return
    d = _in_subprocess({"mode": "case", "hashseed": hs, "case": case, "seed": 0, "deadline": None})
    acc.merge(d)


def required_features(tier):
    feats = list(REQUIRED_FEATURES)
    if tier == "thorough":
        feats += ["hashseed:" + s for s in THOROUGH_SEEDS]
    return feats


def selftest():
    M.selftest()
    # the tree of tests/test_cli_tools.py::test_multicmd_tree_structure goes through the harness silently
    from mc import core
    acc = core.Acc()
    case = {"n": 5, "parents": [[], [], [0, 1], [2], [0]], "internal": [0, 1, 0, 0, 0],
            "naming": 0, "default": "-", "order": "fwd", "hashseed": _own_hashseed()}
    out = explore_case(case, acc)
    assert out.startswith("ok:"), out


def _child_main():
    from mc import core
    core.bind_repo()
    # this file is executed as __main__; use the importable module so that models resolve identically
    import checks.c19_cli_options as me
    payload = json.loads(sys.stdin.read())
    assert me._own_hashseed() == str(payload["hashseed"]), (me._own_hashseed(), payload["hashseed"])
    acc = core.Acc(seed=payload.get("seed", 0), deadline=payload.get("deadline"))
    if payload["mode"] == "block" and payload["n"] == "seq":
        me._explore_seq_block(str(payload["hashseed"]), payload["lo"], payload["hi"], acc,
                              payload.get("tier", "thorough"))
    elif payload["mode"] == "block":
        me._explore_block(str(payload["hashseed"]), payload["n"], payload["lo"], payload["hi"], acc)
    else:
        me.explore_case(payload["case"], acc)
    sys.stdout.write(json.dumps(acc.export(), default=repr))


if __name__ == "__main__" and "--child" in sys.argv:
    _child_main()
