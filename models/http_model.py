"""Reference model of layered HTTP connections (property C17, DESIGN.md §2 C17).

Written from the property statement, not from ``ak/conn_http.py``; knows nothing about ``ak``.

Vocabulary
----------
layer (JSON list) — what one adapter contributes:
    ["prefix", "/p1"]                  path prefix
    ["basic", login, password]         Authorization: Basic b64(login:password)
    ["client", name, cid, secret]      Authorization: Basic b64(cid:secret)
    ["token", tok]                     Authorization: Bearer tok
    ["resp", tag]                      response post-processor  v -> ["resp", tag, v]
    ["const", value]                   response post-processor whose legitimate output is ``value`` (None, 0,
                                       [], "" ...) whatever it is given — e.g. one that unwraps {"result": null}
    ["hdr", name, value]               adds one fixed header (order independent)

Family — the connections and method callers derived so far from one root:
    conn node   : own layers, parent node, layers added later with add_adapter
    caller node : the conn node it sends through (+ the class-level component->prefix map)

``chain(node)`` lists the layers seen by a request *from the called connection inwards* (own layers
first, then the parent's …).  The statement then fixes everything that is compared:

* path: every prefix of the chain is put in front of the path, the called connection's first, inner
  connections' afterwards — so **prefixes of inner connections end up outermost**;
* url = address + path (+ "?" + url-encoded params).  At a joint (address|path, prefix|path) two
  readings exist — literal concatenation and joining with a single slash — and the implementation mixes
  them; both are accepted, nothing else: where the two sides bring k >= 1 slashes together, between 1 and
  k slashes must appear; where they bring none, address|path gets exactly one, prefix|path none
  (``joint``/``url_candidates``).  The path and the prefixes are taken exactly as given (percent signs,
  "?", "#", blanks, non-ASCII: url-encoding applies to the params only).  The query is compared as
  decoded pairs per name;
* exactly one Authorization header iff the chain has an authenticating layer, decoding to its credentials;
* body by type: None -> no body, bytes unchanged, str -> utf-8, anything else -> JSON text in utf-8
  (compared after decoding); Content-Type of a JSON body, when the caller gave none, must name json;
* caller headers arrive unchanged; no header appears that nobody asked for (X-Request-ID and
  Content-Type excepted — the former belongs to property C16);
* the method is the verb of the entry point used;
* response processors run in reverse order: innermost layer first, called connection's last — each
  exactly once, **whatever the response is**.  What they are applied to (``expected_leaf``): the raw
  response object when the caller asked for it; otherwise the decoded JSON value of the body, or the empty
  string for an empty body (documented in ``get``); for a non-empty body that is not JSON the result is not
  defined by the statement (the JSON decoder's exception is expected; not judged).
"""

import base64
import json
from urllib.parse import parse_qsl, urlsplit

AUTH_KINDS = ("basic", "client", "token")


# ----------------------------------------------------------------------------------------- family
class Family:
    def __init__(self, address, send_ids=True, prefix_map=None):
        """address: the *effective* address string of the root connection."""
        self.address = address
        self.send_ids = send_ids
        self.prefix_map = dict(prefix_map or {})
        self.nodes = [{"kind": "conn", "own": [], "parent": None, "added": [], "children": 0, "made_by": "root"}]

    # -- derivations ------------------------------------------------------------------------
    def wrap(self, target, layers, made_by):
        assert self.nodes[target]["kind"] == "conn"
        self.nodes[target]["children"] += 1
        self.nodes.append({"kind": "conn", "own": [list(x) for x in layers], "parent": target, "added": [],
                           "children": 0, "made_by": made_by})
        return len(self.nodes) - 1

    def add(self, target, layer):
        n = self.nodes[target]
        assert n["kind"] == "conn" and n["children"] == 0 and layer[0] in ("hdr",) + AUTH_KINDS
        n["added"].append(list(layer))

    def caller(self, target, made_by="caller"):
        assert self.nodes[target]["kind"] == "conn"
        self.nodes[target]["children"] += 1       # it derives prefixed connections lazily
        self.nodes.append({"kind": "caller", "conn": target, "made_by": made_by})
        return len(self.nodes) - 1

    def clone(self, target, layers, made_by):
        k = self.nodes[target]
        assert k["kind"] == "caller"
        c = self.wrap(k["conn"], layers, made_by)
        return self.caller(c, made_by)

    # -- queries ----------------------------------------------------------------------------
    def chain(self, node, component=None):
        """Layers from the called connection inwards; for a caller's wrapper method with a component
        the component's prefix is the outermost (called) layer."""
        n = self.nodes[node]
        out = []
        if n["kind"] == "caller":
            if component is not None:
                p = self.prefix_map[component]
                if p:
                    out.append(["prefix", p])
            node = n["conn"]
        return out + self._conn_chain(node)

    def _conn_chain(self, node):
        n = self.nodes[node]
        inner = self._conn_chain(n["parent"]) if n["parent"] is not None else []
        return [list(x) for x in n["own"]] + inner + [list(x) for x in n["added"]]

    def has_auth(self, node):
        return any(l[0] in AUTH_KINDS for l in self.chain(node))

    def contributors(self, node, component=None):
        """How many distinct connections contribute a layer to the chain (composition depth)."""
        n = self.nodes[node]
        cnt = 1 if (n["kind"] == "caller" and component and self.prefix_map.get(component)) else 0
        node = n["conn"] if n["kind"] == "caller" else node
        while node is not None:
            m = self.nodes[node]
            if m["own"] or m["added"]:
                cnt += 1
            node = m["parent"]
        return cnt


# ----------------------------------------------------------------------------------------- requests
def join_prefix(prefix, path):
    return prefix + path


def norm_path(p):
    """Leading slash guaranteed, runs of slashes collapsed (the statement does not fix joints)."""
    p = "/" + p
    while "//" in p:
        p = p.replace("//", "/")
    return p


def _lead(s):
    return len(s) - len(s.lstrip("/"))


def _trail(s):
    return len(s) - len(s.rstrip("/"))


def joint(left, right, when_none):
    """All admissible spellings of ``left`` joined with ``right`` (see the module docstring)."""
    k = _trail(left) + _lead(right)
    counts = [when_none] if k == 0 else range(1, k + 1)
    return {left.rstrip("/") + "/" * j + right.lstrip("/") for j in counts}


def url_candidates(address, chain, path):
    """Admissible urls (without query) of a request for ``path`` through ``chain`` to ``address``."""
    paths = {path}
    for layer in chain:                      # called connection first ... innermost last => outermost
        if layer[0] == "prefix":
            paths = {c for p in paths for c in joint(layer[1], p, 0)}
    return {u for p in paths for u in joint(address, p, 1)}


def expected_path(chain, path):
    for layer in chain:                      # called connection first ... innermost last => outermost
        if layer[0] == "prefix":
            path = join_prefix(layer[1], path)
    return path


def expected_pairs(params):
    """params: None, a mapping, or a sequence of (name, value) pairs (the only way to repeat a name)."""
    if not params:
        return []
    items = params.items() if isinstance(params, dict) else params
    return [(str(k), str(v)) for k, v in items]


def group_pairs(pairs):
    """{name: [values in the order given]} — the order among different names carries no meaning, the order
    of the values of one name does."""
    out = {}
    for k, v in pairs:
        out.setdefault(k, []).append(v)
    return out


def expected_auth(chain):
    """-> None (no Authorization header) or ("Basic", "login:password") / ("Bearer", token)."""
    auths = [l for l in chain if l[0] in AUTH_KINDS]
    assert len(auths) <= 1, "outside the domain: two authenticating layers"
    if not auths:
        return None
    a = auths[0]
    if a[0] == "basic":
        return ("Basic", f"{a[1]}:{a[2]}")
    if a[0] == "client":
        return ("Basic", f"{a[2]}:{a[3]}")
    return ("Bearer", a[1])


def decode_auth(value):
    """Observed Authorization value (str or bytes) -> (scheme, decoded credentials) or None."""
    if isinstance(value, bytes):
        try:
            value = value.decode("ascii")
        except UnicodeDecodeError:
            return None
    if not isinstance(value, str) or " " not in value:
        return None
    scheme, rest = value.split(" ", 1)
    if scheme == "Basic":
        try:
            return ("Basic", base64.b64decode(rest.encode("ascii"), validate=True).decode("utf-8"))
        except Exception:  # noqa
            return None
    return (scheme, rest)


RAW = "<raw-response>"


def expected_leaf(body_text, raw):
    """-> (defined?, value the response processors start from)."""
    if raw:
        return True, RAW
    if body_text == "":
        return True, ""
    try:
        return True, json.loads(body_text)
    except ValueError:
        return False, None


def expected_response(chain, value):
    for layer in reversed(chain):            # innermost first, called connection's processors last
        if layer[0] == "resp":
            value = ["resp", layer[1], value]
        elif layer[0] == "const":
            value = json.loads(json.dumps(layer[1]))
    return value


def compare_request(family, chain, verb, path, params, data, headers, obs):
    """obs = {"url": str, "method": str, "headers": {lower-name: value}, "body": bytes|None}
    -> list of (mismatch class, text, observed, expected); empty list = as the statement demands."""
    out = []
    addr = family.address.rstrip("/")
    url = obs["url"]
    # ---- url ---------------------------------------------------------------------------------
    if not url.startswith(addr):
        out.append(("url", "request does not go to the connection's address", url, addr + "..."))
    else:
        rest = url[len(addr):]
        # url-encoding applies to the params only: the path is taken as given, "?" and "#" included, so the
        # query is what follows the LAST "?" — and only if params were given
        upart, query = (url.rpartition("?")[0], url.rpartition("?")[2]) if (params and "?" in url) else (url, "")
        cands = url_candidates(family.address, chain, path)
        if upart not in cands:
            glued = not rest.startswith("/")
            out.append(("url", "address and path are glued together without a slash" if glued else
                        "url is neither address + path (with prefixes) nor their single-slash joining",
                        upart, sorted(cands)[:4]))
        got_pairs = parse_qsl(query, keep_blank_values=True, strict_parsing=False) if query else []
        if group_pairs(got_pairs) != group_pairs(expected_pairs(params)):
            out.append(("query", "url-encoded params differ (every pair must arrive, values of one name in order)",
                        got_pairs, expected_pairs(params)))
    # ---- method ------------------------------------------------------------------------------
    if obs["method"] != verb.upper():
        out.append(("method", "method differs from the entry point used", obs["method"], verb.upper()))
    # ---- body --------------------------------------------------------------------------------
    body = obs["body"]
    structured = False
    if data is None:
        if body is not None:
            out.append(("body", "body sent although none was given", repr(body), None))
    elif isinstance(data, bytes):
        if body != data:
            out.append(("body", "bytes body changed", repr(body), repr(data)))
    elif isinstance(data, str):
        if body != data.encode("utf-8"):
            out.append(("body", "str body is not its utf-8 encoding", repr(body), repr(data.encode("utf-8"))))
    else:
        structured = True
        try:
            ok = isinstance(body, bytes) and json.loads(body.decode("utf-8")) == data
        except Exception:  # noqa
            ok = False
        if not ok:
            out.append(("body", "structured body is not its JSON text", repr(body), json.dumps(data)))
    # ---- headers -----------------------------------------------------------------------------
    got = dict(obs["headers"])
    caller = {k.lower(): v for k, v in (headers or {}).items()}
    allowed = set(caller) | {"x-request-id", "content-type"}
    for k, v in caller.items():
        if k not in got:
            out.append(("caller-header", f"caller header {k} not sent", None, v))
        elif got[k] != v:
            out.append(("caller-header", f"caller header {k} changed", got[k], v))
    for layer in chain:
        if layer[0] == "hdr":
            allowed.add(layer[1].lower())
            if got.get(layer[1].lower()) != layer[2]:
                out.append(("adapter-header", f"header of adapter {layer[1]} missing or changed",
                            got.get(layer[1].lower()), layer[2]))
    want_auth = expected_auth(chain)
    if want_auth is not None:
        allowed.add("authorization")
        if "authorization" not in got:
            out.append(("auth", "no Authorization header although the chain authenticates", None, list(want_auth)))
        else:
            dec = decode_auth(got["authorization"])
            if dec != want_auth:
                out.append(("auth", "Authorization does not decode to the configured credentials",
                            [repr(got["authorization"]), dec], list(want_auth)))
    elif "authorization" in got and "authorization" not in caller:
        out.append(("auth", "Authorization header although no layer authenticates",
                    repr(got["authorization"]), None))
    extra = sorted(k for k in got if k not in allowed)
    if extra:
        out.append(("unexpected-header", "headers nobody asked for", extra, sorted(allowed)))
    if structured and "content-type" not in caller and "content-type" in got \
            and "json" not in str(got["content-type"]).lower():
        out.append(("content-type", "JSON body announced with another content type", got["content-type"],
                    "application/json"))
    return out


# ----------------------------------------------------------------------------------------- self test
def selftest():
    """Expectations spelled out in tests/test_mcaller_http.py and in the docstrings of conn_http."""
    f = Family("http://dummy.com:8080", prefix_map={"componentA": "/cmpA/prefix"})
    k = f.caller(0)
    # test_http_mcaller_components: call_v3 -> dummy.com:8080/cmpA/prefix/my/test/another_path
    ch = f.chain(k, "componentA")
    assert norm_path(expected_path(ch, "/my/test/another_path")) == "/cmpA/prefix/my/test/another_path"
    # cloned caller with BAuthConn.Adapter('my_name', 'std_password')
    k2 = f.clone(k, [["basic", "my_name", "std_password"]], "clone-single")
    hdr = b"Basic " + base64.b64encode(b"my_name:std_password")
    assert decode_auth(hdr) == expected_auth(f.chain(k2)) == ("Basic", "my_name:std_password")
    assert expected_auth(f.chain(k)) is None, "the original is not altered by the clone"
    obs = {"url": "http://dummy.com:8080/my/test/path?param=25", "method": "POST",
           "headers": {"authorization": hdr, "content-type": "application/json", "x-request-id": "x"},
           "body": b'{"arg": 42}'}
    assert compare_request(f, f.chain(k2), "post", "/my/test/path", {"param": 25}, {"arg": 42}, None, obs) == []
    bad = dict(obs, url="http://dummy.com:8080/cmpA/prefix/my/test/path?param=25")
    assert [m[0] for m in compare_request(f, f.chain(k2), "post", "/my/test/path", {"param": 25},
                                          {"arg": 42}, None, bad)] == ["url"]
    # inner prefixes outermost; response processors innermost first
    g = Family("http://h")
    a = g.wrap(0, [["prefix", "/in"], ["resp", "in"]], "wrap-list")
    b = g.wrap(a, [["prefix", "/out"], ["resp", "out"]], "wrap-list")
    assert expected_path(g.chain(b), "/x") == "/in/out/x"
    assert url_candidates("http://h", g.chain(b), "/x") == {"http://h/in/out/x"}
    assert url_candidates("http://h/", [], "r/s") == {"http://h/r/s"}           # never http://h//r/s
    assert url_candidates("http://h/", [], "/r") == {"http://h/r", "http://h//r"}
    assert url_candidates("http://h", [["prefix", "v1/"]], "/r") == {"http://h/v1/r", "http://h/v1//r"}
    assert url_candidates("http://h", [["prefix", "/p"]], "r") == {"http://h/pr"} and \
        url_candidates("http://h", [], "") == {"http://h/"}
    assert expected_response(g.chain(b), 1) == ["resp", "out", ["resp", "in", 1]]
    assert group_pairs(expected_pairs([("tag", "red"), ("tag", "blue"), ("limit", 5)])) == \
        {"tag": ["red", "blue"], "limit": ["5"]} != group_pairs(expected_pairs({"tag": "blue", "limit": 5}))
    assert expected_leaf("", False) == (True, "") and expected_leaf("null", False) == (True, None)
    assert expected_leaf("oops", False)[0] is False and expected_leaf("oops", True) == (True, RAW)
    assert expected_response(g.chain(b), "") == ["resp", "out", ["resp", "in", ""]]
