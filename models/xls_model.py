"""Reference reader for C18 (ak.xlsread) over a raw grid, plus a duck-typed fake worksheet.

Written from the documentation of ak.xlsread and the property statement:

  * leading blank rows are skipped; the first non-blank row holds the column titles (stripped text);
  * an attribute bound to title T is read from the column titled T; an optional attribute whose column is
    absent gets its default (origin "<skipped column>"); an external attribute gets its default
    (origin "<n/a>"); a ranged attribute ('*') collects the first contiguous run of titled columns that
    no rule of the table names (origin: per key the cell, as a whole "first:last" in sheet order,
    a single coordinate for one cell, "<skipped column>" for none);
  * data rows follow until the end rule fires: "blank all" = a row with only blank cells,
    "blank first" = a row whose first cell is blank;  blank = None or whitespace-only text;
  * a row whose key cells are all empty gives None instead of an object;
  * ladder format: in every data row but the first, the run of blank cells starting at the first titled
    column stands for "same as above" (the row above after its own substitution); values and origins
    are those of the cells that hold the values.

Rule sets are JSON-able:
  {"objects": [{"num_id": 1, "attrs": [{"name":..., "kind": "plain", "title":..., "type": "int"[, "default": v]},
                                      {"name":..., "kind": "external", "default": v, "spelling": "none"|"tuple"},
                                      {"name":..., "kind": "range", "type": "dict:int"|"set:bool"[, "default": None]}]}]}
"""


class OutsideDomain(Exception):
    """The (sheet, rules) pair is outside the property's quantifier (e.g. text in an int column)."""


# ------------------------------------------------------------------------------------- coordinates
def col_letters(idx):
    """0 -> A, 25 -> Z, 26 -> AA (bijective base 26)."""
    n = idx + 1
    s = ""
    while n > 0:
        n, r = divmod(n - 1, 26)
        s = chr(65 + r) + s
    return s


def coord(row, col):
    return f"{col_letters(col)}{row + 1}"


def split_coord(c):
    i = 0
    while i < len(c) and c[i].isalpha():
        i += 1
    letters, digits = c[:i], c[i:]
    n = 0
    for ch in letters:
        n = n * 26 + (ord(ch) - 64)
    return int(digits) - 1, n - 1


# ------------------------------------------------------------------------------------- fake worksheet
class FakeCell:
    __slots__ = ("parent", "coordinate", "value")

    def __init__(self, parent, coordinate, value):
        self.parent, self.coordinate, self.value = parent, coordinate, value

    def __repr__(self):
        return f"<Cell '{self.parent.title}'.{self.coordinate}>"


class FakeSheet:
    """What ak.xlsread uses of an openpyxl worksheet: .title and .iter_rows() -> tuples of cells
    (.value, .coordinate, .parent), rows starting at column A."""

    def __init__(self, title, grid):
        self.title = title
        self.rows = [tuple(FakeCell(self, coord(r, c), v) for c, v in enumerate(row))
                     for r, row in enumerate(grid)]

    def iter_rows(self):
        for row in self.rows:
            yield row


# ------------------------------------------------------------------------------------- converters
BOOL_TRUE = ["v", 1, "1", True, "True"]
BOOL_FALSE = [None, "", False, "False"]


def _split_list(v):
    return [x for x in (p.strip() for p in v.replace("\n", ",").split(",")) if x]


def convert(typ, v):
    if typ == "int":
        if v is None:
            return None
        if isinstance(v, int) and not isinstance(v, bool):
            return v
        raise OutsideDomain("non-integer in an int column")
    if typ == "str":
        return None if v is None else str(v).strip()
    if typ == "bool":
        if any(v is x or (v == x and type(v) is type(x)) for x in BOOL_TRUE):
            return True
        if any(v is x or (v == x and type(v) is type(x)) for x in BOOL_FALSE):
            return False
        raise OutsideDomain("value without documented bool meaning")
    if typ in ("list", "set", "list0"):
        if v is None:
            return [] if typ == "list0" else None
        if not isinstance(v, str):
            raise OutsideDomain("non-text in a list column")
        items = _split_list(v)
        return set(items) if typ == "set" else items
    raise ValueError(typ)


def is_blank(v):
    return v is None or str(v).strip() == ""


def same(a, b):
    if type(a) is not type(b):
        return False
    if isinstance(a, dict):
        return a.keys() == b.keys() and all(same(a[k], b[k]) for k in a)
    if isinstance(a, (list, tuple)):
        return len(a) == len(b) and all(same(x, y) for x, y in zip(a, b))
    return a == b


# ------------------------------------------------------------------------------------- the reader
def bind(titles, ruleset):
    """-> per object a list of bindings, in attribute order:
       ("col", idx) | ("default", origin text) | ("range", [(title, idx), ...])"""
    known = {a["title"] for o in ruleset["objects"] for a in o["attrs"] if a["kind"] == "plain"}
    if len([t for t in titles if t]) != len({t for t in titles if t}):
        raise OutsideDomain("duplicate column titles")
    out = []
    for o in ruleset["objects"]:
        b = []
        for a in o["attrs"]:
            if a["kind"] == "plain":
                if a["title"] in titles:
                    b.append(("col", titles.index(a["title"])))
                elif "default" in a:
                    b.append(("default", "<skipped column>"))
                else:
                    raise OutsideDomain("required column missing")
            elif a["kind"] == "external":
                b.append(("default", "<n/a>"))
            else:
                run = []
                for i, t in enumerate(titles):
                    if t and t not in known:
                        run.append((t, i))
                    elif run:
                        break
                if not run and "default" not in a:
                    raise OutsideDomain("no column for a required ranged attribute")
                b.append(("range", run))
        out.append(b)
    return out


def reference_read(grid, ruleset, stop_on="blank all", ladder=False):
    """-> (results, info).  results: one list per data row; each holds, per object of the rule set,
    None or {attr: (value, origin)} where origin is a coordinate / "<skipped column>" / "<n/a>" /
    {"keys": {title: coord}, "descr": text}.  Coordinates of ladder-substituted cells come with the set of
    acceptable alternatives in info["alt"][(row_index, col)] when the held value is blank."""
    info = {"flags": set(), "alt": {}}
    r0 = 0
    while r0 < len(grid) and all(is_blank(v) for v in grid[r0]):
        r0 += 1
    if r0:
        info["flags"].add("lead-skipped")
    if r0 == len(grid):
        return [], info
    titles = ["" if v is None else str(v).strip() for v in grid[r0]]
    bindings = bind(titles, ruleset)
    first_titled = next(i for i, t in enumerate(titles) if t)
    results = []
    prev = None
    for r in range(r0 + 1, len(grid)):
        raw = grid[r]
        if stop_on == "blank first":
            if is_blank(raw[0]):
                if any(not is_blank(v) for rr in grid[r:] for v in rr):
                    info["flags"].add("end:content-after-end-row")
                if any(not is_blank(v) for v in raw):
                    info["flags"].add("end:blank-first-cuts-nonblank-row")
                break
        else:
            if all(is_blank(v) for v in raw):
                if any(not is_blank(v) for rr in grid[r:] for v in rr):
                    info["flags"].add("end:content-after-end-row")
                break
        cur = [(v, r, c) for c, v in enumerate(raw)]           # (value, source row, source col)
        if ladder and prev is not None:
            nfill = 0
            for c in range(first_titled, len(cur)):
                if is_blank(cur[c][0]):
                    cur[c] = prev[c]
                    nfill += 1
                    if not is_blank(prev[c][0]):
                        info["flags"].add("ladder:filled")
                        if prev[c][1] < r - 1:
                            info["flags"].add("ladder:multi-row-chain")
                    else:
                        # the cell above is blank as well: any cell of the blank run "holds" the value
                        info["alt"][(len(results), c)] = {coord(rr, c) for rr in range(prev[c][1], r + 1)}
                else:
                    if any(is_blank(raw[k]) and not is_blank(prev[k][0]) for k in range(c + 1, len(raw))):
                        info["flags"].add("ladder:blank-after-first-nonblank")
                    break
        prev = cur
        row_res = []
        for o, b in zip(ruleset["objects"], bindings):
            attrs = {}
            for a, bd in zip(o["attrs"], b):
                if bd[0] == "col":
                    v, sr, sc = cur[bd[1]]
                    attrs[a["name"]] = (convert(a["type"], v), coord(sr, sc))
                elif bd[0] == "default":
                    attrs[a["name"]] = (a["default"], bd[1])
                else:
                    kind, ctype = a["type"].split(":")
                    cells = [(t, cur[i]) for t, i in bd[1]]
                    if kind == "dict":
                        val = {t: convert(ctype, c[0]) for t, c in cells}
                    else:
                        val = {t for t, c in cells if convert(ctype, c[0])}
                    keys = {t: coord(c[1], c[2]) for t, c in cells}
                    if not cells:
                        descr = "<skipped column>"
                    elif len(cells) == 1:
                        descr = coord(cells[0][1][1], cells[0][1][2])
                    else:
                        descr = coord(cells[0][1][1], cells[0][1][2]) + ":" + coord(cells[-1][1][1], cells[-1][1][2])
                    attrs[a["name"]] = (val, {"keys": keys, "descr": descr,
                                              "cols": [i for _, i in bd[1]]})
            nid = o["num_id"]
            if nid > 0:
                keyvals = []
                for a, bd in list(zip(o["attrs"], b))[:nid]:
                    if bd[0] != "col":
                        raise OutsideDomain("key attribute not bound to a column")
                    keyvals.append(cur[bd[1]][0])
                if any(v is not None and is_blank(v) for v in keyvals):
                    raise OutsideDomain("whitespace-only key cell")
                if all(v is None for v in keyvals):
                    row_res.append(None)
                    info["flags"].add("row:none")
                    continue
            row_res.append(attrs)
        results.append(row_res)
    info["titles"] = titles
    info["bindings"] = bindings
    info["title_row"] = r0
    return results, info


def fill_ladder(grid, stop_on="blank all"):
    """The 'table with those cells filled in': same grid with every ladder-substituted cell holding the
    value it stands for (rows after the end row are left alone)."""
    out = [list(r) for r in grid]
    r0 = 0
    while r0 < len(grid) and all(is_blank(v) for v in grid[r0]):
        r0 += 1
    if r0 == len(grid):
        return out
    titles = ["" if v is None else str(v).strip() for v in grid[r0]]
    first_titled = next(i for i, t in enumerate(titles) if t)
    prev = None
    for r in range(r0 + 1, len(grid)):
        if all(is_blank(v) for v in grid[r]):
            break
        if prev is not None:
            for c in range(first_titled, len(out[r])):
                if is_blank(out[r][c]):
                    out[r][c] = prev[c]
                else:
                    break
        prev = out[r]
    return out


def selftest():
    assert [col_letters(i) for i in (0, 25, 26, 27, 51, 52, 701, 702)] == \
        ["A", "Z", "AA", "AB", "AZ", "BA", "ZZ", "AAA"]          # tests/test_xlsread.py::test_mock_cells_coordinate
    assert coord(99, 1) == "B100" and split_coord("AA7") == (6, 26) and split_coord("B100") == (99, 1)
    # tests/test_xlsread.py::test_ladder_table, transcribed
    grid = [[" ", "Year", "Month", "Day", "Event Id", "Event name"],
            [None, 2019, 11, 30, 1, "event 10"],
            [None, None, 12, 15, 2, "event 20"],
            [None, 2020, None, 1, 3, "event 30"],
            ["xx", None, 1, 1, 4, "event 40"],
            [None, 2021, 1, 1, 5, "event 50"],
            [None, None, None, None, 6, "event 60"],
            [None, None, 2, 4, 7, "event 70"]]
    rs = {"objects": [{"num_id": 1, "attrs": [
        {"name": "id", "kind": "plain", "title": "Event Id", "type": "int"},
        {"name": "name", "kind": "plain", "title": "Event name", "type": "str"},
        {"name": "year", "kind": "plain", "title": "Year", "type": "int"},
        {"name": "month", "kind": "plain", "title": "Month", "type": "int"},
        {"name": "day", "kind": "plain", "title": "Day", "type": "int"}]}]}
    res, _ = reference_read(grid, rs, ladder=True)
    got = [(o[0]["year"], o[0]["month"], o[0]["day"]) for o in res]
    assert [tuple(v for v, _ in t) for t in got] == [(2019, 11, 30), (2019, 12, 15), (2020, None, 1), (2020, 1, 1),
                                                    (2021, 1, 1), (2021, 1, 1), (2021, 2, 4)]
    assert [tuple(c for _, c in t) for t in got] == [("B2", "C2", "D2"), ("B2", "C3", "D3"), ("B4", "C4", "D4"),
                                                    ("B4", "C5", "D5"), ("B6", "C6", "D6"), ("B6", "C6", "D6"),
                                                    ("B6", "C8", "D8")]
    # tests/test_xlsread.py::test_range_set / test_range_dict, transcribed
    grid = [["id", "math", "science", "history", "cs", "name", "status"],
            [0, 1, 10, 0, None, "Arnold", 10], [1, None, None, None, None, "Henry", 10]]
    rs = {"objects": [{"num_id": 0, "attrs": [
        {"name": "id", "kind": "plain", "title": "id", "type": "int"},
        {"name": "name", "kind": "plain", "title": "name", "type": "str"},
        {"name": "classes", "kind": "range", "type": "dict:int"},
        {"name": "status", "kind": "plain", "title": "status", "type": "int"}]}]}
    res, _ = reference_read(grid, rs)
    assert res[0][0]["classes"][0] == {"math": 1, "science": 10, "history": 0, "cs": None}
    assert res[0][0]["classes"][1]["descr"] == "B2:E2"
    v, org = res[1][0]["classes"]
    assert v == {"math": None, "science": None, "history": None, "cs": None}
    assert org["descr"] == "B3:E3" and org["keys"]["history"] == "D3"
    # worksheet with leading blank rows and columns (test_worksheet_with_empty_lines)
    grid = [[None, None, None, None, None, None], [None, None, None, "    ", None, None],
            [None, None, "Id", "Person's name", "Status", None], [" ", None, 10, "Richard", 20, 123],
            [None, None, 20, "Arnold", 20, None], [None, None, 30, "Harry", 20, None]]
    rs = {"objects": [{"num_id": 1, "attrs": [
        {"name": "id", "kind": "plain", "title": "Id", "type": "int"},
        {"name": "name", "kind": "plain", "title": "Person's name", "type": "str"},
        {"name": "status", "kind": "plain", "title": "Status", "type": "int"}]}]}
    res, _ = reference_read(grid, rs)
    assert len(res) == 3 and res[1][0]["name"] == ("Arnold", "D5")
