"""Reference position calculator for C04 (DESIGN.md §2 C04).

Written from the property statement, not from ak/llparser.py:

* a text is a list of lines; line numbers and columns are 1-based, the end of a span is exclusive;
* a token is a maximal lexeme found by a hand-written scanner (no regular expressions) for the token
  classes of the three tokenizer configurations below; its span delimits exactly its lexeme; a
  span token (``/* ... */``) runs from its opener to the first closer after the opener, on the same
  or a later line;
* the lexeme of any span is the slice of the original text (lines joined by a line break) between
  the two positions.

``CONFIGS`` keeps, side by side, the arguments given to the real ``LLParser``/``_Tokenizer`` and the
switches of the reference scanner.
"""

def is_space(ch):
    """White-space in the sense of the ``\\s`` class of a str pattern: everything str.isspace() accepts.
    That includes characters str.splitlines() treats as line boundaries (form feed, vertical tab,
    \\x1c-\\x1e, \\x85, \\u2028, \\u2029) — for the tokenizer contract a line ends at '\\n' only, so
    here they are ordinary blanks."""
    return ch.isspace()


# characters str.splitlines() breaks lines at although they are not '\n' (and not '\r')
EXOTIC_LINE_BREAKS = "\x0b\x0c\x1c\x1d\x1e\x85\u2028\u2029"


class Cfg:
    def __init__(self, name, tokenizer_str, synonyms, keywords, span_matchers, quotes, comments,
                 word, plus, string, kwc):
        self.name = name
        self.tokenizer_str = tokenizer_str
        self.synonyms = synonyms
        self.keywords = keywords
        self.span_matchers = span_matchers
        self.quotes = quotes          # reference scanner: quoted strings are tokens
        self.comments = comments      # reference scanner: // and /* */ are tokens
        self.word, self.plus, self.string, self.kwc = word, plus, string, kwc   # token names

    def real_kwargs(self):
        return dict(synonyms=dict(self.synonyms) if self.synonyms else None,
                    keywords=dict(self.keywords) if self.keywords else None,
                    span_matchers=dict(self.span_matchers) if self.span_matchers else None)


CONFIGS = {
    # (i) words / punctuation / space
    "i": Cfg("i", r"""
            (?P<SPACE>\s+)
            |(?P<WORD>[a-z]+)
            |(?P<PLUS>\+)
            """, None, None, None, quotes=False, comments=False,
             word="WORD", plus="PLUS", string=None, kwc=None),
    # (ii) + quoted strings whose value group is narrower than the match, synonyms, a keyword
    "ii": Cfg("ii", r"""
            (?P<SPACE>\s+)
            |(?P<WORD>[a-z]+)
            |'(?P<SQ>[^']*)'
            |(?P<PLUS>\+)
            """, {"PLUS": "+", "SQ": "STRING"}, {("WORD", "c"): "KWC"}, None,
              quotes=True, comments=False, word="WORD", plus="+", string="STRING", kwc="KWC"),
    # (iii) + end-of-line comments and a multi-line span token
    "iii": Cfg("iii", r"""
            (?P<SPACE>\s+)
            |(?P<COMMENT_EOL>//.*)
            |(?P<COMMENT_ML>/\*)
            |(?P<WORD>[a-z]+)
            |'(?P<SQ>[^']*)'
            |(?P<PLUS>\+)
            """, {"PLUS": "+", "SQ": "STRING", "COMMENT_EOL": "COMMENT", "COMMENT_ML": "COMMENT"},
               {("WORD", "c"): "KWC"}, {"COMMENT_ML": r"(?P<BODY>.*?)\*/"},
               quotes=True, comments=True, word="WORD", plus="+", string="STRING", kwc="KWC"),
}


class RTok:
    """Reference token: name, value (None for span tokens: not compared), span, kind flags."""
    __slots__ = ("name", "value", "start", "end", "skipped", "is_span")

    def __init__(self, name, value, start, end, skipped=False, is_span=False):
        self.name, self.value, self.start, self.end = name, value, start, end
        self.skipped, self.is_span = skipped, is_span

    def key(self):
        return (self.name, self.start, self.end)

    def __repr__(self):
        return f"{self.name}{self.start}-{self.end}"


class Scan:
    """Result of the reference scanner.

    status: 'ok' | 'lexerr' (error_line = line of the first character no token class matches)
            | 'unclosed' (a span token is opened and never closed; no unmatched character before it)
    tokens: all tokens (skipped ones included) found before the error, in document order
    feats:  set of feature names describing the text (for the vacuity counters)
    """
    __slots__ = ("status", "tokens", "error_line", "feats", "last_end")

    def __init__(self):
        self.status, self.tokens, self.error_line, self.feats = "ok", [], None, set()
        self.last_end = (1, 1)


def scan(lines, cfg):
    res = Scan()
    toks = res.tokens
    feats = res.feats
    in_span = False
    span_start = None
    span_first_on_line = False
    span_exotic = False
    exotic_before = False        # an exotic line-break character occurred earlier in the text
    exotic_after_tok = False
    for ln, line in enumerate(lines, start=1):
        col = 0
        n = len(line)
        first_real = True      # no non-skipped token seen on this line yet
        if n == 0 or not line.strip():
            if len(lines) > 1:
                feats.add("blank-line")
        while col < n:
            if in_span:
                idx = line.find("*/", col)
                body = line[col:] if idx < 0 else line[col:idx]
                if any(c in EXOTIC_LINE_BREAKS for c in body):
                    span_exotic = True
                if idx < 0:
                    col = n
                    continue
                end = (ln, idx + 3)
                if span_exotic:
                    feats.add("exotic-line-break:in-span-token")
                    exotic_before = True
                toks.append(RTok("COMMENT", None, span_start, end, skipped=True, is_span=True))
                feats.add("skipped-token")
                feats.add("span:closes-same-line" if span_start[0] == ln else "span:closes-later-line")
                if span_first_on_line:
                    feats.add("span:opener-first-on-line")
                in_span = False
                col = idx + 2
                continue
            ch = line[col]
            start = (ln, col + 1)
            if is_space(ch):
                j = col
                while j < n and is_space(line[j]):
                    j += 1
                toks.append(RTok("SPACE", line[col:j], start, (ln, j + 1), skipped=True))
                if any(c in EXOTIC_LINE_BREAKS for c in line[col:j]):
                    feats.add("exotic-line-break:in-skipped-whitespace")
                    exotic_before = True
                feats.add("skipped-token")
                if j == n:
                    feats.add("trailing-blanks-tokenized")
                col = j
                continue
            if "a" <= ch <= "z":
                j = col
                while j < n and "a" <= line[j] <= "z":
                    j += 1
                lex = line[col:j]
                name = cfg.kwc if (cfg.kwc and lex == "c") else cfg.word
                tok = RTok(name, lex, start, (ln, j + 1))
            elif ch == "+":
                j = col + 1
                tok = RTok(cfg.plus, "+", start, (ln, j + 1))
            elif ch == "'" and cfg.quotes:
                k = line.find("'", col + 1)
                if k < 0:
                    res.status, res.error_line = "lexerr", ln
                    return res
                j = k + 1
                tok = RTok(cfg.string, line[col + 1:k], start, (ln, j + 1))
                feats.add("value-narrower-than-match")
                if any(c in EXOTIC_LINE_BREAKS for c in line[col + 1:k]):
                    feats.add("exotic-line-break:in-string-token")
                    exotic_after_tok = True
            elif ch == "/" and cfg.comments and line[col + 1:col + 2] == "/":
                j = n
                tok = RTok("COMMENT", line[col:], start, (ln, j + 1), skipped=True)
                feats.add("eol-comment")
                if any(c in EXOTIC_LINE_BREAKS for c in line[col:]):
                    feats.add("exotic-line-break:in-eol-comment")
                    exotic_after_tok = True
                feats.add("skipped-token")
            elif ch == "/" and cfg.comments and line[col + 1:col + 2] == "*":
                in_span = True
                span_exotic = False
                span_start = start
                span_first_on_line = (col == 0)
                col += 2
                continue
            else:
                res.status, res.error_line = "lexerr", ln
                return res
            if exotic_before and not tok.skipped:
                # a real token comes after such a character on the same '\n'-line, or on a later line:
                # its position shows whether the character was (wrongly) taken for a line break
                feats.add("exotic-line-break:token-follows")
            if exotic_after_tok:
                exotic_before = True
                exotic_after_tok = False
            if first_real and not tok.skipped:
                which = "line>1" if ln > 1 else "line1"
                feats.add(which + (":first-token-at-col-1" if col == 0 else ":first-token-indented"))
                first_real = False
            toks.append(tok)
            col = j
    if in_span:
        res.status = "unclosed"
        return res
    if toks:
        res.last_end = toks[-1].end
    return res


class Text:
    """Own line arithmetic over the original (unstripped) lines."""

    def __init__(self, lines):
        self.lines = list(lines)
        self.flat = "\n".join(self.lines)
        self.offs = []
        o = 0
        for l in self.lines:
            self.offs.append(o)
            o += len(l) + 1

    def inside(self, pos):
        ln, col = pos
        return 1 <= ln <= len(self.lines) and 1 <= col <= len(self.lines[ln - 1]) + 1

    def slice(self, start, end):
        """Lexeme between two positions; None if a position is outside the text."""
        if not (self.inside(start) and self.inside(end)) or start > end:
            return None
        return self.flat[self.offs[start[0] - 1] + start[1] - 1: self.offs[end[0] - 1] + end[1] - 1]


def strip_lines(lines):
    return [l.rstrip() for l in lines]


def selftest():
    """Expectations spelled out in tests/test_llparser.py (TestParserTokenizer), re-stated for the
    reference scanner's token classes."""
    cfg = CONFIGS["iii"]
    text = "\n            aaa 'bb' '+' + xx+ '+ +' x  \n \t     c\n\n            c c // a + b\n            "
    lines = strip_lines(text.split("\n"))
    r = scan(lines, cfg)
    assert r.status == "ok"
    real = [t for t in r.tokens if not t.skipped]
    assert [t.name for t in real] == ["WORD", "STRING", "STRING", "+", "WORD", "+", "STRING", "WORD",
                                      "KWC", "KWC", "KWC"], real
    assert real[0].start == (2, 13) and real[-1].start == (5, 15), real
    # the multi-line comment of test_tokenize_text_with_comments: span ((5, 21), (9, 37))
    text2 = ("\n" + " " * 12 + "'s' // x 'A'\n" + " " * 12 + "'t' /* c 'B' */ 'u'\n" + " " * 12 + "// 'C' /* w */ 'D'\n"
             + " " * 12 + "'str3'  /*\n" + " " * 12 + "still 'strE' // who cares\n" + " " * 12 + "still 'strF'\n"
             + " " * 12 + "'strG' /* who cares\n" + " " * 12 + "but here comment ends:*/'v'\n" + " " * 12)
    r = scan(strip_lines(text2.split("\n")), cfg)
    assert r.status == "ok"
    ml = [t for t in r.tokens if t.is_span and t.start[0] != t.end[0]]
    assert len(ml) == 1 and (ml[0].start, ml[0].end) == ((5, 21), (9, 37)), ml
    vals = [t.value for t in r.tokens if not t.skipped]
    assert vals == ["s", "t", "u", "str3", "v"], vals
    tx = Text(text2.split("\n"))
    assert tx.slice((5, 13), (5, 19)) == "'str3'"
    assert scan(["ab #"], cfg).status == "lexerr" and scan(["", "a /* x"], cfg).status == "unclosed"
    assert scan(["a /* x"], CONFIGS["i"]).error_line == 1
    # the tokenizer contract: a line ends at '\n' only; form feed / U+2028 are blanks (matched by \s)
    r = scan("ab\x0c c\n\u2028ab //x\x0cy".split("\n"), cfg)
    assert r.status == "ok" and [(t.start, t.end) for t in r.tokens if not t.skipped] == \
        [((1, 1), (1, 3)), ((1, 5), (1, 6)), ((2, 2), (2, 4))], r.tokens
    assert {"exotic-line-break:in-skipped-whitespace", "exotic-line-break:in-eol-comment",
            "exotic-line-break:token-follows"} <= r.feats
