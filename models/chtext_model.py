"""Reference model of colored text for C08: a text is an immutable tuple of (char, color id).

All operations have plain ``str`` semantics applied to that tuple (so ``+=`` *rebinds*; nothing is ever
shared between two values).  Written from the property statement, not from ak/color.py.

Operands are JSON-able descriptors:  ["s", text]  a str,  ["c", color, text]  a mono-colored chunk,
["r", i]  the current value of register i,  ["l", [operand, ...]]  a list of operands (for ``+=``).
"""

PLAIN = 0


def of_str(s, color=PLAIN):
    return tuple((ch, color) for ch in s)


def operand_value(x, regs):
    k = x[0]
    if k == "s":
        return of_str(x[1])
    if k == "c":
        return of_str(x[2], x[1])
    if k == "r":
        return regs[x[1]]
    if k in ("l", "t"):
        out = ()
        for y in x[1]:
            out += operand_value(y, regs)
        return out
    raise ValueError(x)


def chars(v):
    return "".join(c for c, _ in v)


def canon(v):
    """Maximal mono-colored runs: ((color, text), ...) — the only chunk structure str semantics allows."""
    out = []
    for ch, col in v:
        if out and out[-1][0] == col:
            out[-1][1].append(ch)
        else:
            out.append((col, [ch]))
    return tuple((col, "".join(t)) for col, t in out)


def all_plain(v):
    return all(col == PLAIN for _, col in v)


def m_slice(v, a, b):
    return v[a:b]


def m_index(v, i):
    return (v[i],)          # IndexError exactly when str raises it


def m_fixed(v, n):
    if len(v) >= n:
        return v[:n]
    return v + of_str(" " * (n - len(v)))


def m_join(sep, items):
    out = ()
    for k, it in enumerate(items):
        if k:
            out += sep
        out += it
    return out


# ------------------------------------------------------------------------------------------- format specs
FILLS_ALIGNS = [("", "")] + [(f, a) for a in "<>^" for f in ("", "_", "<")]
WIDTHS = ["", "3", "9", "12"]
TYPES = ["", "s"]
SPECS = [f + a + w + t for (f, a) in FILLS_ALIGNS for w in WIDTHS for t in TYPES]


def parse_spec(spec):
    """-> (fill, align, width) for a spec of the grammar [[fill]align][width][s] used by the check."""
    if spec.endswith("s"):
        spec = spec[:-1]
    fill, align = " ", "<"
    if len(spec) >= 2 and spec[1] in "<>^":
        fill, align, spec = spec[0], spec[1], spec[2:]
    elif len(spec) >= 1 and spec[0] in "<>^":
        align, spec = spec[0], spec[1:]
    width = int(spec) if spec else 0
    return fill, align, width


def m_format(v, spec):
    """Cells (char, color) of format(text, spec): padding is default colored."""
    fill, align, width = parse_spec(spec)
    pad = max(width - len(v), 0)
    if align == "<":
        left = 0
    elif align == ">":
        left = pad
    else:
        left = pad // 2
    return of_str(fill * left) + v + of_str(fill * (pad - left))


def selftest():
    # the model's padding arithmetic is Python's own for every spec the check uses
    for txt in ("", "a", "ab", "abc", "abcdefghi", "abcdefghijklmn"):
        for spec in SPECS:
            assert chars(m_format(of_str(txt), spec)) == format(txt, spec), (txt, spec)
    assert len(SPECS) == 80 and len(set(SPECS)) == 80
    v = of_str("green", 1) + of_str("red", 2)
    # tests/test_color.py::test_slicing expectations
    assert m_slice(v, 1, 6) == of_str("reen", 1) + of_str("r", 2)
    assert chars(m_slice(v, -7, 8)) == "reenred" and chars(m_slice(v, 1, -1)) == "reenre"
    assert m_slice(v, 5, -5) == () and m_slice(v, 100, 1) == () and m_slice(v, -9, 9) == v
    assert m_index(v, -3) == (("r", 2),)
    for i in (8, -9):
        try:
            m_index(v, i)
            raise AssertionError(i)
        except IndexError:
            pass
    # test_fixed_len_method
    t = of_str("123", 1) + of_str("456", 2)
    assert chars(m_fixed(t, 10)) == "123456    " and chars(m_fixed(t, 5)) == "12345" and m_fixed(t, 6) == t
    assert canon(m_fixed(of_str("green", 1), 6)) == ((1, "green"), (0, " "))
    # test_join
    assert chars(m_join(of_str("=", 1), [of_str("blue", 2), of_str("red", 1), of_str("white")])) == "blue=red=white"
    assert canon(of_str("p1", 1) + of_str("p2", 1)) == ((1, "p1p2"),)
