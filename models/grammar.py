"""Grammars: enumeration and reference models shared by C01, C02, C03 (DESIGN.md §2 C01-C03).

Everything here is written from the property statements and from text-book definitions; nothing is
derived from (or imports) the implementation under test.

Representation
    prods : tuple of (non_terminal, tuple_of_alternatives); an alternative is a tuple of symbol
            names, ``()`` is the empty production.  The order of the pairs is the insertion order of
            the ``productions`` dict handed to the real constructor, the order of the alternatives is
            the user's priority order.
    terms : the terminal names of the token configuration (``TokCfg``).
    A *case* (JSON) is ``{"cfg": ..., "start": "E", "prods": [[nt, [[sym, ...], ...]], ...]}``.

Reference models
    nullables, first_sets, follow_sets, predict_sets, is_ll1   -- independent LL(1) test
    left_reach, left_cycle                                    -- X -> Y iff X -> alpha Y beta, alpha =>* eps
    lang_bounded                                               -- Lang_{<=L}(X) by bounded fixpoint
    validate_tree                                              -- derivation validator over the user grammar

Enumeration (all exhaustive, deterministic order, simplest first)
    alternatives, alt_lists, enum_sized, count_sized           -- size-bounded spaces
    family_follow, family_follow2, family_prefix, family_split, family_wide,
    family_seq, family_diverge, family_hidden                  -- directed families
"""

import itertools
from collections import Counter

END = "$END$"


# ============================================================================ token configurations
class TokCfg:
    """Tokenizer configuration + the tokens the harness can put into a text."""

    def __init__(self, key, tokenizer_str, tokens, synonyms=None, keywords=None, sep=" ",
                 default_skip=("SPACE",), span_matchers=None, wrap=None):
        self.key = key                      # JSON-able identification
        self.tokenizer_str = tokenizer_str
        self.tokens = tuple(tokens)         # ((terminal name, value text), ...): the input alphabet
        self.synonyms = synonyms
        self.keywords = keywords
        self.terms = tuple(dict.fromkeys(n for n, _ in self.tokens))
        self.sep = sep                      # text between two tokens ("" when blanks are tokens of the menu)
        self.default_skip = frozenset(default_skip)   # what skip_tokens=None means for this tokenizer
        self.span_matchers = span_matchers  # constructor argument span_matchers (multi-line tokens)
        self.wrap = wrap or {}              # {token name: (opening text, closing text)} around the value

    def text(self, toks):
        if not self.wrap:
            return self.sep.join(v for _, v in toks)
        return self.sep.join(self.wrap[n][0] + v + self.wrap[n][1] if n in self.wrap else v for n, v in toks)

    def valid_input(self, toks):
        """With sep == "" blanks are written by the harness as SPACE tokens of the menu: two adjacent
        blanks would be one token and a trailing blank is stripped from a str input, so such token strings
        do not denote themselves and are not generated."""
        if self.sep:
            return True
        blank = ("SPACE", "TAB")          # tokens written as white space
        names = [n for n, _ in toks]
        if names and names[-1] in blank:
            return False
        return all(not (a in blank and b in blank) for a, b in zip(names, names[1:]))

    def effective_skip(self, skip):
        """The documented meaning of the constructor argument skip_tokens: None = the defaults (SPACE and
        COMMENT when the tokenizer has them), any collection = exactly its members (an empty one: nothing)."""
        if skip is None:
            return self.default_skip
        return frozenset(skip[1])


# values of the constructor argument skip_tokens explored with blank_cfg: [python type, members] or None
SKIP_OPTIONS = (None, ["set", []], ["list", []], ["tuple", []], ["set", ["SPACE"]], ["set", ["COMMENT"]],
                ["list", ["SPACE", "COMMENT"]])


def skip_value(skip):
    if skip is None:
        return None
    return {"set": set, "list": list, "tuple": tuple}[skip[0]](skip[1])


def blank_cfg():
    """Tokenizer with SPACE and COMMENT groups whose tokens the harness writes explicitly (no separator
    between tokens), for exploring the constructor option skip_tokens."""
    return TokCfg("blank", r"(?P<SPACE>\s+)|(?P<COMMENT>%)|(?P<a>a)",
                  [("a", "a"), ("SPACE", " "), ("COMMENT", "%")], sep="",
                  default_skip=("SPACE", "COMMENT"))


def letters_cfg(letters):
    """One single-character token per letter, token name = the letter, blanks skipped."""
    letters = tuple(letters)
    assert all(len(c) == 1 and c.islower() for c in letters)
    ts = r"(?P<SPACE>\s+)" + "".join(f"|(?P<{c}>{c})" for c in letters)
    return TokCfg(list(letters), ts, [(c, c) for c in letters])


def kw_cfg():
    """Keyword + synonym configuration: regex group W is the token WORD (synonym), two different WORD
    values (one of them the keyword's spelling in another case), keyword ``if`` -> IF, PLUS -> '+'."""
    return TokCfg("kw", r"(?P<SPACE>\s+)|(?P<W>[a-zA-Z]+)|(?P<PLUS>\+)",
                  [("WORD", "u"), ("WORD", "If"), ("IF", "if"), ("+", "+")],
                  synonyms={"W": "WORD", "PLUS": "+"}, keywords={("WORD", "if"): "IF"})


# characters str.splitlines() treats as line boundaries although they are not "\n"
EXOTIC_LINE_ENDS = ("\x0c", "\x0b", "\x1c", "\x1d", "\x1e", "\x85", "\u2028", "\u2029", "\r")


def span_bodies(max_pieces=2):
    """Values of the multi-line TEXT token: all strings of <= max_pieces pieces over {p, blank, newline,
    the exotic line-boundary characters}.  Not generated (the tokenizer documents / shows a lossy reading of
    them, which is not what this space is about): white space directly in front of a newline (a str input
    is right-stripped line by line) and empty lines inside the value (leading newline, two newlines in a
    row)."""
    pieces = ("p", " ", "\n") + EXOTIC_LINE_ENDS
    out = []
    for n in range(max_pieces + 1):
        for t in itertools.product(pieces, repeat=n):
            b = "".join(t)
            if b.startswith("\n") or "\n\n" in b:
                continue
            if any(b[i] == "\n" and b[i - 1].isspace() for i in range(1, len(b))):
                continue
            out.append(b)
    return out


def span_cfg(max_pieces=2):
    """Tokenizer with a non-skipped multi-line span token TEXT written <<...>> (constructor argument
    span_matchers); the value of the token is the text between the marks."""
    return TokCfg("span", r"(?P<SPACE>\s+)|(?P<TEXT><<)|(?P<a>a)",
                  [("a", "a")] + [("TEXT", b) for b in span_bodies(max_pieces)],
                  span_matchers={"TEXT": r"(?P<BODY>[^>]*)>>"}, wrap={"TEXT": ("<<", ">>")})


def family_span(nts=("E", "A")):
    """A handful of tiny grammars over the terminals a and TEXT (the span token)."""
    e, a = nts
    t = "TEXT"
    return [((e, ((t,),)), (a, (("a",),))),
            ((e, (("a", t), (t,))), (a, (("a",),))),
            ((e, ((t, a),)), (a, ((), ("a",), (t,)))),
            ((e, ((a, a),)), (a, ((t,), ("a",)))),
            ((e, ((t, "a", t), (t, t), (t, "a"))), (a, (("a",),))),
            ((e, ((a, t),)), (a, ((), ("a", a))))]


SYN_MAPS = {
    # synonym VALUE equal to another synonym KEY (rename chain): DQ -> STRING, STRING group -> RAW
    "syn-chain": ({"DQ": "STRING", "STRING": "RAW"},
                  [("STRING", '"x"'), ("RAW", "'y'"), ("NUM", "7"), ("W", "w")]),
    # identity entry of a table-driven mapping
    "syn-identity": ({"NUM": "NUM", "W": "WORD"},
                     [("DQ", '"x"'), ("STRING", "'y'"), ("NUM", "7"), ("WORD", "w")]),
    # two groups renamed to one name, one of them through a chain
    "syn-merge": ({"DQ": "STRING", "STRING": "STRING", "W": "NUM", "NUM": "N"},
                  [("STRING", '"x"'), ("STRING", "'y'"), ("NUM", "w"), ("N", "7")]),
    # control: fresh names only
    "syn-fresh": ({"DQ": "S1", "W": "WORD"},
                  [("S1", '"x"'), ("STRING", "'y'"), ("NUM", "7"), ("WORD", "w")]),
}


def syn_cfg(key):
    """Tokenizer configurations whose ``synonyms`` map renames re groups in chains / to themselves; the
    token menu lists the final token names (what the tokenizer emits) with a sample text each."""
    syn, tokens = SYN_MAPS[key]
    return TokCfg(key, r"""(?P<SPACE>\s+)|(?P<DQ>"[a-z]*")|(?P<STRING>'[a-z]*')|(?P<NUM>[0-9]+)|(?P<W>[a-z]+)""",
                  tokens, synonyms=dict(syn))


def family_syn(terms, nts=("E", "A")):
    """A handful of tiny LL(1) grammars over the (final) token names ``terms`` of a syn_cfg."""
    e, a = nts
    t = list(terms) + list(terms)
    t1, t2, t3, t4 = t[0], t[1], t[2], t[3]
    return [((e, ((t1,), (t2, t3))), (a, ((t4,),))),
            ((e, ((t1, a), (t2,))), (a, ((), (t3, a)))),
            ((e, ((a, t4),)), (a, ((t1,), (t2, t2), (t3,)))),
            ((e, ((a, a),)), (a, ((t1,), (t2,), (t3, t4)))),
            ((e, ((t4, a, t4), (t3,))), (a, ((), (t1,), (t2, a)))),
            ((e, ((t2,),)), (a, ((t1,),)))]


def kwskip_cfg():
    """Keywords whose SOURCE token type is a skipped type: the comment "%pragma;" is the token PRAGMA and a
    single tab is the token TAB; both are ordinary (not skipped) tokens, every other comment / blank is
    skipped by the default skip set.  Order of operations: synonym -> keyword -> skip filter."""
    return TokCfg("kwskip", r"(?P<SPACE>\s+)|(?P<COMMENT>%[a-z]*;)|(?P<a>a)",
                  [("a", "a"), ("SPACE", " "), ("COMMENT", "%c;"), ("PRAGMA", "%pragma;"), ("TAB", "\t")],
                  keywords={("COMMENT", "%pragma;"): "PRAGMA", ("SPACE", "\t"): "TAB"}, sep="",
                  default_skip=("SPACE", "COMMENT"))


def span2_cfg():
    """Span token TEXT <<...>> whose closing characters are also the ordinary token GT."""
    return TokCfg("span2", r"(?P<SPACE>\s+)|(?P<TEXT><<)|(?P<GT>>>)|(?P<a>a)",
                  [("a", "a"), ("GT", ">>"), ("TEXT", "p")],
                  span_matchers={"TEXT": r"(?P<BODY>[^>]*)>>"}, wrap={"TEXT": ("<<", ">>")})


def spanline_texts():
    """Texts in which the same line text occurs once as the closing line of a multi-line TEXT token and
    once as a stand-alone line.  -> [(label, [(text, expected tokens), ...calls on one parser])]"""
    a, gt = ("a", "a"), ("GT", ">>")
    out = []
    for x, xt in (("", []), ("a", [a]), ("a ", [a])):
        for y, yt in (("", []), (" a", [a])):
            line = x + ">>" + y
            span = "<<p\n" + line
            span_toks = [("TEXT", "p\n" + x)] + yt
            plain_toks = xt + [gt] + yt
            out.append(("one-text:span-first", [(span + "\n" + line, span_toks + plain_toks)]))
            out.append(("one-text:plain-first", [(line + "\n" + span, plain_toks + span_toks)]))
            out.append(("two-calls:span-first", [(span, span_toks), (line, plain_toks)]))
            out.append(("two-calls:plain-first", [(line, plain_toks), (span, span_toks)]))
    return out


# any sequence of the three tokens (LL(1))
SPANLINE_GRAMMAR = (("E", (("A", "E"), ())), ("A", (("a",), ("GT",), ("TEXT",))))


def cfg_from_key(key):
    if key == "kw":
        return kw_cfg()
    if key == "kwskip":
        return kwskip_cfg()
    if key == "span2":
        return span2_cfg()
    if isinstance(key, str) and key.startswith("syn-"):
        return syn_cfg(key)
    if key == "span":
        return span_cfg()
    if key == "blank":
        return blank_cfg()
    return letters_cfg(key)


def all_inputs(cfg, max_len):
    """All token strings (tuples of (name, value)) of length <= max_len, shortest first."""
    out = []
    for n in range(max_len + 1):
        out.extend(t for t in itertools.product(cfg.tokens, repeat=n) if cfg.valid_input(t))
    return out


# ============================================================================ cases
SEQ = "@seq"       # alternatives of a symbol defined by the template ProdSequence: (SEQ, sym1, sym2, ...)


def is_seq(alts):
    return bool(alts) and alts[0] == SEQ


def to_case(cfg, start, prods, **extra):
    d = {"cfg": cfg.key, "start": start,
         "prods": [[x, {"seq": list(alts[1:])} if is_seq(alts) else [list(a) for a in alts]] for x, alts in prods]}
    d.update(extra)
    return d


def from_case(case):
    cfg = cfg_from_key(case["cfg"])
    prods = tuple((x, (SEQ,) + tuple(alts["seq"]) if isinstance(alts, dict) else tuple(tuple(a) for a in alts))
                  for x, alts in case["prods"])
    return cfg, case["start"], prods


def expand(prods):
    """-> (pm, seqs): pm = {X: alternatives} with every sequence symbol W = ProdSequence(s1..sk) written
    out as its meaning  W -> s1 W | ... | sk W | eps  (any of the given symbols, any number, any order);
    seqs = {W: set of its element symbols}.  In a returned tree a sequence node carries the matched
    elements directly as its children."""
    pm, seqs = {}, {}
    for x, alts in prods:
        if is_seq(alts):
            seqs[x] = set(alts[1:])
            pm[x] = tuple((s, x) for s in alts[1:]) + ((),)
        else:
            pm[x] = alts
    return pm, seqs


def show(prods, start=None):
    parts = []
    for x, alts in prods:
        if is_seq(alts):
            parts.append(f"{x}=ProdSequence({', '.join(alts[1:])})")
            continue
        parts.append(f"{x}→" + " | ".join(" ".join(a) if a else "ε" for a in alts))
    s = "; ".join(parts)
    return s if start is None else f"[start {start}] {s}"


def size_of(prods):
    return sum(max(1, len(a)) for _, alts in prods if not is_seq(alts) for a in alts)


# ============================================================================ LL(1) reference
def nullables(pm):
    nul = set()
    changed = True
    while changed:
        changed = False
        for x, alts in pm.items():
            if x not in nul and any(all(s in nul for s in a) for a in alts):
                nul.add(x)
                changed = True
    return nul


def first_sets(pm, nul):
    first = {x: set() for x in pm}
    changed = True
    while changed:
        changed = False
        for x, alts in pm.items():
            fx = first[x]
            n0 = len(fx)
            for a in alts:
                for s in a:
                    if s in pm:
                        fx |= first[s]
                        if s not in nul:
                            break
                    else:
                        fx.add(s)
                        break
            if len(fx) != n0:
                changed = True
    return first


def first_of_seq(seq, pm, first, nul):
    """-> (FIRST(seq), seq =>* eps)"""
    out = set()
    for s in seq:
        if s in pm:
            out |= first[s]
            if s not in nul:
                return out, False
        else:
            out.add(s)
            return out, False
    return out, True


def follow_sets(pm, start, first, nul):
    follow = {x: set() for x in pm}
    follow[start].add(END)
    changed = True
    while changed:
        changed = False
        for x, alts in pm.items():
            for a in alts:
                for i, s in enumerate(a):
                    if s not in pm:
                        continue
                    f, eps = first_of_seq(a[i + 1:], pm, first, nul)
                    fs = follow[s]
                    n0 = len(fs)
                    fs |= f
                    if eps:
                        fs |= follow[x]
                    if len(fs) != n0:
                        changed = True
    return follow


def predict_sets(pm, start):
    """{X: [predict set of each alternative, in order]} by the text-book construction."""
    nul = nullables(pm)
    first = first_sets(pm, nul)
    follow = follow_sets(pm, start, first, nul)
    out = {}
    for x, alts in pm.items():
        lst = []
        for a in alts:
            f, eps = first_of_seq(a, pm, first, nul)
            lst.append(f | follow[x] if eps else set(f))
        out[x] = lst
    return out


def is_ll1(pm, start):
    """LL(1) as written: for every symbol the predict sets of its alternatives are pairwise disjoint
    and at most one alternative derives the empty string.  (The second clause only matters for a symbol
    whose FOLLOW set is empty -- a useless symbol; it keeps such degenerate grammars, in which a symbol
    derives eps in two ways, out of the obligation.)"""
    nul = nullables(pm)
    for x, alts in pm.items():
        if sum(1 for a in alts if all(s in nul for s in a)) > 1:
            return False
    for lst in predict_sets(pm, start).values():
        seen = set()
        for p in lst:
            if seen & p:
                return False
            seen |= p
    return True


def ref_table(pm, start):
    """{(X, token): [alternative index, ...]} -- the LL(1) table of the grammar, for diagnostics."""
    tab = {}
    for x, lst in predict_sets(pm, start).items():
        for i, p in enumerate(lst):
            for t in p:
                tab.setdefault((x, t), []).append(i)
    return tab


# ============================================================================ left recursion reference
def left_reach(pm):
    """X -> Y iff X has an alternative alpha Y beta with alpha =>* eps (Y a non-terminal)."""
    nul = nullables(pm)
    rel = {x: set() for x in pm}
    for x, alts in pm.items():
        for a in alts:
            for s in a:
                if s not in pm:
                    break
                rel[x].add(s)
                if s not in nul:
                    break
    return rel


def left_cycle(pm):
    """-> sorted list of the symbols that can reach themselves without consuming a token."""
    rel = left_reach(pm)
    bad = []
    for x in pm:
        seen = set()
        todo = list(rel[x])
        while todo:
            y = todo.pop()
            if y in seen:
                continue
            seen.add(y)
            todo.extend(rel[y])
        if x in seen:
            bad.append(x)
    return sorted(bad)


def cycle_kind(pm):
    """Class label of the left recursion of a grammar (for signatures / feature counts):
    "first-position" when some cycle uses only the first symbols of alternatives, otherwise
    "behind-nullable-prefix" (every cycle passes a non-empty nullable prefix), "none" without a cycle."""
    if not left_cycle(pm):
        return "none"
    rel0 = {x: {a[0] for a in pm[x] if a and a[0] in pm} for x in pm}
    for x in pm:
        seen, todo = set(), list(rel0[x])
        while todo:
            y = todo.pop()
            if y not in seen:
                seen.add(y)
                todo.extend(rel0[y])
        if x in seen:
            return "first-position"
    return "behind-nullable-prefix"


# ============================================================================ bounded language
def lang_bounded(pm, max_len):
    """{X: set of terminal-name tuples of length <= max_len derivable from X} (least fixpoint)."""
    lang = {x: set() for x in pm}
    changed = True
    while changed:
        changed = False
        for x, alts in pm.items():
            lx = lang[x]
            n0 = len(lx)
            for a in alts:
                cur = {()}
                for s in a:
                    if s in pm:
                        ls = lang[s]
                        cur = {w + v for w in cur for v in ls if len(w) + len(v) <= max_len}
                    else:
                        cur = {w + (s,) for w in cur if len(w) < max_len}
                    if not cur:
                        break
                lx |= cur
            if len(lx) != n0:
                changed = True
    return lang


# ============================================================================ derivation validator
def tree_shape(node, depth=0):
    """Implementation tree (duck-typed: .name, .value) -> nested tuples, for comparison and printing."""
    if depth > 200:
        return ("<too deep>",)
    v = node.value
    if isinstance(v, list):
        return (node.name, tuple(tree_shape(c, depth + 1) if hasattr(c, "name") else ("<not a node>", repr(c))
                                 for c in v))
    return (node.name, v)


def validate_tree(root, pm, terms, start, toks, seqs=None):
    """Derivation validator written from the statement of C01.

    root  : object with .name / .value (value: list of nodes, None, or str for a token leaf)
    pm    : user grammar {X: alternatives}; terms: terminal names; toks: ((name, value), ...) non-skipped
    seqs  : {W: element symbols} for symbols the user defined as ProdSequence: the user's "production" of
            W is "any of the given symbols, in any order"; its node carries the matched elements as a list
            (possibly empty), which are read as its children.
    -> None when the tree is a valid derivation of ``toks`` from ``start``, else (label, detail).
    """
    if getattr(root, "name", None) != start:
        return ("root-not-start-symbol", f"root is {getattr(root, 'name', None)!r}")
    leaves = []
    stack = [(root, 0)]
    n_nodes = 0
    while stack:
        node, depth = stack.pop()
        n_nodes += 1
        if n_nodes > 10000 or depth > 500:
            return ("malformed-tree", "tree too large")
        name = getattr(node, "name", None)
        value = getattr(node, "value", None)
        if seqs and name in seqs:
            if value is None:
                continue
            if not isinstance(value, list) or not all(hasattr(c, "name") for c in value):
                return ("malformed-tree", f"value of sequence node {name} is {value!r}")
            for c in value:
                if c.name not in seqs[name]:
                    if isinstance(c.name, str) and "__" in c.name:
                        return ("helper-symbol-in-tree", f"sequence {name} contains {c.name}")
                    return ("node-is-not-a-user-production", f"sequence {name} contains {c.name}")
            for c in reversed(value):
                stack.append((c, depth + 1))
        elif name in pm:
            if value is None or (isinstance(value, list) and not value):
                if () not in pm[name]:
                    return ("childless-node-without-empty-production", f"{name} has no children")
                continue
            if not isinstance(value, list) or not all(hasattr(c, "name") for c in value):
                return ("malformed-tree", f"value of inner node {name} is {value!r}")
            sig = tuple(c.name for c in value)
            if sig not in pm[name]:
                bad = [s for s in sig if s not in pm and s not in terms]
                if any("__" in s for s in bad if isinstance(s, str)):
                    return ("helper-symbol-in-tree", f"{name} -> {sig}")
                return ("node-is-not-a-user-production", f"{name} -> {sig}")
            for c in reversed(value):
                stack.append((c, depth + 1))
        elif name in terms:
            if not isinstance(value, str):
                return ("malformed-tree", f"token leaf {name} has value {value!r}")
            leaves.append((name, value))
        else:
            if isinstance(name, str) and "__" in name:
                return ("helper-symbol-in-tree", f"node {name}")
            return ("unknown-symbol-in-tree", f"node {name!r}")
    if tuple(leaves) != tuple(toks):
        return ("leaves-differ-from-tokens", f"leaves {leaves} tokens {list(toks)}")
    return None


def count_empty_nodes(shape):
    name, v = shape
    if v is None:
        return 1
    if isinstance(v, tuple):
        return sum(count_empty_nodes(c) for c in v)
    return 0


def chain_nullables(pm):
    """Symbols that derive the empty string only through their children: nullable, but without an empty
    alternative of their own."""
    return {x for x in nullables(pm) if () not in pm[x]}


def empty_chain_node_at_end(shape, chain):
    """True iff the tree (tree_shape form) has a node of a symbol in ``chain`` that covers no token and
    lies behind the last token leaf (the text ends where that symbol starts)."""
    order = []          # pre-order list of (name, number of leaves below, index of first leaf after start)

    def walk(node, n_before):
        name, v = node
        if isinstance(v, tuple):
            n = 0
            idx = len(order)
            order.append(None)
            for c in v:
                n += walk(c, n_before + n)
            order[idx] = (name, n, n_before)
            return n
        if v is None:
            order.append((name, 0, n_before))
            return 0
        order.append((name, 1, n_before))
        return 1
    total = walk(shape, 0)
    return any(name in chain and n == 0 and before == total for name, n, before in order)


# ============================================================================ size-bounded enumeration
def alternatives(symbols, max_len):
    out = []
    for n in range(max_len + 1):
        out.extend(itertools.product(symbols, repeat=n))
    return out


def alt_lists(symbols, max_alts, max_len, max_size=None):
    """Ordered lists of 1..max_alts *distinct* alternatives -> [(size, alternatives)], smallest first.
    size = sum(max(1, len(alt)))."""
    alts = alternatives(symbols, max_len)
    out = []
    for n in range(1, max_alts + 1):
        for p in itertools.permutations(alts, n):
            sz = sum(max(1, len(a)) for a in p)
            if max_size is None or sz <= max_size:
                out.append((sz, p))
    out.sort(key=lambda t: t[0])      # stable: keeps the generation order inside one size
    return out


def enum_sized(nts, terms, max_alts, max_len, max_size, first_slice=None):
    """All grammars over the non-terminals ``nts`` (every one gets an alternative list over nts+terms) with
    total size <= max_size.  ``first_slice=(k, K)`` restricts the alternative list of nts[0] to
    lists[k::K] (sharding).  Yields prods tuples."""
    symbols = tuple(nts) + tuple(terms)
    n = len(nts)
    lists = alt_lists(symbols, max_alts, max_len, max_size - (n - 1))
    firsts = lists if first_slice is None else lists[first_slice[0]::first_slice[1]]

    def rec(i, budget, acc):
        if i == n:
            yield tuple(acc)
            return
        rest = n - i - 1          # every remaining symbol needs size >= 1
        for sz, al in (firsts if i == 0 else lists):
            if sz + rest > budget:
                if i == 0:
                    continue      # a slice is sorted too, but keep it simple
                break
            acc.append((nts[i], al))
            yield from rec(i + 1, budget - sz, acc)
            acc.pop()
    yield from rec(0, max_size, [])


def count_sized(n_nts, n_terms, max_alts, max_len, max_size):
    """Size of an enum_sized space, computed without enumerating it (for the evidence file)."""
    lists = alt_lists(tuple(range(n_nts + n_terms)), max_alts, max_len, max_size)
    c = Counter(s for s, _ in lists)
    dist = {0: 1}
    for _ in range(n_nts):
        nd = Counter()
        for s0, n0 in dist.items():
            for s1, n1 in c.items():
                if s0 + s1 <= max_size:
                    nd[s0 + s1] += n0 * n1
        dist = nd
    return sum(dist.values())


# ============================================================================ directed families
def helper_menu(terms, allow_two=True):
    """Alternative lists of <= 2 alternatives of length <= 1 over the terminals (eps, t, in both orders)."""
    singles = [()] + [(t,) for t in terms]
    out = [(a,) for a in singles]
    if allow_two:
        out += [p for p in itertools.permutations(singles, 2)]
    return out


def _canonical_terms(prods, terms):
    """True iff the terminals occur for the first time in the order of ``terms`` (reading the grammar
    left to right) -- one representative per renaming of the terminals."""
    nxt = 0
    pos = {t: i for i, t in enumerate(terms)}
    for _, alts in prods:
        for a in alts:
            for s in a:
                i = pos.get(s)
                if i is None:
                    continue
                if i > nxt:
                    return False
                if i == nxt:
                    nxt += 1
    return True


def family_follow_rich_lists(helpers, terms, max_len, need_nt=True, self_ref=None):
    """Alternative lists of the rich symbol: 1-2 distinct alternatives of length <= max_len over
    helpers+terms; with need_nt every alternative contains a helper symbol; with self_ref=<name> the rich
    symbol itself may occur, but only directly behind a terminal."""
    symbols = tuple(helpers) + tuple(terms) + ((self_ref,) if self_ref else ())
    alts = alternatives(symbols, max_len)
    if self_ref:
        alts = [a for a in alts
                if all(s != self_ref or (i > 0 and a[i - 1] in terms) for i, s in enumerate(a))]
    if need_nt:
        alts = [a for a in alts if any(s in helpers for s in a)]
    out = [(a,) for a in alts]
    out += list(itertools.permutations(alts, 2))
    return out


def family_follow(terms, max_len=3, need_nt=True, canonical=True, rich_slice=None,
                  rich="E", helpers=("A", "N"), self_ref=False, two_token_helpers=True):
    """C02 directed family "one rich symbol + two helper symbols" (FOLLOW interplay).

    E  : 1-2 alternatives of length <= max_len over {A, N} + terms (+ E behind a terminal with self_ref)
    A,N: helper_menu(terms); two_token_helpers=False drops the helper definitions "t | u" (two terminals)
    canonical: keep one representative per renaming of the terminals.
    """
    riches = family_follow_rich_lists(helpers, terms, max_len, need_nt, rich if self_ref else None)
    if rich_slice is not None:
        riches = riches[rich_slice[0]::rich_slice[1]]
    menu = helper_menu(terms)
    if not two_token_helpers:
        menu = [m for m in menu if len(m) == 1 or () in m]
    for el in riches:
        for al in menu:
            for nl in menu:
                prods = ((rich, el), (helpers[0], al), (helpers[1], nl))
                if canonical and not _canonical_terms(prods, terms):
                    continue
                yield prods


def family_follow2(terms, rich_slice=None, rich="E", second="A", helper="N"):
    """C02 directed family "two rich symbols + one helper".

    E: 1-2 alternatives of length <= 2 over {A, N} + terms, each containing a non-terminal
    A: 1-2 alternatives of length <= 2 over {N} + terms
    N: eps, or eps and one terminal in both orders
    (chains of FOLLOW dependencies: N ends A, A ends E)
    """
    riches = family_follow_rich_lists((second, helper), terms, 2, True)
    if rich_slice is not None:
        riches = riches[rich_slice[0]::rich_slice[1]]
    a_alts = alternatives((helper,) + tuple(terms), 2)
    a_lists = [(a,) for a in a_alts] + list(itertools.permutations(a_alts, 2))
    n_lists = [((),)] + [p for t in terms for p in (((), (t,)), ((t,), ()))]
    for el in riches:
        for al in a_lists:
            for nl in n_lists:
                yield ((rich, el), (second, al), (helper, nl))


def family_prefix(terms, nts=("E", "A"), full=True, min_group=2):
    """C01 directed family for factorization: alternative lists of E built from a common prefix.

    prefix  : length 1-3, first symbol a terminal or the non-terminal A
    suffixes: 2-7 distinct remainders drawn from a fixed menu (the ">5 alternatives" rule is crossed),
              optionally a nested common prefix (two suffixes sharing their first symbols) and an empty
              (nullable) remainder; an unrelated alternative before / after the group.
    A       : a few helper definitions (terminal, nullable, two-token).
    full=False (quick tier): the first two definitions of A and three of the four placements only.
    min_group: smallest number of remainders (C02 uses the groups around the "more than 5" rule only).
    """
    t0, t1 = terms[0], terms[1]
    e, a = nts
    prefixes = [(t0,), (a,), (t0, t1), (a, t0), (t0, a), (t0, t0, t1), (a, t1, t0), (a, a)]
    rem_menu = [(), (t0,), (t1,), (t0, t0), (t0, t1), (t1, t0), (t1, t1), (a,), (t1, a), (t0, t1, t0),
                (t0, t1, t1)]
    a_defs = [((t1,),), ((), (t1,)), ((t1,), ()), ((t0, t1), (t1,)), ((t1, t0), (t1, t1), ())]
    extras = [None, ("before", (t1, t1, t1)), ("after", ()), ("after", (t1, t1, t1))]
    if not full:
        a_defs = a_defs[:2]
        extras = extras[:3]
    for pre in prefixes:
        for k in range(max(2, min_group), 8):
            for rems in itertools.combinations(rem_menu, k):
                if k >= 4 and rems[0] != ():       # larger groups: only the ones with a nullable remainder
                    continue
                if k >= 5 and rems[1] != (t0,):
                    continue
                orders = [rems, tuple(reversed(rems))]
                for order in orders:
                    group = [pre + r for r in order]
                    for ex in extras:
                        if ex is None:
                            alts = group
                        elif ex[0] == "before":
                            alts = [ex[1]] + group
                        else:
                            alts = group + [ex[1]]
                        if len(set(alts)) != len(alts):
                            continue
                        for ad in a_defs:
                            yield ((e, tuple(alts)), (a, ad))


def family_wide(terms, nts=("E", "A")):
    """Directed family around the "more than 5 alternatives" rule of smart factorization with *distinct*
    first symbols of the remainders, so that the factorized grammar is conflict-free in both modes:
    E -> pre c1 | pre c2 | ... | pre ck  (k = 4..7, optionally an empty remainder, an unrelated alternative
    before / after), pre of length 1-2 starting with a terminal or with A.  Needs >= 9 terminals."""
    e, a = nts
    p, q, z = terms[0], terms[1], terms[2]
    cs = terms[3:]
    assert len(cs) >= 6
    pres = [(p,), (p, q), (a,), (p, a), (a, p)]
    a_defs = [((q,),), ((), (q,))]
    for pre in pres:
        for k in range(4, 8):
            for with_eps in (False, True):
                rems = ([()] if with_eps else []) + [(c,) for c in cs[:k - (1 if with_eps else 0)]]
                for rr in (rems, list(reversed(rems))):
                    group = [pre + r for r in rr]
                    for extra in (None, "before", "after"):
                        alts = group if extra is None else ([(z, z)] + group if extra == "before"
                                                            else group + [(z, z)])
                        for ad in a_defs:
                            yield ((e, tuple(alts)), (a, ad))


def family_split(terms, nts=("E", "A")):
    """C01 directed family "shared leading part, not adjacent": E -> lead r1 | middle | lead r2.

    The unrelated middle alternative keeps factorization from merging the two alternatives, so the parser
    has to roll back from the first to the third with children already collected (a terminal, a helper
    matched by its empty production, a helper that consumed a token).
    """
    t0, t1 = terms[0], terms[1]
    e, a = nts
    leads = [(a,), (a, t0), (t0, a), (a, a), (t0,), (t0, t1)]
    rems = [(), (t0,), (t1,), (t0, t0), (t0, t1), (t1, t0), (t1, t1), (a,)]
    middles = [(t1,), (), (t1, t1), (a, t1, t1)]
    a_defs = [((),), ((), (t1,)), ((t1,), ()), ((t0,), ()), ((t1,),)]
    for lead in leads:
        for r1, r2 in itertools.permutations(rems, 2):
            for mid in middles:
                alts = (lead + r1, mid, lead + r2)
                if len(set(alts)) != 3:
                    continue
                for ad in a_defs:
                    yield ((e, alts), (a, ad))


def family_seq(terms, nts=("E", "W", "A")):
    """C01 directed family "sequence under roll-back".

    W : ProdSequence over one terminal, over two terminals, or over the non-terminal A (A -> w | v w)
    E : every ordered choice of 2-3 distinct alternatives from a menu that mixes the sequence with leading
        and trailing terminals (alternatives with different first symbols are not factorized, so the parser
        rolls back from one into the other and enters the sequence again at a later token).
    terms = (w, v, x, y).  The last part of the family uses as sequence item a symbol with common-prefix
    alternatives (a factorized symbol).
    """
    e, wseq, a = nts
    w, v, x, y = terms[:4]
    menu = [(wseq,), (wseq, x), (wseq, y), (w, wseq), (w, wseq, x), (w, wseq, y), (x, wseq), (x, wseq, y),
            (w, w, wseq, y), (wseq, x, wseq), (v, wseq, y)]
    seq_defs = [((wseq, (SEQ, w)),), ((wseq, (SEQ, w, v)),),
                ((wseq, (SEQ, a)), (a, ((w,), (v, w))))]
    for sd in seq_defs:
        for k in (2, 3):
            for alts in itertools.permutations(menu, k):
                yield ((e, alts),) + sd
    # items that are factorized symbols: common prefix of length 2 (suffix symbol kept in both modes) and of
    # length 1 (kept with smart_factorization=False only); no helper symbol may survive inside the items
    item_defs = [((wseq, (SEQ, a)), (a, ((w, v, w), (w, v, x)))),
                 ((wseq, (SEQ, a)), (a, ((w, v), (w, x)))),
                 ((wseq, (SEQ, a, y)), (a, ((w, v, w), (w, v), (w, x))))]
    for sd in item_defs:
        for alts in itertools.permutations(menu[:8], 2):
            yield ((e, alts),) + sd


def family_diverge(terms, nts=("E", "A")):
    """Directed family "group of three alternatives with one first symbol and non-monotone divergence":
    two alternatives share a long prefix (pre + long), the third leaves it right behind pre; all six
    orders (in some of them an EARLIER alternative diverges from the first at a smaller index than a LATER
    one), pre = a terminal or the non-terminal A, optionally an unrelated alternative before / after.
    terms = (p, a, b, c, d, x, y)."""
    e, a = nts
    p, ta, b, c, d, x, y = terms[:7]
    for pre in ((p,), (a,)):
        for long in ((b,), (b, c)):
            for mid in ((d,), (d, d), ()):
                group = (pre + long + (x,), pre + mid, pre + long + (y,))
                for order in itertools.permutations(group):
                    for extra in (None, "before", "after"):
                        alts = order if extra is None else (((d, x),) + order if extra == "before"
                                                            else order + ((d, x),))
                        for ad in (((ta,),), ((), (ta,))):
                            yield ((e, alts), (a, ad))


def non_monotone_divergence(pm):
    """True iff some symbol has >= 3 consecutive alternatives with the same first symbol in which an
    earlier alternative diverges from the first of the run at a smaller index than a later one."""
    def div(f, o):
        for i, (s1, s2) in enumerate(zip(f, o)):
            if s1 != s2:
                return i
        return None          # one is a prefix of the other
    for alts in pm.values():
        if is_seq(alts):
            continue
        i = 0
        while i < len(alts):
            j = i
            while j + 1 < len(alts) and alts[i] and alts[j + 1][:1] == alts[i][:1]:
                j += 1
            run = alts[i:j + 1]
            if len(run) >= 3:
                ds = [div(run[0], o) for o in run[1:]]
                for u in range(len(ds)):
                    for w_ in range(u + 1, len(ds)):
                        if ds[u] is not None and ds[w_] is not None and ds[u] < ds[w_]:
                            return True
            i = j + 1
    return False


def family_twice(terms, nts=("E", "A"), max_alt_len=2, max_alts=4):
    """Directed family "one symbol completed twice in one text under different lookaheads": A gets every
    ordered list of 2..max_alts distinct non-empty alternatives of length <= max_alt_len over the
    terminals such that two of them share their first terminal (a factorized group) and one starts with
    another terminal (a plain production next to the group); E -> A A and E -> A A t.  Every per-parse
    memo keyed by a position in the look-ahead's candidate list instead of the production meets both
    kinds of production at one key here."""
    e, a = nts
    pool = [alt for alt in alternatives(tuple(terms[:2]), max_alt_len) if alt]
    for n in range(2, max_alts + 1):
        for alts in itertools.permutations(pool, n):
            firsts = [x[0] for x in alts]
            if len(set(firsts)) < 2 or len(set(firsts)) == len(firsts):
                continue
            for tail in ((), (terms[0],)):
                yield ((e, ((a, a) + tail,)), (a, tuple(alts)))


def family_hidden(names, terms, max_prefix=2):
    """C03 directed family: a (possibly) recursive symbol behind nullable prefixes, over a given
    assignment ``names`` = (R, S, N, M) of names to roles.

    R -> p1 T t1 [| y]      p1 in {N,M}^<=max_prefix, T in {R,S}, t1 in {(), (x,)}
    S -> p2 R t2  or  x      p2 in {N,M}^<=1
    N in {eps; eps|x; x|eps}         M in {eps; eps|x; x|eps; x}
    """
    r, s, n, m = names
    x = terms[0]
    y = terms[1] if len(terms) > 1 else terms[0]
    p1s = [()]
    for k in range(1, max_prefix + 1):
        p1s += list(itertools.product((n, m), repeat=k))
    p2s = [(), (n,), (m,)]
    n_defs = [((),), ((), (x,)), ((x,), ())]
    m_defs = n_defs + [((x,),)]
    s_defs = [((x,),)] + [((p2 + (r,) + t2),) for p2 in p2s for t2 in ((), (x,))]
    for p1 in p1s:
        for tgt in (r, s):
            for t1 in ((), (x,)):
                for second in (None, (y,)):
                    r_alts = (p1 + (tgt,) + t1,) + (() if second is None else (second,))
                    for sd in s_defs:
                        for nd in n_defs:
                            for md in m_defs:
                                yield ((r, r_alts), (s, sd), (n, nd), (m, md))


# ============================================================================ self test
def selftest():
    """Cross-check the reference models against expectations spelled out in tests/test_llparser.py and
    in text books."""
    # TestBadGrammar.test_resursive_grammar: X -> NN -> GG TT ... -> TT -> X, hidden behind nullable GG
    pm = {"E": (("X", "WORD"),), "X": (("NN",),), "NN": (("GG", "TT", "WORD"), ()),
          "GG": (("WORD",), ()), "TT": (("X", "WORD"), ())}
    assert left_cycle(pm) == ["NN", "TT", "X"], left_cycle(pm)
    assert cycle_kind(pm) == "behind-nullable-prefix"
    # TestMathParserWithNullProductions: the classical LL(1) expression grammar
    pm = {"E": (("T", "EE"),), "EE": (("+", "E", "EE"), ()), "T": (("F", "TT"),),
          "TT": (("*", "F", "TT"), ()), "F": (("WORD",), ("(", "E", ")"))}
    assert left_cycle(pm) == []
    assert nullables(pm) == {"EE", "TT"}
    nul = nullables(pm)
    first = first_sets(pm, nul)
    assert first["E"] == {"WORD", "("} and first["EE"] == {"+"} and first["TT"] == {"*"}
    follow = follow_sets(pm, "E", first, nul)
    assert follow["E"] == {END, ")", "+"}, follow["E"]       # E is followed by EE in EE -> + E EE
    assert follow["T"] == {"+", ")", END} and follow["F"] == {"*", "+", ")", END}
    assert not is_ll1(pm, "E")       # EE -> + E EE | eps with '+' in FOLLOW(EE): the dangling-plus conflict
    pm2 = dict(pm, EE=(("+", "T", "EE"), ()))
    assert is_ll1(pm2, "E")
    lang = lang_bounded(pm2, 3)["E"]
    assert ("WORD",) in lang and ("WORD", "+", "WORD") in lang and ("(", "WORD", ")") in lang
    assert ("WORD", "+") not in lang and () not in lang
    # TestArithmeticsParser grammar: common prefixes, not LL(1) as written, no left recursion
    pm = {"E": (("SLAG", "+", "E"), ("SLAG", "-", "E"), ("SLAG",)),
          "SLAG": (("(", "E", ")"), ("WORD", "*", "SLAG"), ("WORD", "/", "SLAG"), ("WORD",))}
    assert left_cycle(pm) == [] and not is_ll1(pm, "E")
    # TestAmbiguousGrammar.test_nonll1_grammar_03: B -> k l | k l m is not LL(1) as written
    pm = {"E": (("A",),), "A": (("B", "FIN"),), "B": (("k", "l"), ("k", "l", "m"))}
    assert not is_ll1(pm, "E")
    assert lang_bounded(pm, 4)["E"] == {("k", "l", "FIN"), ("k", "l", "m", "FIN")}
    # the witnesses of DESIGN.md §3 are LL(1) / left recursive by the references
    pm = {"E": (("A", "N", "x"), ("b", "N", "y")), "A": ((), ("y",)), "N": ((), ("n",))}
    assert is_ll1(pm, "E") and ("y", "x") in lang_bounded(pm, 3)["E"]
    pm = {"E": (("A", "N", "A"),), "A": ((),), "N": ((), ("t",))}
    assert is_ll1(pm, "E")
    assert left_cycle({"E": (("A", "E"),), "A": ((),)}) == ["E"]
    assert left_cycle({"E": (("A", "E"),), "A": (("x",),)}) == []
    # validator on a hand-made tree
    class N:     # noqa
        def __init__(self, name, value):
            self.name, self.value = name, value
    pm = {"E": (("WORD", "OPT"),), "OPT": (("WORD",), ())}
    t = N("E", [N("WORD", "aaa"), N("OPT", None)])
    assert validate_tree(t, pm, {"WORD"}, "E", (("WORD", "aaa"),)) is None
    assert validate_tree(t, pm, {"WORD"}, "E", (("WORD", "bbb"),))[0] == "leaves-differ-from-tokens"
    t = N("E", [N("WORD", "aaa"), N("E__S00", None)])
    assert validate_tree(t, pm, {"WORD"}, "E", (("WORD", "aaa"),))[0] == "helper-symbol-in-tree"
    # sizes of the spaces quoted in DESIGN.md §2 C01
    assert count_sized(2, 2, 2, 2, 5) == 17201 and count_sized(3, 1, 2, 2, 5) == 34265
    assert sum(1 for _ in enum_sized(("E", "A"), ("a", "b"), 2, 2, 5)) == 17201
    assert sum(1 for k in range(7) for _ in enum_sized(("E", "A"), ("a",), 2, 2, 4, (k, 7))) == \
        count_sized(2, 1, 2, 2, 4)
