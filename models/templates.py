"""Reference model for C05: data -> text renderer, expected normal form, result normaliser, comparer.

Data (JSON-able, so a case can be replayed from its record):
    "a" | "b"                 atom (a WORD)
    None                      omitted item of a list whose item symbol is nullable
    ["L", item, ...]          list            ["AL"]   absent optional list
    ["M", [key, value], ...]  map             ["AM"]   absent optional map
    ["S", element, ...]       sequence (embedded as '@' ... ';')
    ["P", element, ...]       plain statement  '%' SEQ ';'        | two alternatives that cannot be factorized:
    ["N", name, element, ...] named statement  '%' WORD SEQ '.'   | the parser tries PLAIN first, consumes the
                              name and all elements as one sequence, fails at '.', rolls back and enters
                              the sequence again one token later (only in grammars built with stmts=True)
    ["R", element, ...]       row: a sequence that is directly the item of a list (only in lists whose item
                              symbol is a ProdSequence symbol); an empty row plays the part of an omitted item
Expected normal form (what the statement says the default cleanup returns; statements come back as
("plain", elements) / ("named", name, elements)):
    atom -> str, None -> None, list -> list in source order, map -> dict (a repeated key keeps the
    last value), sequence -> tuple of the matched elements in order, absent container -> None.

Template options (``LOpt`` / ``MOpt``) mirror the constructor arguments of ListProds / MapProds; the
grammar that embeds them is built in checks/c05_templates.py:
    VALUE -> WORD | <list symbol> | <map symbol> | SWRAP          SWRAP -> '@' SIN ';'  SIN -> SINB -> SEQ
    a list without brackets or an optional list is embedded as LWRAP -> '<' LIN '>', LIN -> LINB -> LIST
    (so that an absent list "<>" differs from an empty one "<[]>", and the closing token reaches the
    nullable template symbol through two enclosing symbols); same for maps with MWRAP -> '(' MIN ')'.
"""

import itertools

ATOMS = ("a", "b")
KEYS = ("a", "b")


class LOpt:
    """ListProds(open, item, delimiter, close, allow_final_delimiter=afd, optional=optional)."""

    def __init__(self, brackets, delim, afd, optional, nullable, item_seq=False):
        self.brackets, self.delim, self.afd, self.optional, self.nullable = brackets, delim, afd, optional, nullable
        # item_seq: the item symbol is itself a ProdSequence symbol ('ROW'); such an item is nullable
        self.item_seq = item_seq

    @property
    def afd_effective(self):            # documented default: allowed iff there are brackets and a delimiter
        return (self.delim and self.brackets) if self.afd is None else self.afd

    @property
    def wrapped(self):
        return (not self.brackets) or bool(self.optional)

    def key(self):
        return [self.brackets, self.delim, self.afd, self.optional, self.nullable, self.item_seq]

    def __repr__(self):
        return "L(br=%s,dl=%s,afd=%s,opt=%s,null=%s,rows=%s)" % tuple(self.key())


class MOpt:
    """MapProds(open, key, ':', value, ',', close, optional=optional, allow_final_delimiter=afd)."""

    def __init__(self, brackets, afd, optional, key_nt, val_same=False):
        self.brackets, self.afd, self.optional, self.key_nt = brackets, afd, optional, key_nt
        # val_same: the value symbol is the very symbol used for the keys (a word -> word map)
        self.val_same = val_same

    @property
    def wrapped(self):
        return (not self.brackets) or bool(self.optional)

    def key(self):
        return [self.brackets, self.afd, self.optional, self.key_nt, self.val_same]

    def __repr__(self):
        return "M(br=%s,afd=%s,opt=%s,keynt=%s,valsame=%s)" % tuple(self.key())


def list_options():
    """Every option combination the constructors accept (their assertions define validity)."""
    out = []
    for brackets, delim, afd, optional, nullable in itertools.product(
            (True, False), (True, False), (None, True, False), (None, False, True), (False, True)):
        if afd and not (brackets and delim):
            continue                    # assertion in ListProds.__init__
        if optional is not None and not brackets:
            continue                    # assertion in ListProds.__init__
        if nullable and not delim:
            continue                    # GrammarError in ListProds.verify_grammar
        out.append(LOpt(brackets, delim, afd, optional, nullable))
        if delim and nullable:
            # the same options with a ProdSequence symbol as item symbol (always nullable, needs a delimiter)
            out.append(LOpt(brackets, delim, afd, optional, True, item_seq=True))
    return out


def map_options():
    out = []
    for brackets, afd, optional, key_nt in itertools.product((True, False), (True, False), (None, False, True),
                                                              (False, True)):
        if optional is not None and not brackets:
            continue
        out.append(MOpt(brackets, afd, optional, key_nt))
        out.append(MOpt(brackets, afd, optional, key_nt, val_same=True))
    return out


L_DEFAULT = LOpt(True, True, None, None, False)
M_DEFAULT = MOpt(True, True, None, False)


# ------------------------------------------------------------------------------- data enumeration
class DataSpace:
    """All data values of a given size (number of nodes) and bounded depth, for given options."""

    def __init__(self, lopt, mopt, max_depth, max_width, stmts=False):
        self.l, self.m, self.max_depth, self.max_width = lopt, mopt, max_depth, max_width
        self.stmts = stmts
        self._memo = {}

    def values(self, size, depth):
        """Values of exactly ``size`` nodes whose nesting depth is <= depth (atoms have depth 0)."""
        key = (size, depth)
        got = self._memo.get(key)
        if got is not None:
            return got
        out = []
        if size == 1:
            out.extend(ATOMS)
            if self.l.optional:
                out.append(["AL"])
            if self.m.optional:
                out.append(["AM"])
        if depth >= 1 and size >= 1:
            # containers: one node for the container itself, the rest distributed over the children
            for kids in self._children(size - 1, depth - 1, allow_none=self.l.nullable, rows=self.l.item_seq):
                if kids and kids[-1] in (None, ["R"]) and not (self.l.afd_effective and self.l.delim):
                    # without an allowed final delimiter a trailing omitted item cannot be told from a
                    # final delimiter / an empty bracket pair; with one, "[a,,]" denotes ['a', None]
                    continue
                out.append(["L"] + list(kids))
            for kids in self._children(size - 1, depth - 1, allow_none=False, atoms_only=self.m.val_same):
                for keys in itertools.product(KEYS, repeat=len(kids)):
                    out.append(["M"] + [[k, v] for k, v in zip(keys, kids)])
            for kids in self._children(size - 1, depth - 1, allow_none=False):
                out.append(["S"] + list(kids))
                if self.stmts:
                    out.append(["P"] + list(kids))
                    for name in ATOMS:
                        out.append(["N", name] + list(kids))
        self._memo[key] = out
        return out

    def row_values(self, size, depth):
        """Rows (sequences that are list items) of exactly ``size`` nodes; a row does not count as a
        nesting level of its own."""
        return [["R"] + list(kids) for kids in self._children(size - 1, depth, allow_none=False)]

    def _children(self, total, depth, allow_none, rows=False, atoms_only=False):
        """All tuples of <= max_width children with sizes summing to ``total``."""
        res = []
        if total == 0:
            return [()]

        def rec(prefix, left):
            if left == 0:
                res.append(tuple(prefix))
                return
            if len(prefix) >= self.max_width:
                return
            for s in range(1, left + 1):
                if rows:
                    cands = self.row_values(s, depth)      # the empty row ["R"] is the omitted item
                elif atoms_only:
                    cands = list(ATOMS) if s == 1 else []
                else:
                    cands = list(self.values(s, depth))
                    if allow_none and s == 1:
                        cands = cands + [None]
                for c in cands:
                    prefix.append(c)
                    rec(prefix, left - s)
                    prefix.pop()
        rec([], total)
        return res

    def upto(self, max_size):
        for s in range(1, max_size + 1):
            for v in self.values(s, self.max_depth):
                yield v


def simple_values(atoms, max_size, max_width=3):
    """Every value of <= max_size nodes built from the given atoms, lists ["L", ...] and sequences
    ["S", ...] only (the AnyTokenExcept family: no delimiters, no maps), smallest first."""
    memo = {}

    def values(size):
        if size in memo:
            return memo[size]
        out = list(atoms) if size == 1 else []
        for kids in children(size - 1):
            out.append(["L"] + list(kids))
            out.append(["S"] + list(kids))
        memo[size] = out
        return out

    def children(total):
        res = []

        def rec(prefix, left):
            if left == 0:
                res.append(tuple(prefix))
                return
            if len(prefix) >= max_width:
                return
            for sz in range(1, left + 1):
                for c in values(sz):
                    prefix.append(c)
                    rec(prefix, left - sz)
                    prefix.pop()
        rec([], total)
        return res

    for sz in range(1, max_size + 1):
        for v in values(sz):
            yield v


def depth_of(v):
    if v is None or isinstance(v, str) or v[0] in ("AL", "AM"):
        return 0
    if v[0] == "M":
        return 1 + max([depth_of(x[1]) for x in v[1:]] or [0])
    if v[0] == "R":
        return max([depth_of(x) for x in v[1:]] or [0])
    if v[0] == "N":
        return 1 + max([depth_of(x) for x in v[2:]] or [0])
    return 1 + max([depth_of(x) for x in v[1:]] or [0])


def features_of(v, feats, inside=None):
    """Names of the structural features a data value exercises."""
    if v is None:
        feats.add("list:omitted-item")
        return
    if isinstance(v, str):
        return
    k = v[0]
    if k == "AL":
        feats.add("list:absent-optional")
        return
    if k == "AM":
        feats.add("map:absent-optional")
        return
    name = {"L": "list", "M": "map", "S": "seq", "R": "row", "P": "plain-stmt", "N": "named-stmt"}[k]
    feats.add(name)
    n = len(v) - (2 if k == "N" else 1)
    if k == "N":
        # the sequence of a named statement is entered a second time, one token later, after the roll-back
        feats.add("seq:entered-after-rollback")
        feats.add("seq:entered-after-rollback:len%s" % (n if n < 3 else "3+"))
    if k == "R" and n == 0:
        feats.add("list:omitted-item")
    feats.add(f"{name}:len{min(n, 3)}" if n < 3 else f"{name}:len3+")
    if inside is not None:
        feats.add(f"{name}-in-{inside}")
    kids = [x[1] for x in v[1:]] if k == "M" else (v[2:] if k == "N" else v[1:])
    if k == "M":
        ks = [x[0] for x in v[1:]]
        if len(set(ks)) < len(ks):
            feats.add("map:repeated-key")
    for c in kids:
        features_of(c, feats, name)


# ------------------------------------------------------------------------------- expected value
def expected(v, first_wins=False, tail=None, empty_rows=None):
    """Normal form the statement demands.

    Variants (each names a *reading* the check accepts or a wrong result it wants to name):
      first_wins : a repeated key keeps its first value (wrong; only used to name that class of violation)
      tail       : (lopt, fd_at) — a delimiter after the last item reads as 'one more, omitted, item':
                   for a list with nullable items whose options do not allow a final delimiter, and for
                   every list whose items are rows (an empty row is a legal row)
      empty_rows : lopt — a bracket-less list of rows without any token reads as one empty row
    """
    def rec(x, depth):
        if x is None or isinstance(x, str):
            return x
        k = x[0]
        if k in ("AL", "AM"):
            return None
        if k == "L":
            items = [rec(c, depth + 1) for c in x[1:]]
            if tail is not None and items:
                lopt, fd_at = tail
                has_fd = lopt.delim and (fd_at(depth) or x[-1] in (None, ["R"]))
                if has_fd and (lopt.item_seq or (lopt.nullable and not lopt.afd_effective)):
                    items.append(() if lopt.item_seq else None)
            if empty_rows is not None and not items and empty_rows.item_seq and not empty_rows.brackets:
                items = [()]
            return items
        if k == "M":
            d = {}
            for key, val in x[1:]:
                if first_wins and key in d:
                    continue
                d[key] = rec(val, depth + 1)
            return d
        if k == "P":
            return ("plain", tuple(rec(c, depth + 1) for c in x[1:]))
        if k == "N":
            return ("named", x[1], tuple(rec(c, depth + 1) for c in x[2:]))
        # "S" and "R": the matched elements in order
        return tuple(rec(c, depth + 1) for c in x[1:])
    return rec(v, 0)


def expected_with_omitted_tail(v, lopt, fd_at, first_wins=False):
    return expected(v, first_wins=first_wins, tail=(lopt, fd_at))


def key_order_violation(v, got):
    """``got`` is a normalised result equal (as data) to expected(v).  Walk both together and return
    (observed key order, acceptable orders) of the first map whose keys are not in source order, else
    None.  For a repeated key both the position of its first and of its last occurrence are accepted."""
    if v is None or isinstance(v, str) or v[0] in ("AL", "AM"):
        return None
    if v[0] == "M":
        ks = [p[0] for p in v[1:]]
        first = list(dict.fromkeys(ks))
        last = list(reversed(list(dict.fromkeys(reversed(ks)))))
        obs = list(got.keys())
        if obs != first and obs != last:
            return (obs, [first, last])
        final = {}
        for key, val in v[1:]:
            final[key] = val            # the value that survives is the last one
        for key, val in final.items():
            r = key_order_violation(val, got[key])
            if r is not None:
                return r
        return None
    pairs = zip(v[1:], got)
    if v[0] == "P":
        pairs = zip(v[1:], got[1])
    elif v[0] == "N":
        pairs = zip(v[2:], got[2])
    for c, g in pairs:
        r = key_order_violation(c, g)
        if r is not None:
            return r
    return None


# ------------------------------------------------------------------------------- renderer
FD_MODES = {
    "none": lambda depth: False,
    "all": lambda depth: True,
    "root": lambda depth: depth == 0,
    "inner": lambda depth: depth > 0,
}


class Rendered:
    __slots__ = ("tokens", "fd_used", "fd_forbidden", "fd_ambiguous", "fd_mandatory", "fd_rows", "empty_rowlist")

    def __init__(self):
        self.tokens = []
        self.fd_used = False        # some container got a final delimiter
        self.fd_mandatory = False   # ... because its last item is an omitted one
        self.fd_rows = False        # ... a list whose items are rows: the delimiter also reads as 'empty row follows'
        self.empty_rowlist = False  # a bracket-less list of rows without any token occurs
        self.fd_forbidden = False   # ... one whose options do not allow it (text must be rejected)
        self.fd_ambiguous = False   # ... a list with nullable items and final delimiter not allowed:
        #                             the same characters also read as 'omitted last item'


def render(v, lopt, mopt, fd_mode="none"):
    r = Rendered()
    fd_at = FD_MODES[fd_mode]

    def rec(x, depth):
        t = r.tokens
        if x is None:
            return
        if isinstance(x, str):
            t.append(x)
            return
        k = x[0]
        if k == "AL":
            t.extend(["<", ">"])
            return
        if k == "AM":
            t.extend(["(", ")"])
            return
        if k == "L":
            if lopt.wrapped:
                t.append("<")
            if lopt.brackets:
                t.append("[")
            elif lopt.item_seq and len(x) == 1:
                r.empty_rowlist = True
            for i, it in enumerate(x[1:]):
                if i and lopt.delim:
                    t.append(",")
                rec(it, depth + 1)
            fd_here = False
            if len(x) > 1 and x[-1] in (None, ["R"]):
                # trailing omitted item (only generated when a final delimiter is allowed): the final
                # delimiter is what makes the omitted item visible
                fd_here = r.fd_mandatory = True
            elif len(x) > 1 and lopt.delim and fd_at(depth):
                fd_here = True
            if fd_here:
                t.append(",")
                r.fd_used = True
                if lopt.item_seq:
                    r.fd_rows = True
                elif not lopt.afd_effective:
                    if lopt.nullable:
                        r.fd_ambiguous = True
                    else:
                        r.fd_forbidden = True
            if lopt.brackets:
                t.append("]")
            if lopt.wrapped:
                t.append(">")
            return
        if k == "R":
            for e in x[1:]:
                rec(e, depth + 1)
            return
        if k == "M":
            if mopt.wrapped:
                t.append("(")
            if mopt.brackets:
                t.append("{")
            for i, (key, val) in enumerate(x[1:]):
                if i:
                    t.append(",")
                t.extend([key, ":"])
                rec(val, depth + 1)
            if len(x) > 1 and fd_at(depth):
                t.append(",")
                r.fd_used = True
                if not mopt.afd:
                    r.fd_forbidden = True
            if mopt.brackets:
                t.append("}")
            if mopt.wrapped:
                t.append(")")
            return
        if k == "P":
            t.append("%")
            for e in x[1:]:
                rec(e, depth + 1)
            t.append(";")
            return
        if k == "N":
            t.extend(["%", x[1]])
            for e in x[2:]:
                rec(e, depth + 1)
            t.append(".")
            return
        assert k == "S", x
        t.append("@")
        for e in x[1:]:
            rec(e, depth + 1)
        t.append(";")

    rec(v, 0)
    return r


LAYOUTS = {
    "tight": [""],
    "space": [" "],
    "newline": ["\n  "],
    "comment": [" /*c*/ "],
    "mixed": [" ", " //x\n", "/*c\nd*/", "", "\n", "  /**/"],
    # characters str.splitlines() takes for line ends although the tokenizer contract (split at "\n" only)
    # does not: as blanks, inside a one-line comment whose remaining text would parse as further
    # items / entries / elements, and inside a multi-line comment
    "exotic": [" //\x0c b\n", "\x0c", " //x\u2028, a\n", "/*c\u2028d*/", "\u2028 ", " //\x0c a : b ,\n", "/*\x0c*/", ""],
}
EXOTIC_GAP_FEATURES = {
    " //\x0c b\n": "gap:eol-comment-with-exotic-line-break", " //x\u2028, a\n": "gap:eol-comment-with-exotic-line-break",
    " //\x0c a : b ,\n": "gap:eol-comment-with-exotic-line-break", "\x0c": "gap:exotic-line-break-as-blank",
    "\u2028 ": "gap:exotic-line-break-as-blank", "/*c\u2028d*/": "gap:span-comment-with-exotic-line-break",
    "/*\x0c*/": "gap:span-comment-with-exotic-line-break",
}


def _gap(gaps, i, n_tokens):
    # gaps are assigned by position; the cycle is rotated by the number of tokens so that across the data
    # every kind of gap meets every kind of token boundary
    return gaps[(i + n_tokens) % len(gaps)]


def layout_commented_copy(tokens):
    """One or two tokens per line; after every line a multi-line comment that spans whole lines and
    contains a character-for-character copy of that (live) line:   <line> / '/*' / <line> / '*/'.
    Commented text never denotes anything, so the text denotes the same data."""
    out = []
    i = 0
    width = 1
    while i < len(tokens):
        line = " ".join(tokens[i:i + width])
        out += [line, "/*", line, "*/"]
        i += width
        width = 3 - width               # lines of one and of two tokens alternate
    return "\n".join(out)


def layout(tokens, name):
    """Join tokens with the gaps of a layout (also before the first and after the last token)."""
    if name == "commented-copy":
        return layout_commented_copy(tokens)
    gaps = LAYOUTS[name]
    out = []
    nt = len(tokens)
    prev = None
    for i, tok in enumerate(tokens):
        g = _gap(gaps, i, nt)
        if g == "" and prev is not None and prev[-1].isalnum() and tok[0].isalnum():
            g = " "
        if not (i == 0 and name == "tight"):
            out.append(g)
        out.append(tok)
        prev = tok
    out.append(_gap(gaps, nt, nt))
    return "".join(out)


def layout_features(n_tokens, name):
    """Which kinds of gap a text of n tokens in this layout contains."""
    if name == "commented-copy":
        return {"gap:multi-line-comment-with-copy-of-an-earlier-live-line"} if n_tokens else set()
    gaps = LAYOUTS[name]
    return {EXOTIC_GAP_FEATURES[g] for g in (_gap(gaps, i, n_tokens) for i in range(n_tokens + 1))
            if g in EXOTIC_GAP_FEATURES}


# ------------------------------------------------------------------------------- normaliser
class Shape(Exception):
    """The cleaned tree contains something the statement does not allow."""

    def __init__(self, kind, detail, in_seq):
        super().__init__(kind)
        self.kind, self.detail, self.in_seq = kind, detail, in_seq


def _is_telem(x):
    return hasattr(x, "is_leaf") and hasattr(x, "value") and hasattr(x, "name")


def normalise(x, in_seq=False, rows=False):
    """Cleaned result -> plain Python data (list / dict / tuple for a sequence / str / None).

    rows=True: the grammar's list items are rows (the item symbol is a ProdSequence symbol), so every entry
    of a list value is itself the list of the elements the row matched -> tuple.
    in_seq: False, or "sequence" / "row" — where a not converted container was met (names the violation)."""
    if x is None or isinstance(x, str):
        return x
    if isinstance(x, list):
        if rows:
            out = []
            for row in x:
                if not (isinstance(row, list) and all(_is_telem(e) for e in row)):
                    raise Shape("row-not-a-list-of-elements", repr(row)[:160], in_seq)
                out.append(tuple(normalise(e, "row", rows) for e in row))
            return out
        return [normalise(i, in_seq, rows) for i in x]
    if isinstance(x, dict):
        out = {}
        for k, v in x.items():
            if not isinstance(k, str):
                raise Shape("map-key-not-a-string", repr(k)[:120], in_seq)
            out[k] = normalise(v, in_seq, rows)
        return out
    if not _is_telem(x):
        raise Shape("foreign-object-in-result", repr(x)[:120], in_seq)
    v = x.value
    kids = v if (isinstance(v, list) and v and all(_is_telem(c) for c in v)) else None
    if x.is_leaf() or kids is None:
        if x.is_leaf() and x.name == "SEQ" and isinstance(v, list) and all(_is_telem(c) for c in v):
            return tuple(normalise(e, "sequence", rows) for e in v)
        return normalise(v, in_seq, rows)
    names = [c.name for c in kids]
    if len(kids) == 3 and (names[0], names[2]) in (("<", ">"), ("(", ")")):
        return normalise(kids[1], in_seq, rows)
    if len(kids) == 3 and (names[0], names[2]) == ("@", ";"):
        seq = kids[1]
        while (not seq.is_leaf() and isinstance(seq.value, list) and len(seq.value) == 1
               and _is_telem(seq.value[0]) and seq.value[0].name in ("SINB", "SEQ")):
            seq = seq.value[0]          # wrapper chain SIN -> SINB -> SEQ that was not squashed (names are not judged)
        sv = seq.value
        if not (seq.is_leaf() and isinstance(sv, list)):
            raise Shape("sequence-not-a-list-of-elements", repr(seq)[:160], in_seq)
        return tuple(normalise(e, "sequence", rows) for e in sv)
    if names[0] == "%" and len(kids) >= 2:
        # statement: '%' + the children of PLAIN / NAMED, directly or as one child node
        body = kids[1:]
        if len(body) == 1 and not body[0].is_leaf() and isinstance(body[0].value, list) and \
                body[0].name in ("PLAIN", "NAMED", "STMT"):
            body = body[0].value
        bn = [c.name for c in body]

        def elems(seq):
            while (not seq.is_leaf() and isinstance(seq.value, list) and len(seq.value) == 1
                   and _is_telem(seq.value[0])):
                seq = seq.value[0]
            if not (seq.is_leaf() and isinstance(seq.value, list) and all(_is_telem(e) for e in seq.value)):
                raise Shape("sequence-not-a-list-of-elements", repr(seq)[:160], in_seq)
            return tuple(normalise(e, "sequence", rows) for e in seq.value)
        if len(body) == 2 and bn[1] == ";":
            return ("plain", elems(body[0]))
        if len(body) == 3 and bn[2] == ".":
            return ("named", normalise(body[0], in_seq, rows), elems(body[1]))
        raise Shape("unexpected-node", repr(x)[:200], in_seq)
    if x.name in ("LIST", "MAP") or names[0] in ("[", "{") or any("__" in nm for nm in names) or "__" in x.name:
        # a node of a template symbol (or of one of its helper symbols) that still has child nodes
        raise Shape("container-not-converted", repr(x)[:200], in_seq)
    if len(kids) == 1:
        return normalise(kids[0], in_seq, rows)
    raise Shape("unexpected-node", repr(x)[:200], in_seq)


# ------------------------------------------------------------------------------- comparer
def _kind(x):
    return {list: "list", dict: "map", tuple: "sequence", str: "atom", type(None): "none"}.get(type(x), "other")


def diff(exp, got):
    """None if equal, else a short class label for the first (document order) differing node."""
    if type(exp) is not type(got):
        return f"{_kind(exp)}-became-{_kind(got)}"
    if isinstance(exp, (list, tuple)):
        kind = _kind(exp)
        if len(exp) != len(got):
            d = len(got) - len(exp)
            extra = ""
            if d > 0 and list(got[:len(exp)]) == list(exp):
                extra = ":extra-trailing-none" if all(g is None for g in got[len(exp):]) else ":extra-trailing"
            elif d < 0 and list(exp[:len(got)]) == list(got):
                extra = ":last-missing"
            elif d < 0 and list(exp[-len(got):] if got else []) == list(got):
                extra = ":first-missing"
            return f"{kind}-{'longer' if d > 0 else 'shorter'}{extra}"
        for e, g in zip(exp, got):
            d = diff(e, g)
            if d is not None:
                if kind == "sequence" and isinstance(e, (list, dict)) and type(e) is not type(g):
                    # a list/map that is an element of a sequence came back as something else
                    return "container-inside-sequence-not-converted"
                if len(exp) > 1 and list(reversed(got)) == list(exp):
                    return f"{kind}-reversed"
                if len(exp) > 1 and sorted(map(repr, exp)) == sorted(map(repr, got)):
                    return f"{kind}-order"
                return d
        return None
    if isinstance(exp, dict):
        if set(exp) != set(got):
            return "map-keys"
        for k in exp:
            d = diff(exp[k], got[k])
            if d is not None:
                return d
        return None
    return None if exp == got else "atom-differs"


def selftest():
    """Expectations spelled out in tests/test_llparser.py, re-stated through the renderer/expected pair."""
    L = LOpt(True, True, None, None, True)
    M = M_DEFAULT
    # "[a, b,, d]" -> ['a', 'b', None, 'd']   (test_list_parser_std_item_nullable)
    v = ["L", "a", "b", None, "b"]
    assert render(v, L, M).tokens == ["[", "a", ",", "b", ",", ",", "b", "]"]
    assert expected(v) == ["a", "b", None, "b"]
    # "[a, b, [d, e, f], c,]" -> final delimiter adds nothing
    v = ["L", "a", ["L", "b", "a"], "b"]
    r = render(v, L, M, "all")
    assert r.tokens[-2:] == [",", "]"] and r.fd_used and not r.fd_forbidden and not r.fd_ambiguous
    assert expected(v) == ["a", ["b", "a"], "b"]
    # explicit allow_final_delimiter=False: not nullable -> rejected; nullable -> read as omitted item
    assert render(["L", "a"], LOpt(True, True, False, None, False), M, "all").fd_forbidden
    r = render(["L", "a"], LOpt(True, True, False, None, True), M, "all")
    assert r.fd_ambiguous and not r.fd_forbidden
    assert expected_with_omitted_tail(["L", "a"], LOpt(True, True, False, None, True), FD_MODES["all"]) == ["a", None]
    # "{a:{}, b:[]}"  and repeated key keeps the last value
    v = ["M", ["a", ["M"]], ["b", ["L"]], ["a", "b"]]
    assert render(v, L_DEFAULT, M).tokens == ["{", "a", ":", "{", "}", ",", "b", ":", "[", "]", ",", "a", ":", "b", "}"]
    assert expected(v) == {"a": "b", "b": []}
    assert key_order_violation(v, {"a": "b", "b": []}) is None and key_order_violation(v, {"b": [], "a": "b"}) is None
    w = ["M", ["a", "a"], ["b", ["M", ["a", "a"], ["b", "a"]]], ["a", ["M"]]]
    assert key_order_violation(w, {"a": {}, "b": {"a": "a", "b": "a"}}) is None
    assert key_order_violation(w, {"a": {}, "b": {"b": "a", "a": "a"}}) == (["b", "a"], [["a", "b"], ["a", "b"]])
    # optional list: "[a b c] 10" / "10" / "[] 10" -> list / None / []   (TestOptionalListParsers)
    LO = LOpt(True, False, None, True, False)
    assert render(["AL"], LO, M).tokens == ["<", ">"] and expected(["AL"]) is None
    assert render(["L"], LO, M).tokens == ["<", "[", "]", ">"] and expected(["L"]) == []
    assert len(list_options()) == 41 and len(map_options()) == 32, (len(list_options()), len(map_options()))
    # rows of cells (seeded/C05-b demo): "[ a b [ b , a a ] , a ]" -> [('a', 'b', [('b',), ('a', 'a')]), ('a',)]
    LR = LOpt(True, True, None, None, True, item_seq=True)
    v = ["L", ["R", "a", "b", ["L", ["R", "b"], ["R", "a", "a"]]], ["R", "a"]]
    assert render(v, LR, M).tokens == ["[", "a", "b", "[", "b", ",", "a", "a", "]", ",", "a", "]"]
    assert expected(v) == [("a", "b", [("b",), ("a", "a")]), ("a",)]
    r = render(["L", ["R", "a"]], LR, M, "all")
    assert r.fd_rows and not r.fd_forbidden and expected(["L", ["R", "a"]], tail=(LR, FD_MODES["all"])) == [("a",), ()]
    # word -> word map (seeded/C05-a demo): {a: b}
    assert render(["M", ["a", "b"]], L, MOpt(True, True, None, False, val_same=True)).tokens == ["{", "a", ":", "b", "}"]
    assert "\x0c" in layout(["[", "a", "]"], "exotic") and layout_features(3, "exotic")
    assert len(list(simple_values(("a", "1"), 3))) == 4 + 8 + 2 * (8 + 16)
    assert layout(["[", "a", ",", "b", "]"], "commented-copy") == "[\n/*\n[\n*/\na ,\n/*\na ,\n*/\nb\n/*\nb\n*/\n]\n/*\n]\n*/"
    # statements (seeded/C05-w3a demo): "% name ." -> named statement without elements
    assert render(["N", "a"], L, M).tokens == ["%", "a", "."] and expected(["N", "a"]) == ("named", "a", ())
    assert render(["P", "a", ["L", "b"]], L, M).tokens == ["%", "a", "[", "b", "]", ";"]
    assert expected(["N", "a", "b", ["L"]]) == ("named", "a", ("b", []))
    assert layout(["a", "b", ","], "tight") == "a b,"
    # "[a,,]" with nullable items and final delimiter allowed: items a, omitted; the final delimiter adds nothing
    r = render(["L", "a", None], L, M)
    assert r.tokens == ["[", "a", ",", ",", "]"] and r.fd_used and not r.fd_ambiguous and not r.fd_forbidden
    assert diff(["a", "b"], ["a", "b", None]) == "list-longer:extra-trailing-none"
    assert diff(("a", ["b"]), ("a", ["b"])) is None and diff(["a", "b"], ["b", "a"]) == "list-reversed"
